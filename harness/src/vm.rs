//! C09: run generated programs through the real pipeline (Context::interpret) and report
//! the final value, the captured print output and the compiled bytecode.
//! input line:  call ;;; call ...      call = stmt ;; stmt ...   (one `interpret` per call)
//! output line: R:<result> ## O:<printed lines joined by ␞> ## D:<dump>
//!   result: one outcome per call, joined by ' ;; ':  V:<value>  C (no value)  E:<RuntimeErrorKind>  T:<other error class>;  P (panic, whole line)
//!   dump  : numbat::verif::vm::disassembly after the last successful call
use numbat::module_importer::BuiltinModuleImporter;
use numbat::resolver::CodeSource;
use numbat::{Context, InterpreterResult, InterpreterSettings, NumbatError};
use std::io::{self, BufRead, Write};
use std::panic::{catch_unwind, AssertUnwindSafe};
use std::sync::{Arc, Mutex};

fn err_kind(e: &NumbatError) -> String {
    match e {
        NumbatError::ResolverError(_) => "T:Resolver".into(),
        NumbatError::NameResolutionError(_) => "T:NameResolution".into(),
        NumbatError::TypeCheckError(e) => {
            let d = format!("{e:?}");
            let k: String = d.chars().take_while(|c| c.is_alphanumeric()).collect();
            format!("T:TypeCheck.{k}")
        }
        NumbatError::RuntimeError(e) => {
            let d = format!("{:?}", e.kind);
            let k: String = d.chars().take_while(|c| c.is_alphanumeric()).collect();
            format!("E:{k}")
        }
    }
}

fn run_case(line: &str) -> String {
    let printed: Arc<Mutex<Vec<String>>> = Arc::new(Mutex::new(Vec::new()));
    let r = catch_unwind(AssertUnwindSafe(|| {
        let mut ctx = Context::new(BuiltinModuleImporter::default());
        let mut outcomes: Vec<String> = Vec::new();
        let mut dump = String::new();
        for call in line.split(" ;;; ") {
            let code = call.replace(" ;; ", "\n");
            let sink = printed.clone();
            let mut settings = InterpreterSettings {
                print_fn: Box::new(move |m: &numbat::markup::Markup| {
                    sink.lock().unwrap().push(m.to_string());
                }),
            };
            match ctx.interpret_with_settings(&mut settings, &code, CodeSource::Text) {
                Ok((_, InterpreterResult::Value(v))) => {
                    outcomes.push(format!("V:{}", numbat::verif::vm::value_repr(&v)));
                    dump = numbat::verif::vm::disassembly(&ctx);
                }
                Ok((_, InterpreterResult::Continue)) => {
                    outcomes.push("C".into());
                    dump = numbat::verif::vm::disassembly(&ctx);
                }
                Err(e) => {
                    // a failing input is rolled back by Context; the session goes on
                    outcomes.push(err_kind(&e));
                    dump = numbat::verif::vm::disassembly(&ctx);
                }
            }
        }
        let last = outcomes.join(" ;; ");
        (last, dump)
    }));
    let out = printed.lock().map(|p| p.join("\u{241e}")).unwrap_or_default();
    match r {
        Ok((last, dump)) => format!("R:{last} ## O:{out} ## D:{dump}"),
        Err(_) => format!("R:P ## O:{out} ## D:"),
    }
}

pub fn main() {
    let stdin = io::stdin();
    let stdout = io::stdout();
    let mut w = io::BufWriter::new(stdout.lock());
    for line in stdin.lock().lines() {
        let line = line.unwrap();
        if line.trim().is_empty() {
            continue;
        }
        writeln!(w, "{}", run_case(line.trim()).replace('\n', "\u{2424}")).unwrap();
    }
}
