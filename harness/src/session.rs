//! C06 / C07 / C17: run session histories on real numbat `Context`s (public API only).
//!
//! input line: fields separated by TAB; field content is escaped (`\\`, `\n`, `\t`).
//!   M<name>=<code>   define an in-memory module (looked up before the builtin modules)
//!   X                from now on the importer knows ONLY the in-memory modules
//!   @<i>             make context slot i current (created fresh on first use; slot 0 initially)
//!   K<j>             clone the current context into slot j
//!   I<code>          interpret <code> (CodeSource::Text) on the current context
//!   F<code>          same with CodeSource::File("f.nbt")
//!   J<code>          same with CodeSource::Internal
//!   D                digest of the current context (section hashes)
//!   d                digest of the current context (full text)
//!   n                names only: imp (ordered), vars, fns, units, dims (full text, no evaluation)
//!   s / S            order-insensitive digest: every section sorted (s: hashes, S: full text)
//!   R<line>          one REPL line: CommandRunner::try_run_command (real `save` etc.), else interpret + push_to_history
//!   L<path>          content of the file at <path> (what `save` wrote)
//!   A<code>          parse only: numbat::verif::syntax::dump_ast (statement trees, or ERR <kind>)
//!   G<module>        binding structure of a builtin module (hook numbat::verif::session::module_items on the text
//!                    the BuiltinModuleImporter serves): uses, defined names, free identifiers per statement
//!   U<module>        can `use <module>` still be imported on a CLONE, and what does it add?
//! output line: one item per I/F/J/D/d/U field, separated by TAB (escaped the same way)
//!   I → ok|<value or ->|<type or ->|<prints>      or  err|<stage>:<Kind>|<prints>   or  PANIC
//!   D → imp=<hash>;vars=<hash>;fns=<hash>;units=<hash>;dims=<hash>;vals=<hash>
//!   d → imp=[..];vars=[..];fns=[..];units=[..];dims=[..];vals=[name=text, ..]
//!   U → same as I for `use <module>` followed by the digest (hash form) after it
use numbat::command::{CommandControlFlow, CommandRunner};
use numbat::markup::Markup;
use numbat::session_history::SessionHistory;
use numbat::module_importer::{BuiltinModuleImporter, ModuleImporter};
use numbat::resolver::{CodeSource, ModulePath, ResolverError};
use numbat::{Context, InterpreterResult, InterpreterSettings, NumbatError};
use std::collections::HashMap;
use std::io::{self, BufRead, Write};
use std::panic::{catch_unwind, AssertUnwindSafe};
use std::path::PathBuf;
use std::sync::{Arc, Mutex};

pub fn esc(s: &str) -> String {
    let mut o = String::with_capacity(s.len());
    for c in s.chars() {
        match c {
            '\\' => o.push_str("\\\\"),
            '\n' => o.push_str("\\n"),
            '\t' => o.push_str("\\t"),
            '\r' => o.push_str("\\r"),
            c => o.push(c),
        }
    }
    o
}

pub fn unesc(s: &str) -> String {
    let mut o = String::with_capacity(s.len());
    let mut it = s.chars();
    while let Some(c) = it.next() {
        if c == '\\' {
            match it.next() {
                Some('n') => o.push('\n'),
                Some('t') => o.push('\t'),
                Some('r') => o.push('\r'),
                Some('\\') => o.push('\\'),
                Some(x) => {
                    o.push('\\');
                    o.push(x)
                }
                None => o.push('\\'),
            }
        } else {
            o.push(c);
        }
    }
    o
}

#[derive(Clone)]
struct TableImporter {
    table: Arc<HashMap<String, String>>,
    builtin: bool,
}

impl ModuleImporter for TableImporter {
    fn import(&self, path: &ModulePath) -> Option<(String, Option<PathBuf>)> {
        let key = path.to_string();
        if let Some(code) = self.table.get(&key) {
            return Some((code.clone(), None));
        }
        if self.builtin {
            BuiltinModuleImporter::default().import(path)
        } else {
            None
        }
    }
    fn list_modules(&self) -> Vec<ModulePath> {
        let mut v: Vec<ModulePath> = self
            .table
            .keys()
            .map(|k| ModulePath(k.split("::").map(|s| s.into()).collect()))
            .collect();
        if self.builtin {
            v.extend(BuiltinModuleImporter::default().list_modules());
        }
        v
    }
}

fn variant(dbg: &str) -> String {
    dbg.chars()
        .take_while(|c| c.is_alphanumeric() || *c == '_')
        .collect()
}

pub fn error_kind(e: &NumbatError) -> String {
    match e {
        NumbatError::ResolverError(ResolverError::UnknownModule(_, p)) => {
            format!("resolver:UnknownModule({p})")
        }
        NumbatError::ResolverError(ResolverError::ParseErrors(_)) => "resolver:ParseErrors".into(),
        NumbatError::NameResolutionError(e) => format!("name:{}", variant(&format!("{e:?}"))),
        NumbatError::TypeCheckError(e) => format!("type:{}", variant(&format!("{e:?}"))),
        NumbatError::RuntimeError(e) => format!("runtime:{}", variant(&format!("{:?}", e.kind))),
    }
}

/// one interpret call; prints are collected (the library calls print_fn as it goes)
pub fn interpret(ctx: &mut Context, code: &str, cs: CodeSource) -> String {
    let prints: Arc<Mutex<Vec<String>>> = Arc::new(Mutex::new(vec![]));
    let pc = prints.clone();
    let mut settings = InterpreterSettings {
        print_fn: Box::new(move |m: &Markup| {
            pc.lock().unwrap().push(format!("{m}"));
        }),
    };
    let r = catch_unwind(AssertUnwindSafe(|| {
        match ctx.interpret_with_settings(&mut settings, code, cs) {
            Ok((stmts, res)) => {
                let (v, t) = match &res {
                    InterpreterResult::Value(_) => {
                        // "    = <value>    [<type>]" as the REPL shows it
                        let m = res.to_markup(
                            stmts.last(),
                            ctx.dimension_registry(),
                            true,
                            true,
                            &numbat::FormatOptions::default(),
                        );
                        let txt = format!("{m}");
                        let txt = txt.trim().trim_start_matches('=').trim().to_string();
                        match txt.rsplit_once("    [") {
                            Some((v, t)) if t.ends_with(']') => {
                                (v.trim().to_string(), t.trim_end_matches(']').to_string())
                            }
                            _ => (txt, "-".to_string()),
                        }
                    }
                    InterpreterResult::Continue => ("-".into(), "-".into()),
                };
                format!("ok|{v}|{t}")
            }
            Err(e) => format!("err|{}", error_kind(&e)),
        }
    }));
    let p = prints.lock().unwrap().join("\u{1e}");
    match r {
        Ok(s) => format!("{s}|{p}"),
        Err(_) => "PANIC".into(),
    }
}

fn fnv(s: &str) -> String {
    let mut h: u64 = 0xcbf29ce484222325;
    for b in s.bytes() {
        h ^= b as u64;
        h = h.wrapping_mul(0x100000001b3);
    }
    format!("{h:016x}")
}

/// observable state of a context through the public API only
pub fn digest_sections(ctx: &Context) -> Vec<(&'static str, String)> {
    let imp: Vec<String> = ctx
        .resolver()
        .imported_modules
        .iter()
        .map(|m| m.to_string())
        .collect();
    let vars: Vec<String> = ctx.variable_names().map(|s| s.to_string()).collect();
    let fns: Vec<String> = catch_unwind(AssertUnwindSafe(|| {
        ctx.functions()
            .map(|f| format!("{}:{}", f.fn_name, f.signature_str))
            .collect()
    }))
    .unwrap_or_else(|_| vec!["PANIC".into()]);
    let units: Vec<String> = ctx.unit_names().iter().map(|a| a.join("/")).collect();
    let dims: Vec<String> = ctx.dimension_names().iter().map(|s| s.to_string()).collect();
    let mut unitreps: Vec<String> = catch_unwind(AssertUnwindSafe(|| {
        ctx.unit_representations()
            .map(|(n, (br, md))| format!("{n}={br}[{}]", md.readable_type))
            .collect()
    }))
    .unwrap_or_else(|_| vec!["PANIC".into()]);
    unitreps.sort();
    // values and types of all variables: one batched input on a clone
    let mut seen = std::collections::HashSet::new();
    let names: Vec<&String> = vars.iter().filter(|v| seen.insert((*v).clone())).collect();
    let mut vals = Vec::new();
    if !names.is_empty() {
        let mut c2 = ctx.clone();
        let code: String = names
            .iter()
            .map(|v| format!("print({v})\ntype({v})\n"))
            .collect();
        let out = interpret(&mut c2, &code, CodeSource::Internal);
        let parts: Vec<&str> = out.splitn(4, '|').collect();
        if parts.len() == 4 && parts[0] == "ok" {
            let ps: Vec<&str> = parts[3].split('\u{1e}').collect();
            for (i, v) in names.iter().enumerate() {
                vals.push(format!(
                    "{v}={}:{}",
                    ps.get(2 * i).unwrap_or(&"?"),
                    ps.get(2 * i + 1).unwrap_or(&"?").trim()
                ));
            }
        } else {
            // fall back to one variable at a time
            for v in names.iter() {
                let mut c3 = ctx.clone();
                vals.push(format!("{v}={}", interpret(&mut c3, v, CodeSource::Internal)));
            }
        }
    }
    // raw values of all globals as stored by the VM (hook numbat::verif::qty::raw_global):
    // f64 bit patterns and unit for quantities, canonical rendering otherwise
    let bits: Vec<String> = names
        .iter()
        .map(|v| {
            catch_unwind(AssertUnwindSafe(|| match numbat::verif::qty::raw_global(ctx, v) {
                Some(numbat::value::Value::Quantity(q)) => format!(
                    "{v}={:016x}<{}>",
                    q.unsafe_value().to_f64().to_bits(),
                    q.unit()
                ),
                Some(other) => format!("{v}={}", numbat::verif::vm::value_repr(&other)),
                None => format!("{v}=?"),
            }))
            .unwrap_or_else(|_| format!("{v}=PANIC"))
        })
        .collect();
    vec![
        ("imp", imp.join(",")),
        ("vars", vars.join(",")),
        ("fns", fns.join(",")),
        ("units", units.join(",")),
        ("dims", dims.join(",")),
        ("ureps", unitreps.join(",")),
        ("vals", vals.join(",")),
        ("ans", {
            // the last result (`ans` / `_`) as a later input would see it
            let mut c4 = ctx.clone();
            let o = interpret(&mut c4, "ans", CodeSource::Internal);
            let p: Vec<&str> = o.splitn(4, '|').collect();
            if p.len() >= 3 && p[0] == "ok" {
                format!("{}:{}", p[1], p[2])
            } else {
                "-".to_string()
            }
        }),
        ("bits", bits.join(",")),
    ]
}

pub fn digest(ctx: &Context, full: bool) -> String {
    // the insertion-ordered digest (tags d/D/U) has no `bits` section: it is also what the Coq
    // miniature model prints; f64 bit patterns are part of the sorted digest (tags s/S)
    digest_sections(ctx)
        .into_iter()
        .filter(|(k, _)| *k != "bits")
        .map(|(k, v)| {
            if full {
                format!("{k}=[{v}]")
            } else {
                format!("{k}={}", fnv(&v))
            }
        })
        .collect::<Vec<_>>()
        .join(";")
}

/// digest with every section's entries sorted and de-duplicated (for comparing import orders)
pub fn digest_sorted(ctx: &Context, full: bool) -> String {
    digest_sections(ctx)
        .into_iter()
        .map(|(k, v)| {
            let mut parts: Vec<String> = split_top(&v);
            parts.sort();
            parts.dedup();
            let v = parts.join(",");
            if full {
                format!("{k}=[{v}]")
            } else {
                format!("{k}={}", fnv(&v))
            }
        })
        .collect::<Vec<_>>()
        .join(";")
}

/// split a section at top-level commas (signatures contain commas inside brackets)
fn split_top(s: &str) -> Vec<String> {
    let mut out = Vec::new();
    let mut depth = 0i32;
    let mut cur = String::new();
    for c in s.chars() {
        match c {
            '(' | '[' | '<' | '{' => depth += 1,
            ')' | ']' | '>' | '}' => depth -= 1,
            _ => {}
        }
        if c == ',' && depth <= 0 {
            out.push(std::mem::take(&mut cur));
            depth = 0;
        } else {
            cur.push(c);
        }
    }
    if !cur.is_empty() {
        out.push(cur);
    }
    out
}

pub fn names_only(ctx: &Context) -> String {
    let imp: Vec<String> = ctx.resolver().imported_modules.iter().map(|m| m.to_string()).collect();
    let vars: Vec<String> = ctx.variable_names().map(|s| s.to_string()).collect();
    let fns: Vec<String> = ctx.function_names().map(|s| s.to_string()).collect();
    let units: Vec<String> = ctx.unit_names().iter().map(|a| a.join("/")).collect();
    let dims: Vec<String> = ctx.dimension_names().iter().map(|s| s.to_string()).collect();
    format!(
        "imp=[{}];vars=[{}];fns=[{}];units=[{}];dims=[{}]",
        imp.join(","),
        vars.join(","),
        fns.join(","),
        units.join(","),
        dims.join(",")
    )
}

fn run_case(line: &str) -> String {
    let mut table: HashMap<String, String> = HashMap::new();
    let mut builtin = true;
    // first pass: module table and importer mode (they apply to the whole case)
    for f in line.split('\t') {
        if let Some(rest) = f.strip_prefix('M') {
            if let Some((n, c)) = rest.split_once('=') {
                table.insert(n.to_string(), unesc(c));
            }
        } else if f == "X" {
            builtin = false;
        }
    }
    let importer = TableImporter {
        table: Arc::new(table),
        builtin,
    };
    let fresh = || Context::new(importer.clone());
    let mut slots: HashMap<usize, Context> = HashMap::new();
    let mut cur = 0usize;
    slots.insert(0, fresh());
    let mut outs: Vec<String> = Vec::new();
    let mut runner = CommandRunner::<()>::new().enable_save(SessionHistory::default());
    for f in line.split('\t') {
        if f.is_empty() {
            continue;
        }
        let (tag, rest) = f.split_at(1);
        match tag {
            "M" | "X" => {}
            "@" => {
                cur = rest.parse().unwrap_or(0);
                slots.entry(cur).or_insert_with(&fresh);
            }
            "K" => {
                let j: usize = rest.parse().unwrap_or(0);
                let c = slots.get(&cur).unwrap().clone();
                slots.insert(j, c);
            }
            "I" | "F" | "J" => {
                let cs = match tag {
                    "I" => CodeSource::Text,
                    "F" => CodeSource::File(PathBuf::from("f.nbt")),
                    _ => CodeSource::Internal,
                };
                let code = unesc(rest);
                let ctx = slots.get_mut(&cur).unwrap();
                outs.push(interpret(ctx, &code, cs));
            }
            "D" | "d" => {
                let ctx = slots.get(&cur).unwrap();
                let full = tag == "d";
                outs.push(
                    catch_unwind(AssertUnwindSafe(|| digest(ctx, full)))
                        .unwrap_or_else(|_| "PANIC".into()),
                );
            }
            "n" => {
                let ctx = slots.get(&cur).unwrap();
                outs.push(catch_unwind(AssertUnwindSafe(|| names_only(ctx))).unwrap_or_else(|_| "PANIC".into()));
            }
            "s" | "S" => {
                let ctx = slots.get(&cur).unwrap();
                let full = tag == "S";
                outs.push(
                    catch_unwind(AssertUnwindSafe(|| digest_sorted(ctx, full)))
                        .unwrap_or_else(|_| "PANIC".into()),
                );
            }
            "R" => {
                // the body of numbat-cli's repl_loop for one line (interactive mode)
                let text = unesc(rest);
                if text.trim().is_empty() {
                    outs.push("blank".into());
                    continue;
                }
                let ctx = slots.get_mut(&cur).unwrap();
                let r = catch_unwind(AssertUnwindSafe(|| runner.try_run_command(&text, ctx, &mut ())));
                match r {
                    Ok(Ok(CommandControlFlow::NotACommand)) => {
                        let o = interpret(ctx, &text, CodeSource::Text);
                        runner.push_to_history(&text, if o.starts_with("ok|") { Ok(()) } else { Err(()) });
                        outs.push(o);
                    }
                    Ok(Ok(_)) => outs.push("cmd".into()),
                    Ok(Err(_)) => outs.push("cmderr".into()),
                    Err(_) => outs.push("PANIC".into()),
                }
            }
            "A" => {
                let code = unesc(rest);
                outs.push(
                    catch_unwind(AssertUnwindSafe(|| numbat::verif::syntax::dump_ast(&code)))
                        .unwrap_or_else(|_| "PANIC".into()),
                );
            }
            "G" => {
                let path = ModulePath(rest.split("::").map(|x| x.into()).collect());
                outs.push(match BuiltinModuleImporter::default().import(&path) {
                    Some((code, _)) => catch_unwind(AssertUnwindSafe(|| {
                        numbat::verif::session::module_items(&code)
                    }))
                    .unwrap_or_else(|_| "PANIC".into()),
                    None => "NOMODULE".into(),
                });
            }
            "L" => {
                outs.push(std::fs::read_to_string(unesc(rest)).unwrap_or_else(|e| format!("@@IOERR {e}")));
            }
            "U" => {
                let mut c2 = slots.get(&cur).unwrap().clone();
                let o = interpret(&mut c2, &format!("use {rest}"), CodeSource::Internal);
                let d = catch_unwind(AssertUnwindSafe(|| digest(&c2, false)))
                    .unwrap_or_else(|_| "PANIC".into());
                outs.push(format!("{o}#{d}"));
            }
            _ => outs.push("?".into()),
        }
    }
    outs.iter().map(|o| esc(o)).collect::<Vec<_>>().join("\t")
}

pub fn main() {
    // units::currencies must not go to the network: use the built-in test rates
    Context::use_test_exchange_rates();
    let stdin = io::stdin();
    let stdout = io::stdout();
    let mut w = io::BufWriter::new(stdout.lock());
    for line in stdin.lock().lines() {
        let line = line.unwrap();
        if line.trim().is_empty() {
            continue;
        }
        let o = catch_unwind(AssertUnwindSafe(|| run_case(&line))).unwrap_or_else(|_| "PANIC".into());
        writeln!(w, "{o}").unwrap();
    }
}
