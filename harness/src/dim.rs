//! C02 / C16 / C01: run whole inputs through the real Context and report what the type checker
//! decided (raw type schemes through numbat::verif::dim), what was printed and how the run ended.
//!
//! `nbverif dim`      one case per line; inputs of one session separated by \x1e, lines of an
//!                    input by \x1f.  Output: <tc>&<tc>…\t<extra>&<extra>…
//!                      tc    = ok|stmt#stmt…  |  err|<TypeCheckError variant>  |  other|<stage>
//!                      extra = prints=<k>;rt=<ok|RuntimeErrorKind variant|->;defs=<same|changed>;out=<text>
//! `nbverif dim-env`  names on stdin; prints the name counter, the dimension registry and the
//!                    environment's type scheme of each name after `use prelude`.
use numbat::module_importer::BuiltinModuleImporter;
use numbat::resolver::CodeSource;
use numbat::verif::dim as hook;
use numbat::{Context, InterpreterResult, InterpreterSettings, NumbatError};
use std::io::{self, BufRead, Write};
use std::panic::{catch_unwind, AssertUnwindSafe};
use std::sync::{Arc, Mutex};

pub fn prelude_context() -> Context {
    let mut ctx = Context::new(BuiltinModuleImporter::default());
    ctx.load_currency_module_on_demand(false);
    let _ = ctx
        .interpret("use prelude", CodeSource::Internal)
        .expect("prelude loads");
    ctx
}

fn variant(dbg: &str) -> String {
    dbg.chars()
        .take_while(|c| c.is_ascii_alphanumeric() || *c == '_')
        .collect()
}

fn census(ctx: &Context) -> (usize, usize, usize, usize) {
    (
        ctx.variable_names().count(),
        ctx.function_names().count(),
        ctx.dimension_names().len(),
        ctx.unit_names().len(),
    )
}

pub fn esc(s: &str) -> String {
    s.replace('\\', "\\\\")
        .replace('\n', "\\n")
        .replace('\t', "\\t")
        .replace('&', "\\a")
        .replace(';', "\\s")
}

/// run one input; returns (tc observation, extra)
pub fn run_input(ctx: &mut Context, code: &str) -> (String, String) {
    let before = census(ctx);
    let prints: Arc<Mutex<Vec<String>>> = Arc::new(Mutex::new(Vec::new()));
    let p2 = prints.clone();
    let mut settings = InterpreterSettings {
        print_fn: Box::new(move |m| p2.lock().unwrap().push(m.to_string())),
    };
    let r = catch_unwind(AssertUnwindSafe(|| {
        match ctx.interpret_with_settings(&mut settings, code, CodeSource::Text) {
            Ok((stmts, res)) => {
                let tc = stmts
                    .iter()
                    .map(hook::statement_text)
                    .collect::<Vec<_>>()
                    .join("#");
                let out = match res {
                    InterpreterResult::Value(v) => format!("{v}"),
                    InterpreterResult::Continue => "-".to_string(),
                };
                (format!("ok|{tc}"), "ok".to_string(), out)
            }
            Err(e) => match *e {
                NumbatError::TypeCheckError(t) => (
                    format!("err|{}", variant(&format!("{t:?}"))),
                    "-".to_string(),
                    "-".to_string(),
                ),
                NumbatError::RuntimeError(r) => (
                    "ok|?".to_string(),
                    variant(&format!("{:?}", r.kind)),
                    esc(&format!("{r}")),
                ),
                NumbatError::ResolverError(e) => (
                    "other|Resolver".to_string(),
                    "-".to_string(),
                    esc(&format!("{e}")),
                ),
                NumbatError::NameResolutionError(e) => (
                    "other|NameResolution".to_string(),
                    "-".to_string(),
                    esc(&format!("{e}")),
                ),
            },
        }
    }));
    let (tc, rt, out) = r.unwrap_or_else(|_| {
        (
            "other|PANIC".to_string(),
            "PANIC".to_string(),
            "-".to_string(),
        )
    });
    let out = if tc.starts_with("other|") || rt != "ok" { out } else { esc(&out) };
    let after = census(ctx);
    let np = prints.lock().unwrap().len();
    (
        tc,
        format!(
            "prints={np};rt={rt};defs={};out={}",
            if before == after { "same" } else { "changed" },
            out
        ),
    )
}

pub fn main() {
    let base = prelude_context();
    let stdin = io::stdin();
    let stdout = io::stdout();
    let mut w = io::BufWriter::new(stdout.lock());
    for line in stdin.lock().lines() {
        let line = line.unwrap();
        if line.trim().is_empty() {
            continue;
        }
        let mut ctx = base.clone();
        let mut tcs = Vec::new();
        let mut extras = Vec::new();
        for input in line.split('\u{1e}') {
            let code = input.replace('\u{1f}', "\n");
            let (tc, extra) = run_input(&mut ctx, &code);
            tcs.push(tc);
            extras.push(extra);
        }
        writeln!(w, "{}\t{}", tcs.join("&"), extras.join("&")).unwrap();
    }
}

pub fn main_env() {
    let ctx = prelude_context();
    let stdin = io::stdin();
    let stdout = io::stdout();
    let mut w = io::BufWriter::new(stdout.lock());
    writeln!(w, "counter {}", hook::name_counter(&ctx)).unwrap();
    for l in hook::dimension_table(&ctx) {
        writeln!(w, "{l}").unwrap();
    }
    for line in stdin.lock().lines() {
        let name = line.unwrap();
        let name = name.trim();
        if name.is_empty() {
            continue;
        }
        match hook::identifier_text(&ctx, name) {
            Some(t) => writeln!(w, "ident {name} {t}").unwrap(),
            None => writeln!(w, "ident {name} -").unwrap(),
        }
    }
}
