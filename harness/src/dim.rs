//! C02 / C16 / C01: run whole inputs through the real Context and report what the type checker
//! decided (raw type schemes through numbat::verif::dim), what was printed and how the run ended.
//!
//! `nbverif dim`      one case per line; inputs of one session separated by \x1e, lines of an
//!                    input by \x1f.  Output: <tc>&<tc>…\t<extra>&<extra>…
//!                      tc    = ok|stmt#stmt…  |  err|<TypeCheckError variant>  |  other|<stage>
//!                      extra = prints=<k>;rt=<ok|RuntimeErrorKind variant|->;defs=<same|changed>;out=<text>;pp=<echoed statements, \x1f separated>
//! `nbverif dim-env`  names on stdin; prints the name counter, the dimension registry and the
//!                    environment's type scheme of each name after `use prelude`.
use numbat::module_importer::BuiltinModuleImporter;
use numbat::pretty_print::PrettyPrint;
use numbat::resolver::CodeSource;
use numbat::verif::dim as hook;
use numbat::{Context, InterpreterResult, InterpreterSettings, NumbatError};
use std::io::{self, BufRead, Write};
use std::panic::{catch_unwind, AssertUnwindSafe};
use std::sync::{Arc, Mutex};

pub fn prelude_context() -> Context {
    let mut ctx = Context::new(BuiltinModuleImporter::default());
    ctx.load_currency_module_on_demand(false);
    let _ = ctx
        .interpret("use prelude", CodeSource::Internal)
        .expect("prelude loads");
    ctx
}

fn variant(dbg: &str) -> String {
    dbg.chars()
        .take_while(|c| c.is_ascii_alphanumeric() || *c == '_')
        .collect()
}

fn census(ctx: &Context) -> (usize, usize, usize, usize) {
    (
        ctx.variable_names().count(),
        ctx.function_names().count(),
        ctx.dimension_names().len(),
        ctx.unit_names().len(),
    )
}

pub fn esc(s: &str) -> String {
    s.replace('\\', "\\\\")
        .replace('\n', "\\n")
        .replace('\t', "\\t")
        .replace('&', "\\a")
        .replace(';', "\\s")
}

/// run one input; returns (tc observation, extra)
pub fn run_input(ctx: &mut Context, code: &str) -> (String, String) {
    let before = census(ctx);
    let prints: Arc<Mutex<Vec<String>>> = Arc::new(Mutex::new(Vec::new()));
    let p2 = prints.clone();
    let mut settings = InterpreterSettings {
        print_fn: Box::new(move |m| p2.lock().unwrap().push(m.to_string())),
    };
    let r = catch_unwind(AssertUnwindSafe(|| {
        match ctx.interpret_with_settings(&mut settings, code, CodeSource::Text) {
            Ok((stmts, res)) => {
                let tc = stmts
                    .iter()
                    .map(hook::statement_text)
                    .collect::<Vec<_>>()
                    .join("#");
                let out = match res {
                    InterpreterResult::Value(v) => format!("{v}"),
                    InterpreterResult::Continue => "-".to_string(),
                };
                let pp = stmts
                    .iter()
                    .map(|s| s.pretty_print().to_string())
                    .collect::<Vec<_>>()
                    .join("\u{1f}");
                (format!("ok|{tc}"), "ok".to_string(), format!("{out}\u{1d}{pp}"))
            }
            Err(e) => match *e {
                NumbatError::TypeCheckError(t) => (
                    format!("err|{}", variant(&format!("{t:?}"))),
                    "-".to_string(),
                    "-".to_string(),
                ),
                NumbatError::RuntimeError(r) => (
                    "ok|?".to_string(),
                    variant(&format!("{:?}", r.kind)),
                    esc(&format!("{r}")),
                ),
                NumbatError::ResolverError(e) => (
                    "other|Resolver".to_string(),
                    "-".to_string(),
                    esc(&format!("{e}")),
                ),
                NumbatError::NameResolutionError(e) => (
                    "other|NameResolution".to_string(),
                    "-".to_string(),
                    esc(&format!("{e}")),
                ),
            },
        }
    }));
    let (tc, rt, out) = r.unwrap_or_else(|_| {
        (
            "other|PANIC".to_string(),
            "PANIC".to_string(),
            "-".to_string(),
        )
    });
    // accepted inputs: value text and the pretty-printed (echoed) statements
    let (out, pp) = match out.split_once('\u{1d}') {
        Some((o, p)) => (o.to_string(), p.to_string()),
        None => (out, String::new()),
    };
    let out = if tc.starts_with("other|") || rt != "ok" { out } else { esc(&out) };
    let after = census(ctx);
    let np = prints.lock().unwrap().len();
    (
        tc,
        format!(
            "prints={np};rt={rt};defs={};out={};pp={}",
            if before == after { "same" } else { "changed" },
            out,
            esc(&pp)
        ),
    )
}

/// `use prelude` on a fresh Context; Err(text) when the prelude itself is rejected
/// (text = `<stage>|<variant> <message>`), so that the check can report it as an input.
pub fn try_prelude_context() -> Result<Context, String> {
    let r = catch_unwind(|| {
        let mut ctx = Context::new(BuiltinModuleImporter::default());
        ctx.load_currency_module_on_demand(false);
        match ctx.interpret("use prelude", CodeSource::Internal) {
            Ok(_) => Ok(ctx),
            Err(e) => Err(match *e {
                NumbatError::TypeCheckError(t) => {
                    format!("err|{} {}", variant(&format!("{t:?}")), esc(&format!("{t}")))
                }
                NumbatError::RuntimeError(r) => format!("runtime|{}", esc(&format!("{r}"))),
                NumbatError::ResolverError(e) => format!("other|Resolver {}", esc(&format!("{e}"))),
                NumbatError::NameResolutionError(e) => {
                    format!("other|NameResolution {}", esc(&format!("{e}")))
                }
            }),
        }
    });
    r.unwrap_or_else(|_| Err("other|PANIC".to_string()))
}

pub fn main() {
    let base = match try_prelude_context() {
        Ok(c) => c,
        Err(e) => {
            println!("@@PRELUDE-REJECTED {e}");
            return;
        }
    };
    let stdin = io::stdin();
    let stdout = io::stdout();
    let mut w = io::BufWriter::new(stdout.lock());
    for line in stdin.lock().lines() {
        let line = line.unwrap();
        if line.trim().is_empty() {
            continue;
        }
        let mut ctx = base.clone();
        let mut tcs = Vec::new();
        let mut extras = Vec::new();
        for input in line.split('\u{1e}') {
            let code = input.replace('\u{1f}', "\n");
            let (tc, extra) = run_input(&mut ctx, &code);
            tcs.push(tc);
            extras.push(extra);
        }
        writeln!(w, "{}\t{}", tcs.join("&"), extras.join("&")).unwrap();
    }
}

/// `nbverif dim-run`: like `dim`, and after each input the raw values of the globals named in the
/// first \x1c-separated field of the case: `names\x1cinput\x1einput…`; extra gets `;raw=name=<text>,…`
pub fn main_run() {
    let base = prelude_context();
    let stdin = io::stdin();
    let stdout = io::stdout();
    let mut w = io::BufWriter::new(stdout.lock());
    for line in stdin.lock().lines() {
        let line = line.unwrap();
        if line.trim().is_empty() {
            continue;
        }
        let (names, body) = line.split_once('\u{1c}').unwrap_or(("", &line));
        let mut ctx = base.clone();
        let mut tcs = Vec::new();
        let mut extras = Vec::new();
        for input in body.split('\u{1e}') {
            let code = input.replace('\u{1f}', "\n");
            let (tc, extra) = run_input(&mut ctx, &code);
            let raws: Vec<String> = names
                .split(',')
                .filter(|n| !n.is_empty())
                .map(|n| {
                    let t = catch_unwind(AssertUnwindSafe(|| hook::raw_global_text(&ctx, n)))
                        .unwrap_or(None)
                        .unwrap_or_else(|| "-".to_string());
                    format!("{n}={t}")
                })
                .collect();
            tcs.push(tc);
            extras.push(format!("{extra};raw={}", raws.join("!")));
        }
        writeln!(w, "{}\t{}", tcs.join("&"), extras.join("&")).unwrap();
    }
}

pub fn main_env() {
    let ctx = match try_prelude_context() {
        Ok(c) => c,
        Err(e) => {
            println!("prelude-rejected {e}");
            return;
        }
    };
    let stdin = io::stdin();
    let stdout = io::stdout();
    let mut w = io::BufWriter::new(stdout.lock());
    writeln!(w, "counter {}", hook::name_counter(&ctx)).unwrap();
    for l in hook::dimension_table(&ctx) {
        writeln!(w, "{l}").unwrap();
    }
    for line in stdin.lock().lines() {
        let name = line.unwrap();
        let name = name.trim();
        if name.is_empty() {
            continue;
        }
        match hook::identifier_text(&ctx, name) {
            Some(t) => writeln!(w, "ident {name} {t}").unwrap(),
            None => writeln!(w, "ident {name} -").unwrap(),
        }
    }
}
