//! `nbverif echo`: the echoed (pretty-printed) form of a statement, re-read in a clone of the same session.
//!
//! in : `<hex setup> <hex statement> [<hex probe expression>]` per line (`-` for an empty field)
//! out: `<status> <hex echo> <hex value1> <hex status2> <hex echo2> <hex value2> <hex probe1> <hex probe2>`
//!   status  = OK | SETUPERR | REJECT:<error class> | PANIC1 (statement itself panics) | PANIC (echo panics)
//!   status2 = OK | REJECT:<error class>:<message>
use numbat::module_importer::BuiltinModuleImporter;
use numbat::pretty_print::PrettyPrint;
use numbat::resolver::CodeSource;
use numbat::{Context, FormatOptions, InterpreterResult, NumbatError};
use std::io::{self, BufRead, Write};

fn hex(s: &str) -> String {
    if s.is_empty() {
        return "-".to_owned();
    }
    s.bytes().map(|b| format!("{b:02x}")).collect()
}

fn unhex(s: &str) -> Option<String> {
    if s == "-" {
        return Some(String::new());
    }
    crate::syntax::unhex(s)
}

fn err_class(e: &NumbatError) -> String {
    match e {
        NumbatError::ResolverError(e) => format!("Resolver:{}", first_line(&e.to_string())),
        NumbatError::NameResolutionError(e) => format!("NameResolution:{}", first_line(&e.to_string())),
        NumbatError::TypeCheckError(e) => format!("TypeCheck:{}", first_line(&e.to_string())),
        NumbatError::RuntimeError(e) => format!("Runtime:{}", first_line(&e.to_string())),
    }
}

fn first_line(s: &str) -> String {
    s.lines().next().unwrap_or("").replace(' ', "_")
}

fn options() -> FormatOptions {
    FormatOptions {
        digit_separator: String::new(),
        digit_grouping_threshold: 1000,
        significant_digits: 17,
        ..FormatOptions::default()
    }
}

/// interpret one input: (echo of the last statement, value text with type) or the error class
fn run(ctx: &mut Context, code: &str) -> Result<(String, String), String> {
    match ctx.interpret(code, CodeSource::Text) {
        Err(e) => Err(err_class(&e)),
        Ok((statements, result)) => {
            let echo = statements
                .last()
                .map(|s| s.pretty_print().to_string())
                .unwrap_or_default();
            let value = match &result {
                InterpreterResult::Continue => String::new(),
                InterpreterResult::Value(_) => result
                    .to_markup(
                        statements.last(),
                        ctx.dimension_registry(),
                        true,
                        false,
                        &options(),
                    )
                    .to_string()
                    .trim()
                    .to_owned(),
            };
            Ok((echo, value))
        }
    }
}

pub fn main() {
    let mut base = Context::new(BuiltinModuleImporter::default());
    base.load_currency_module_on_demand(false);
    let _ = base.interpret("use prelude", CodeSource::Internal);
    let stdin = io::stdin();
    let stdout = io::stdout();
    let mut out = stdout.lock();
    for line in stdin.lock().lines() {
        let line = line.unwrap();
        let fields: Vec<&str> = line.split_whitespace().collect();
        let (Some(setup), Some(stmt)) = (
            fields.first().and_then(|s| unhex(s)),
            fields.get(1).and_then(|s| unhex(s)),
        ) else {
            writeln!(out, "@@BADCASE").unwrap();
            continue;
        };
        let probe = fields.get(2).and_then(|s| unhex(s)).unwrap_or_default();
        let base_ref = &base;
        let res = std::panic::catch_unwind(std::panic::AssertUnwindSafe(|| {
            let mut ctx = base_ref.clone();
            if !setup.is_empty() && ctx.interpret(&setup, CodeSource::Text).is_err() {
                return "SETUPERR - - - - - - -".to_owned();
            }
            let mut ctx2 = ctx.clone();
            let first = std::panic::catch_unwind(std::panic::AssertUnwindSafe(|| run(&mut ctx, &stmt)));
            let (echo, v1) = match first {
                // a panic on the statement itself is not a matter of its echo
                Err(_) => return "PANIC1 - - - - - - -".to_owned(),
                Ok(Err(e)) => return format!("REJECT:{e} - - - - - - -"),
                Ok(Ok(x)) => x,
            };
            let (st2, echo2, v2) = match run(&mut ctx2, &echo) {
                Err(e) => (format!("REJECT:{e}"), String::new(), String::new()),
                Ok((e2, v2)) => ("OK".to_owned(), e2, v2),
            };
            let (p1, p2) = if probe.is_empty() {
                (String::new(), String::new())
            } else {
                let a = run(&mut ctx, &probe).map(|x| x.1).unwrap_or_else(|e| format!("ERR {e}"));
                let b = if st2 == "OK" {
                    run(&mut ctx2, &probe).map(|x| x.1).unwrap_or_else(|e| format!("ERR {e}"))
                } else {
                    String::new()
                };
                (a, b)
            };
            format!(
                "OK {} {} {} {} {} {} {}",
                hex(&echo),
                hex(&v1),
                hex(&st2),
                hex(&echo2),
                hex(&v2),
                hex(&p1),
                hex(&p2)
            )
        }));
        match res {
            Ok(l) => writeln!(out, "{l}").unwrap(),
            Err(_) => writeln!(out, "PANIC - - - - - - -").unwrap(),
        }
    }
}
