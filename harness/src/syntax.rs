//! `nbverif syntax`: one hex-encoded (UTF-8) source text per line in, one line
//! `T <token dump> | A <ast dump>` out (numbat::verif::syntax hooks).
use std::io::{self, BufRead, Write};

pub fn unhex(s: &str) -> Option<String> {
    let s = s.trim();
    if s.len() % 2 != 0 {
        return None;
    }
    let mut bytes = Vec::with_capacity(s.len() / 2);
    for i in (0..s.len()).step_by(2) {
        bytes.push(u8::from_str_radix(s.get(i..i + 2)?, 16).ok()?);
    }
    String::from_utf8(bytes).ok()
}

pub fn main() {
    let stdin = io::stdin();
    let stdout = io::stdout();
    let mut out = stdout.lock();
    for line in stdin.lock().lines() {
        let line = line.unwrap();
        let Some(src) = unhex(&line) else {
            writeln!(out, "@@BADCASE").unwrap();
            continue;
        };
        let toks = std::panic::catch_unwind(|| numbat::verif::syntax::dump_tokens(&src))
            .unwrap_or_else(|_| "PANIC".to_owned());
        let ast = std::panic::catch_unwind(|| numbat::verif::syntax::dump_ast(&src))
            .unwrap_or_else(|_| "PANIC".to_owned());
        writeln!(out, "T {toks} | A {ast}").unwrap();
    }
}
