//! C03 C04 C05 C11 C12 C21: quantities and units of the real implementation.
//!
//! One session (`use prelude`) per process; one observation line per input line.
//!
//! `T`                    unit table of the session, one line:
//!                        name|canon|short|metric|binary|abbrev|aliases|kind|embedded_ok ; ...
//!                        kind = B  or  D:<f64 bits hex>:<factors>
//! `R tok tok ...`        RPN program on real `Quantity` values (direct calls):
//!     q:<bits>:<factors>   push a quantity   (factors = name/M|B/pexp/num/den,... or -)
//!     mul div add sub neg pow:<int> conv convto eq ne cmp simp simpr base dup swap
//!                        output: observation of the final stack top
//! `S[@name] source`      clone of the session, `Context::interpret` (␤ = newline); observation
//!                        of the result, captured prints, and the raw global `name` if requested
//!
//! observation: Q:<bits>:<factors>:<s|n>:<target or ->|<display>   B:<0|1>   C:<code>
//!              E:<kind>   P (panic)
use numbat::module_importer::BuiltinModuleImporter;
use numbat::resolver::CodeSource;
use numbat::value::Value;
use numbat::verif::qty as hk;
use numbat::verif::qty::{Prefix, Quantity, Rational, Unit, UnitFactor, UnitKind};
use numbat::{Context, InterpreterResult, InterpreterSettings, NumbatError, RuntimeErrorKind};
use std::io::{self, BufRead, Write};
use std::panic::{catch_unwind, AssertUnwindSafe};
use std::sync::{Arc, Mutex};

fn show_prefix(p: &Prefix) -> String {
    match p {
        Prefix::Metric(e) => format!("M/{e}"),
        Prefix::Binary(e) => format!("B/{e}"),
    }
}

fn show_unit(u: &Unit) -> String {
    let fs: Vec<String> = u
        .iter()
        .map(|f| {
            format!(
                "{}/{}/{}/{}",
                f.unit_id.name,
                show_prefix(&f.prefix),
                f.exponent.numer(),
                f.exponent.denom()
            )
        })
        .collect();
    if fs.is_empty() {
        "-".into()
    } else {
        fs.join(",")
    }
}

fn show_q_core(q: &Quantity) -> String {
    format!(
        "{:016x}:{}",
        q.unsafe_value().to_f64().to_bits(),
        show_unit(q.unit())
    )
}

fn show_q(q: &Quantity) -> String {
    let tgt = match q.verif_conversion_target() {
        Some(t) => show_q_core(t).replace(':', "="),
        None => "-".into(),
    };
    format!(
        "Q:{}:{}:{}|{}",
        show_q_core(q),
        if q.can_simplify() { "s" } else { "n" },
        tgt,
        q.to_string().replace('\n', "␤")
    )
}

fn parse_unit(ctx: &Context, s: &str) -> Result<Unit, String> {
    if s == "-" || s.is_empty() {
        return Ok(Unit::scalar());
    }
    let mut fs = Vec::new();
    for f in s.split(',') {
        let p: Vec<&str> = f.split('/').collect();
        if p.len() != 5 {
            return Err(format!("bad factor {f}"));
        }
        let base = hk::unit(ctx, p[0]).ok_or_else(|| format!("unknown unit {}", p[0]))?;
        let id = base.iter().next().ok_or("empty unit")?.unit_id.clone();
        let e: i32 = p[2].parse().map_err(|_| "bad prefix exponent")?;
        let prefix = match p[1] {
            "M" => Prefix::Metric(e),
            "B" => Prefix::Binary(e),
            _ => return Err("bad prefix kind".into()),
        };
        let n: i128 = p[3].parse().map_err(|_| "bad num")?;
        let d: i128 = p[4].parse().map_err(|_| "bad den")?;
        fs.push(UnitFactor {
            unit_id: id,
            prefix,
            exponent: Rational::new(n, d),
        });
    }
    Ok(Unit::from_factors(fs))
}

enum Item {
    Q(Quantity),
    B(bool),
    C(char),
}

fn show_item(i: &Item) -> String {
    match i {
        Item::Q(q) => show_q(q),
        Item::B(b) => format!("B:{}", *b as u8),
        Item::C(c) => format!("C:{c}"),
    }
}

fn popq(st: &mut Vec<Item>) -> Result<Quantity, String> {
    match st.pop() {
        Some(Item::Q(q)) => Ok(q),
        _ => Err("E:stack".into()),
    }
}

fn qerr<T>(r: Result<T, hk::QuantityError>) -> Result<T, String> {
    r.map_err(|e| match e {
        hk::QuantityError::IncompatibleUnits(..) => "E:incompat".to_string(),
        hk::QuantityError::NonRationalExponent => "E:nonrational".to_string(),
        hk::QuantityError::ExponentOverflow => "E:exponent-overflow".to_string(),
    })
}

fn run_rpn(ctx: &Context, toks: &str) -> Result<String, String> {
    let mut st: Vec<Item> = Vec::new();
    for tok in toks.split(' ').filter(|t| !t.is_empty()) {
        if let Some(rest) = tok.strip_prefix("q:") {
            let (bits, u) = rest.split_once(':').ok_or("E:syntax")?;
            let v = f64::from_bits(u64::from_str_radix(bits, 16).map_err(|_| "E:syntax")?);
            let unit = parse_unit(ctx, u).map_err(|e| format!("E:syntax {e}"))?;
            st.push(Item::Q(Quantity::new_f64(v, unit)));
            continue;
        }
        if let Some(n) = tok.strip_prefix("pow:") {
            let n: i64 = n.parse().map_err(|_| "E:syntax")?;
            let a = popq(&mut st)?;
            let r = qerr(a.checked_power(Quantity::from_scalar(n as f64)))?;
            st.push(Item::Q(r.ok_or("E:divzero")?));
            continue;
        }
        match tok {
            "mul" | "div" | "add" | "sub" | "conv" | "convto" | "eq" | "ne" | "cmp" => {
                let b = popq(&mut st)?;
                let a = popq(&mut st)?;
                let it = match tok {
                    "mul" => Item::Q(a * b),
                    "div" => Item::Q(a.checked_div(b).ok_or("E:divzero")?),
                    "add" => Item::Q(qerr(&a + &b)?),
                    "sub" => Item::Q(qerr(&a - &b)?),
                    "conv" => Item::Q(qerr(a.convert_to(b.unit()))?),
                    // what vm.rs does for Op::ConvertTo
                    "convto" => Item::Q(qerr(
                        a.convert_to(b.unit())
                            .map(|q| q.no_simplify().with_conversion_target(b)),
                    )?),
                    "eq" => Item::B(a == b),
                    "ne" => Item::B(a != b),
                    _ => Item::C(a.verif_partial_cmp_preserve_nan(&b)),
                };
                st.push(it);
            }
            "neg" => {
                let a = popq(&mut st)?;
                st.push(Item::Q(-a));
            }
            "simp" => {
                let a = popq(&mut st)?;
                st.push(Item::Q(a.full_simplify()));
            }
            "simpr" => {
                let a = popq(&mut st)?;
                st.push(Item::Q(hk::simplify(ctx, &a)));
            }
            "base" => {
                let a = popq(&mut st)?;
                st.push(Item::Q(a.to_base_unit_representation()));
            }
            "dup" => {
                let a = popq(&mut st)?;
                st.push(Item::Q(a.clone()));
                st.push(Item::Q(a));
            }
            "swap" => {
                let b = st.pop().ok_or("E:stack")?;
                let a = st.pop().ok_or("E:stack")?;
                st.push(b);
                st.push(a);
            }
            _ => return Err(format!("E:syntax {tok}")),
        }
    }
    st.last().map(show_item).ok_or("E:stack".to_string())
}

fn show_value(v: &Value) -> String {
    match v {
        Value::Quantity(q) => show_q(q),
        Value::Boolean(b) => format!("B:{}", *b as u8),
        Value::String(s) => format!("S:{}", s.replace('\n', "␤")),
        other => format!("O:{}", other.to_string().replace('\n', "␤")),
    }
}

fn err_kind(e: &NumbatError) -> String {
    match e {
        NumbatError::ResolverError(_) => "E:resolve".into(),
        NumbatError::NameResolutionError(_) => "E:name".into(),
        NumbatError::TypeCheckError(t) => {
            format!("E:type {}", t.to_string().replace(['\n', '\t'], " "))
        }
        NumbatError::RuntimeError(r) => match &r.kind {
            RuntimeErrorKind::DivisionByZero => "E:divzero".into(),
            RuntimeErrorKind::QuantityError(hk::QuantityError::IncompatibleUnits(..)) => {
                "E:incompat".into()
            }
            RuntimeErrorKind::QuantityError(hk::QuantityError::NonRationalExponent) => {
                "E:nonrational".into()
            }
            RuntimeErrorKind::AssertFailed(_) => "E:assert".into(),
            RuntimeErrorKind::AssertEq2Failed(_) => "E:assert_eq2".into(),
            RuntimeErrorKind::AssertEq3Failed(_) => "E:assert_eq3".into(),
            other => format!("E:runtime {}", other.to_string().replace('\n', " ")),
        },
    }
}

fn run_src(base: &Context, spec: &str) -> String {
    let (head, src) = spec.split_once(' ').unwrap_or((spec, ""));
    let want = head.strip_prefix("S@");
    let src = src.replace('␤', "\n");
    let mut ctx = base.clone();
    let prints: Arc<Mutex<Vec<String>>> = Arc::new(Mutex::new(Vec::new()));
    let p2 = prints.clone();
    let mut settings = InterpreterSettings {
        print_fn: Box::new(move |m| {
            p2.lock().unwrap().push(m.to_string().replace('\n', "␤"));
        }),
    };
    let res = ctx.interpret_with_settings(&mut settings, &src, CodeSource::Text);
    let mut out = match &res {
        Ok((_, InterpreterResult::Value(v))) => format!("V:{}", show_value(v)),
        Ok((_, InterpreterResult::Continue)) => "V:-".to_string(),
        Err(e) => err_kind(e),
    };
    drop(res);
    for p in prints.lock().unwrap().iter() {
        out.push_str("\tp:");
        out.push_str(p);
    }
    if let Some(name) = want {
        out.push_str("\tg:");
        match hk::raw_global(&ctx, name) {
            Some(v) => out.push_str(&show_value(&v)),
            None => out.push('-'),
        }
    }
    out
}

fn table(ctx: &Context) -> String {
    let mut rows = Vec::new();
    let mut reps: Vec<_> = ctx.unit_representations().collect();
    reps.sort_by(|a, b| a.0.cmp(&b.0));
    for (name, (_, md)) in reps {
        let Some(u) = hk::unit(ctx, &name) else {
            rows.push(format!("{name}|?"));
            continue;
        };
        let f = u.iter().next().unwrap();
        let mut embedded_ok = true;
        let kind = match f.unit_id.verif_kind() {
            UnitKind::Base => "B".to_string(),
            UnitKind::Derived(factor, def) => {
                for df in def.iter() {
                    // the identifier embedded in the definition is the unit currently registered
                    match hk::unit(ctx, &df.unit_id.name) {
                        Some(cur) if cur.iter().next().unwrap().unit_id == df.unit_id => {}
                        _ => embedded_ok = false,
                    }
                }
                format!("D:{:016x}:{}", factor.to_f64().to_bits(), show_unit(def))
            }
        };
        let aliases: Vec<String> = md
            .aliases
            .iter()
            .map(|(a, ap)| format!("{}:{}:{}", a, ap.short as u8, ap.long as u8))
            .collect();
        rows.push(format!(
            "{}|{}|{}|{}|{}|{}|{}|{}|{}",
            name,
            f.unit_id.canonical_name.name,
            f.unit_id.canonical_name.accepts_prefix.short as u8,
            md.metric_prefixes as u8,
            md.binary_prefixes as u8,
            md.is_abbreviation as u8,
            aliases.join(","),
            kind,
            embedded_ok as u8
        ));
    }
    rows.join(";")
}

pub fn main() {
    let mut ctx = Context::new(BuiltinModuleImporter::default());
    let _ = ctx
        .interpret("use prelude", CodeSource::Internal)
        .expect("prelude loads");
    let stdin = io::stdin();
    let stdout = io::stdout();
    let mut out = stdout.lock();
    for line in stdin.lock().lines() {
        let line = line.unwrap();
        let res = catch_unwind(AssertUnwindSafe(|| -> String {
            if line == "T" {
                table(&ctx)
            } else if let Some(r) = line.strip_prefix("R ") {
                match run_rpn(&ctx, r) {
                    Ok(s) | Err(s) => s,
                }
            } else if line.starts_with('S') {
                run_src(&ctx, &line)
            } else {
                "E:syntax".into()
            }
        }));
        let s = res.unwrap_or_else(|_| "P".to_string());
        writeln!(out, "{}", s.replace('\n', "␤")).unwrap();
    }
}
