//! C18: run operation histories on real NumbatList<u64> handles.
//! input line:  K;op,op,...    ops: n:i c:i:j d:i l:i i:i t:i h:i f:i:x b:i:x e:i:j
//! output line: out|repr|contents ; ...   (contents: per slot - or [a.b.c], via iter())
//!   out : u x n:<k> l:<a.b.c> o:<v|-> b:<0|1> E P
//!   repr: per slot  -  or  class/view/strong/alloclen   (class = first slot index sharing the allocation)
use numbat::list::NumbatList;
use std::io::{self, BufRead, Write};
use std::panic::{catch_unwind, AssertUnwindSafe};

type L = NumbatList<u64>;

fn repr(slots: &[Option<L>]) -> String {
    let reps: Vec<Option<(usize, Option<(usize, usize)>, usize, usize)>> =
        slots.iter().map(|s| s.as_ref().map(|l| l.verif_repr())).collect();
    let mut out = Vec::new();
    for (i, r) in reps.iter().enumerate() {
        match r {
            None => out.push("-".to_string()),
            Some((ptr, view, strong, alen)) => {
                let class = reps
                    .iter()
                    .position(|q| matches!(q, Some((p, _, _, _)) if p == ptr))
                    .unwrap_or(i);
                let v = match view {
                    None => "N".to_string(),
                    Some((s, e)) => format!("{s}-{e}"),
                };
                out.push(format!("{class}/{v}/{strong}/{alen}"));
            }
        }
    }
    out.join(" ")
}

fn run_case(line: &str) -> String {
    let (k, ops) = line.split_once(';').unwrap();
    let k: usize = k.parse().unwrap();
    let mut slots: Vec<Option<L>> = (0..k).map(|_| None).collect();
    let mut outs = Vec::new();
    for tok in ops.split(',').filter(|t| !t.is_empty()) {
        let p: Vec<&str> = tok.split(':').collect();
        let a = |n: usize| -> usize { p[n].parse().unwrap() };
        let o = catch_unwind(AssertUnwindSafe(|| -> String {
            match p[0] {
                "n" => {
                    if a(1) < k {
                        slots[a(1)] = Some(L::new());
                        "u".into()
                    } else {
                        "x".into()
                    }
                }
                "c" => match slots.get(a(1)).cloned().flatten() {
                    Some(l) if a(2) < k => {
                        slots[a(2)] = Some(l);
                        "u".into()
                    }
                    _ => "x".into(),
                },
                "d" => match slots.get_mut(a(1)).and_then(|s| s.take()) {
                    Some(_) => "u".into(),
                    None => "x".into(),
                },
                "l" => match slots.get(a(1)).and_then(|s| s.as_ref()) {
                    Some(l) => format!("n:{}", l.len()),
                    None => "x".into(),
                },
                "i" => match slots.get(a(1)).and_then(|s| s.as_ref()) {
                    Some(l) => format!(
                        "l:{}",
                        l.iter().map(|v| v.to_string()).collect::<Vec<_>>().join(".")
                    ),
                    None => "x".into(),
                },
                "t" => match slots.get_mut(a(1)).and_then(|s| s.as_mut()) {
                    Some(l) => match l.tail() {
                        Ok(()) => "u".into(),
                        Err(_) => "E".into(),
                    },
                    None => "x".into(),
                },
                "h" => match slots.get_mut(a(1)).and_then(|s| s.take()) {
                    Some(l) => match l.head() {
                        Some(v) => format!("o:{v}"),
                        None => "o:-".into(),
                    },
                    None => "x".into(),
                },
                "f" => match slots.get_mut(a(1)).and_then(|s| s.as_mut()) {
                    Some(l) => {
                        l.push_front(a(2) as u64);
                        "u".into()
                    }
                    None => "x".into(),
                },
                "b" => match slots.get_mut(a(1)).and_then(|s| s.as_mut()) {
                    Some(l) => {
                        l.push_back(a(2) as u64);
                        "u".into()
                    }
                    None => "x".into(),
                },
                "e" => {
                    match (
                        slots.get(a(1)).and_then(|s| s.as_ref()),
                        slots.get(a(2)).and_then(|s| s.as_ref()),
                    ) {
                        (Some(x), Some(y)) => format!("b:{}", (x == y) as u8),
                        _ => "x".into(),
                    }
                }
                _ => "?".into(),
            }
        }));
        let o = o.unwrap_or_else(|_| "P".into());
        let contents = catch_unwind(AssertUnwindSafe(|| {
            slots
                .iter()
                .map(|s| match s {
                    None => "-".to_string(),
                    Some(l) => format!(
                        "[{}]",
                        l.iter().map(|v| v.to_string()).collect::<Vec<_>>().join(".")
                    ),
                })
                .collect::<Vec<_>>()
                .join(" ")
        }))
        .unwrap_or_else(|_| "P".into());
        outs.push(format!("{}|{}|{}", o, repr(&slots), contents));
        if o == "P" {
            break;
        }
    }
    outs.join(";")
}

pub fn main() {
    let stdin = io::stdin();
    let stdout = io::stdout();
    let mut w = io::BufWriter::new(stdout.lock());
    for line in stdin.lock().lines() {
        let line = line.unwrap();
        if line.trim().is_empty() {
            continue;
        }
        writeln!(w, "{}", run_case(line.trim())).unwrap();
    }
}
