//! small shared helpers: hex coding for the line protocol
pub fn hex(bytes: &[u8]) -> String {
    let mut s = String::with_capacity(bytes.len() * 2);
    for b in bytes {
        s.push_str(&format!("{b:02x}"));
    }
    s
}

pub fn unhex(s: &str) -> Vec<u8> {
    (0..s.len() / 2)
        .map(|i| u8::from_str_radix(&s[2 * i..2 * i + 2], 16).unwrap_or(b'?'))
        .collect()
}

pub fn unhex_str(s: &str) -> String {
    String::from_utf8_lossy(&unhex(s)).into_owned()
}

pub fn for_each_line(mut f: impl FnMut(&str) -> String) {
    use std::io::{self, BufRead, Write};
    let stdin = io::stdin();
    let stdout = io::stdout();
    let mut w = io::BufWriter::new(stdout.lock());
    for line in stdin.lock().lines() {
        let line = line.unwrap();
        if line.trim().is_empty() {
            continue;
        }
        writeln!(w, "{}", f(line.trim_end_matches(['\r', '\n']))).unwrap();
    }
}
