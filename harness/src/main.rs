//! nbverif: pure executor. Reads cases on stdin, writes one observation line per case.
mod crash;
mod dim;
mod echo;
mod examples;
mod eval;
mod fmt;
mod html;
mod list;
mod prefix;
mod qty;
mod session;
mod syntax;
mod util;
mod vm;

fn main() {
    let args: Vec<String> = std::env::args().collect();
    if args.len() < 2 {
        eprintln!("usage: nbverif <subcommand>");
        std::process::exit(2);
    }
    // keep panic messages out of stderr noise; harness functions use catch_unwind
    std::panic::set_hook(Box::new(|_| {}));
    match args[1].as_str() {
        "crash" => crash::main(),
        "dim" => dim::main(),
        "examples" => examples::main(),
        "dim-env" => dim::main_env(),
        "dim-run" => dim::main_run(),
        "echo" => echo::main(),
        "eval" => eval::main(),
        "fmt" => fmt::main(),
        "html" => html::main(),
        "list" => list::main(),
        "prefix" => prefix::main(),
        "qty" => qty::main(),
        "session" => session::main(),
        "syntax" => syntax::main(),
        "vm" => vm::main(),
        other => {
            eprintln!("unknown subcommand {other}");
            std::process::exit(2);
        }
    }
}
