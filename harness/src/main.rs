//! nbverif: pure executor. Reads cases on stdin, writes one observation line per case.
mod crash;
mod eval;
mod fmt;
mod list;

fn main() {
    let args: Vec<String> = std::env::args().collect();
    if args.len() < 2 {
        eprintln!("usage: nbverif <subcommand>");
        std::process::exit(2);
    }
    // keep panic messages out of stderr noise; harness functions use catch_unwind
    std::panic::set_hook(Box::new(|_| {}));
    match args[1].as_str() {
        "list" => list::main(),
        "fmt" => fmt::main(),
        "eval" => eval::main(),
        "crash" => crash::main(),
        other => {
            eprintln!("unknown subcommand {other}");
            std::process::exit(2);
        }
    }
}
