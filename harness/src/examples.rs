//! C24: run every `@example("…")` snippet attached to a standard-library function on the real
//! implementation, the way numbat/examples/inspect.rs (the documentation generator) does: a
//! session with `use prelude` (+ `use units::currencies` with the test exchange rates), plus
//! `use <module>` when the function's module is not part of the prelude.
//!
//! `nbverif examples`: no input. One line per snippet:
//!   <module>\t<function>\t<index>\t<code, escaped>\t<ok|err:<stage>:<kind>>\t<value text or message, escaped>
//! and one line per standard-library function with its source module:  `#fn <module> <name>`.
use numbat::module_importer::BuiltinModuleImporter;
use numbat::resolver::CodeSource;
use numbat::{Context, InterpreterResult, InterpreterSettings, NumbatError};
use std::panic::{catch_unwind, AssertUnwindSafe};

fn esc(s: &str) -> String {
    s.replace('\\', "\\\\")
        .replace('\n', "\\n")
        .replace('\t', "\\t")
}

fn variant(dbg: &str) -> String {
    dbg.chars()
        .take_while(|c| c.is_ascii_alphanumeric() || *c == '_')
        .collect()
}

pub fn main() {
    Context::use_test_exchange_rates();
    let mut all = Context::new(BuiltinModuleImporter::default());
    all.load_currency_module_on_demand(false);
    all.interpret("use all", CodeSource::Internal)
        .expect("`use all` loads");

    let mut base = Context::new(BuiltinModuleImporter::default());
    base.load_currency_module_on_demand(false);
    base.interpret("use prelude\nuse units::currencies", CodeSource::Internal)
        .expect("prelude and currencies load");

    let mut fns: Vec<_> = all.functions().collect();
    fns.sort_by(|a, b| a.fn_name.cmp(&b.fn_name));
    for info in fns {
        let CodeSource::Module(module_path, _) = &info.code_source else {
            continue;
        };
        let module = module_path.to_string();
        println!("#fn {module} {}", info.fn_name);
        for (idx, (code, _desc)) in info.examples.iter().enumerate() {
            let mut ctx = base.clone();
            let r = catch_unwind(AssertUnwindSafe(|| {
                if !ctx.resolver().imported_modules.contains(module_path) {
                    if let Err(e) = ctx.interpret(&format!("use {module}"), CodeSource::Internal) {
                        return ("err:import:Import".to_string(), format!("{e}"));
                    }
                }
                let mut settings = InterpreterSettings {
                    print_fn: Box::new(|_| {}),
                };
                match ctx.interpret_with_settings(&mut settings, code, CodeSource::Text) {
                    Ok((_, InterpreterResult::Value(v))) => ("ok".to_string(), format!("{v}")),
                    Ok((_, InterpreterResult::Continue)) => ("ok".to_string(), "-".to_string()),
                    Err(e) => match *e {
                        NumbatError::TypeCheckError(t) => (
                            format!("err:typecheck:{}", variant(&format!("{t:?}"))),
                            format!("{t}"),
                        ),
                        NumbatError::RuntimeError(r) => (
                            format!("err:runtime:{}", variant(&format!("{:?}", r.kind))),
                            format!("{r}"),
                        ),
                        NumbatError::ResolverError(e) => {
                            ("err:parse:Resolver".to_string(), format!("{e}"))
                        }
                        NumbatError::NameResolutionError(e) => {
                            ("err:names:NameResolution".to_string(), format!("{e}"))
                        }
                    },
                }
            }));
            let (status, text) =
                r.unwrap_or_else(|_| ("err:panic:PANIC".to_string(), String::new()));
            println!(
                "{module}\t{}\t{idx}\t{}\t{status}\t{}",
                info.fn_name,
                esc(code),
                esc(&text)
            );
        }
    }
}
