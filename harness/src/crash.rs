//! C08: run arbitrary text through Context::interpret_with_settings and, on an error, render its
//! diagnostic the way the CLI does (codespan-reporting), everything under catch_unwind + a watchdog.
//! input line:  <mode>;<hex of the UTF-8 source>     mode 0 = session with `use prelude` (a clone of it),
//!                                                   mode 1 = fresh Context without the prelude,
//!                                                   mode 2 = persistent session (definitions accumulate)
//!              3;<hex>,<hex>,...                    a SEQUENCE of inputs run one after the other on one clone of
//!                                                   the prelude session (failing inputs included): the outcome is
//!                                                   S:<o1>,<o2>,... or the first panic `P:…(step k)` / `DP:…(step k)`
//! output line: V|<ms>  N|<ms>  E:<resolver|name|type|runtime>|<ms>
//!              P:<file>:<line>: <message>|<ms>      (panic inside interpret)
//!              DP:<file>:<line>: <message>|<ms>     (panic while rendering the diagnostic)
//!              H|<ms>   then exit status 3         (watchdog: the case ran longer than NV_CASE_TIMEOUT_MS)
//! A stack overflow or abort kills the process; the driver finds the culprit (first case without output).
use numbat::diagnostic::{ErrorDiagnostic, ResolverDiagnostic};
use numbat::module_importer::BuiltinModuleImporter;
use numbat::resolver::CodeSource;
use numbat::{Context, InterpreterResult, InterpreterSettings, NumbatError};
use std::io::{self, BufRead, Write};
use std::panic::{catch_unwind, AssertUnwindSafe};
use std::sync::atomic::{AtomicU64, Ordering};
use std::sync::Mutex;
use std::time::Instant;

static LAST_PANIC: Mutex<String> = Mutex::new(String::new());
static CASE_START_MS: AtomicU64 = AtomicU64::new(u64::MAX);

fn unhex(s: &str) -> Option<String> {
    let bytes: Option<Vec<u8>> = (0..s.len() / 2)
        .map(|i| u8::from_str_radix(&s[2 * i..2 * i + 2], 16).ok())
        .collect();
    String::from_utf8(bytes?).ok()
}

fn render(ctx: &Context, err: &NumbatError) -> usize {
    use codespan_reporting::term::{self, Config};
    let diags = match err {
        NumbatError::ResolverError(e) => e.diagnostics(),
        NumbatError::NameResolutionError(e) => e.diagnostics(),
        NumbatError::TypeCheckError(e) => e.diagnostics(),
        NumbatError::RuntimeError(e) => ResolverDiagnostic {
            resolver: ctx.resolver(),
            error: e,
        }
        .diagnostics(),
    };
    let mut buf = termcolor::NoColor::new(Vec::<u8>::new());
    let config = Config::default();
    for d in diags {
        term::emit(&mut buf, &config, &ctx.resolver().files, &d).unwrap();
    }
    buf.into_inner().len()
}

fn take_panic() -> String {
    let mut g = LAST_PANIC.lock().unwrap_or_else(|e| e.into_inner());
    let s = g.clone();
    g.clear();
    s.replace('\n', " ").replace('|', "/")
}

fn run_case(ctx: &mut Context, src: &str) -> String {
    let mut settings = InterpreterSettings {
        print_fn: Box::new(|_| {}),
    };
    let r = catch_unwind(AssertUnwindSafe(|| {
        ctx.interpret_with_settings(&mut settings, src, CodeSource::Text)
            .map(|(_, r)| matches!(r, InterpreterResult::Value(_)))
            .map_err(|e| *e)
    }));
    match r {
        Err(_) => format!("P:{}", take_panic()),
        Ok(Ok(true)) => "V".to_string(),
        Ok(Ok(false)) => "N".to_string(),
        Ok(Err(e)) => {
            let kind = match &e {
                NumbatError::ResolverError(_) => "resolver",
                NumbatError::NameResolutionError(_) => "name",
                NumbatError::TypeCheckError(_) => "type",
                NumbatError::RuntimeError(_) => "runtime",
            };
            match catch_unwind(AssertUnwindSafe(|| render(ctx, &e))) {
                Ok(_) => format!("E:{kind}"),
                Err(_) => format!("DP:{}", take_panic()),
            }
        }
    }
}

pub fn main() {
    std::panic::set_hook(Box::new(|info| {
        let loc = info
            .location()
            .map(|l| format!("{}:{}", l.file(), l.line()))
            .unwrap_or_else(|| "?".into());
        let msg = if let Some(s) = info.payload().downcast_ref::<&str>() {
            s.to_string()
        } else if let Some(s) = info.payload().downcast_ref::<String>() {
            s.clone()
        } else {
            "?".to_string()
        };
        *LAST_PANIC.lock().unwrap_or_else(|e| e.into_inner()) = format!("{loc}: {msg}");
    }));
    let limit_ms: u64 = std::env::var("NV_CASE_TIMEOUT_MS")
        .ok()
        .and_then(|s| s.parse().ok())
        .unwrap_or(10000);
    let t0 = Instant::now();
    std::thread::spawn(move || loop {
        std::thread::sleep(std::time::Duration::from_millis(100));
        let start = CASE_START_MS.load(Ordering::SeqCst);
        let now = t0.elapsed().as_millis() as u64;
        if start != u64::MAX && now > start + limit_ms {
            println!("H|{}", now - start);
            let _ = io::stdout().flush();
            std::process::exit(3);
        }
    });

    let mut base = Context::new(BuiltinModuleImporter::default());
    let _ = base.interpret("use prelude", CodeSource::Internal);
    let bare = Context::new(BuiltinModuleImporter::default());
    let mut session = base.clone();
    let stdin = io::stdin();
    for line in stdin.lock().lines() {
        let line = line.unwrap();
        let Some((mode, hex)) = line.trim().split_once(';') else {
            continue;
        };
        if mode == "3" {
            let start = t0.elapsed().as_millis() as u64;
            CASE_START_MS.store(start, Ordering::SeqCst);
            let mut ctx = base.clone();
            let mut outs: Vec<String> = vec![];
            let mut failure: Option<String> = None;
            for (k, h) in hex.split(',').enumerate() {
                let Some(src) = unhex(h) else { continue };
                let o = run_case(&mut ctx, &src);
                if o.starts_with("P:") || o.starts_with("DP:") {
                    failure = Some(format!("{o} (step {k})"));
                    break;
                }
                outs.push(o);
            }
            CASE_START_MS.store(u64::MAX, Ordering::SeqCst);
            let out = failure.unwrap_or_else(|| format!("S:{}", outs.join(",")));
            println!("{out}|{}", t0.elapsed().as_millis() as u64 - start);
            let _ = io::stdout().flush();
            continue;
        }
        let Some(src) = unhex(hex) else {
            println!("X|0");
            continue;
        };
        let start = t0.elapsed().as_millis() as u64;
        CASE_START_MS.store(start, Ordering::SeqCst);
        let out = match mode {
            "1" => {
                let mut ctx = bare.clone();
                run_case(&mut ctx, &src)
            }
            "2" => run_case(&mut session, &src),
            "3" => unreachable!(),
            _ => {
                let mut ctx = base.clone();
                run_case(&mut ctx, &src)
            }
        };
        CASE_START_MS.store(u64::MAX, Ordering::SeqCst);
        println!("{out}|{}", t0.elapsed().as_millis() as u64 - start);
        let _ = io::stdout().flush();
    }
}
