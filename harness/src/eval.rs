//! C23 / C19: evaluate Numbat source through Context::interpret in a session that has
//! `use prelude`, `use units::mixed`, `use math::trigonometry_extra`, `use datetime::julian_date` loaded.
//! input line:  Numbat source; the character U+23CE (⏎) stands for a newline.
//!              A leading "!" makes the line persistent (definitions stay in the session);
//!              otherwise the line is run in a clone of the base session.
//! output line: Q:<f64 bits hex>:<unit>   B:<true|false>   S:<string>   D:<unix nanoseconds>:<zone>
//!              L:[<item>,<item>,...]   O:<other>   N (no value)
//!              E:<resolver|name|type|runtime>:<message>   P:<panic message>
use crate::fmt::panic_message;
use numbat::module_importer::BuiltinModuleImporter;
use numbat::resolver::CodeSource;
use numbat::value::Value;
use numbat::{Context, InterpreterResult, NumbatError};
use std::io::{self, BufRead, Write};
use std::panic::{catch_unwind, AssertUnwindSafe};

pub fn show_value(v: &Value) -> String {
    match v {
        Value::Quantity(_) => {
            let (bits, unit) = numbat::verif::misc::quantity_bits(v).unwrap();
            format!("Q:{bits:016x}:{unit}")
        }
        Value::Boolean(b) => format!("B:{b}"),
        Value::String(s) => format!("S:{}", s.replace('\n', "\\n")),
        Value::DateTime(dt) => format!(
            "D:{}:{}",
            dt.timestamp().as_nanosecond(),
            dt.time_zone().iana_name().unwrap_or("?")
        ),
        Value::List(l) => format!(
            "L:[{}]",
            l.iter().map(|x| show_value(x)).collect::<Vec<_>>().join(",")
        ),
        _ => "O:other".to_string(),
    }
}

pub fn clean(s: &str) -> String {
    s.replace('\n', " ").replace('|', "/")
}

pub fn run_source(ctx: &mut Context, src: &str) -> String {
    let r = catch_unwind(AssertUnwindSafe(|| {
        match ctx.interpret(src, CodeSource::Internal) {
            Ok((_, InterpreterResult::Value(v))) => show_value(&v),
            Ok((_, InterpreterResult::Continue)) => "N".to_string(),
            Err(e) => {
                let kind = match &*e {
                    NumbatError::ResolverError(_) => "resolver",
                    NumbatError::NameResolutionError(_) => "name",
                    NumbatError::TypeCheckError(_) => "type",
                    NumbatError::RuntimeError(_) => "runtime",
                };
                format!("E:{kind}:{}", clean(&format!("{e}")))
            }
        }
    }));
    r.unwrap_or_else(|e| format!("P:{}", clean(&panic_message(&e))))
}

pub fn base_context() -> Context {
    let mut ctx = Context::new(BuiltinModuleImporter::default());
    let _ = ctx.interpret(
        "use prelude\nuse units::mixed\nuse math::trigonometry_extra\nuse datetime::julian_date",
        CodeSource::Internal,
    );
    ctx
}

pub fn main() {
    // `nbverif eval --tz <IANA name>`: the local time zone of the session (jiff reads TZ); UTC by default so
    // that results do not depend on the machine the check runs on
    let args: Vec<String> = std::env::args().collect();
    let tz = args
        .iter()
        .position(|a| a == "--tz")
        .and_then(|i| args.get(i + 1).cloned())
        .unwrap_or_else(|| "UTC".to_string());
    // SAFETY: single-threaded at this point
    unsafe { std::env::set_var("TZ", &tz) };
    let mut base = base_context();
    let stdin = io::stdin();
    let stdout = io::stdout();
    let mut w = io::BufWriter::new(stdout.lock());
    for line in stdin.lock().lines() {
        let line = line.unwrap();
        if line.trim().is_empty() {
            continue;
        }
        if line.trim() == "@datetime-limits" {
            // `@datetime-limits`: the range constants of the date-time library (hook datetime_limits)
            let (lo, hi, hi_ns, span) = numbat::verif::misc::datetime_limits();
            writeln!(w, "LIMITS:{lo}:{hi}:{hi_ns}:{span}").unwrap();
            continue;
        }
        let src = line.replace('\u{23ce}', "\n");
        let out = if let Some(rest) = src.strip_prefix('!') {
            run_source(&mut base, rest)
        } else {
            let mut ctx = base.clone();
            run_source(&mut ctx, &src)
        };
        writeln!(w, "{out}").unwrap();
    }
}
