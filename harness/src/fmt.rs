//! C14: number display and read-back.
//! input line:  <bits hex>;<threshold>;<sig>;<separator as hex of its UTF-8 bytes>
//! output line: F:<displayed>|V:<bits hex of the value the real parser/evaluator reads back
//!              from the displayed text with the separator removed | E:<error kind>>
//!              P:<panic message>   if formatting panicked
//!   followed by |Q:<a>;<b>;<c> — the same f64 displayed the way results are displayed (InterpreterResult::to_markup
//!   with the same FormatOptions, plain text): <a> as a scalar, <b> as `x m`, <c> as `x km/h`
use numbat::module_importer::BuiltinModuleImporter;
use numbat::resolver::CodeSource;
use numbat::{Context, FormatOptions, InterpreterResult};
use std::io::{self, BufRead, Write};
use std::panic::{catch_unwind, AssertUnwindSafe};

fn unhex(s: &str) -> String {
    let bytes: Vec<u8> = (0..s.len() / 2)
        .map(|i| u8::from_str_radix(&s[2 * i..2 * i + 2], 16).unwrap())
        .collect();
    String::from_utf8(bytes).unwrap()
}

pub fn panic_message(e: &Box<dyn std::any::Any + Send>) -> String {
    let m = if let Some(s) = e.downcast_ref::<&str>() {
        s.to_string()
    } else if let Some(s) = e.downcast_ref::<String>() {
        s.clone()
    } else {
        "?".to_string()
    };
    m.replace('\n', " ").replace('|', "/")
}

pub fn read_back(ctx: &mut Context, text: &str) -> String {
    let r = catch_unwind(AssertUnwindSafe(|| {
        match ctx.interpret(text, CodeSource::Internal) {
            Ok((_, InterpreterResult::Value(v))) => match numbat::verif::misc::quantity_bits(&v) {
                Some((bits, unit)) if unit.is_empty() => format!("V:{bits:016x}"),
                Some((_, unit)) => format!("E:unit {unit}"),
                None => "E:notquantity".to_string(),
            },
            Ok(_) => "E:novalue".to_string(),
            Err(e) => {
                let s = format!("{e}");
                format!("E:{}", s.replace('\n', " ").replace('|', "/"))
            }
        }
    }));
    r.unwrap_or_else(|e| format!("E:panic {}", panic_message(&e)))
}

/// the f64 as Numbat source that evaluates to exactly that value
fn literal(x: f64) -> String {
    if x.is_nan() {
        "NaN".into()
    } else if x.is_infinite() {
        if x > 0.0 { "inf".into() } else { "(-inf)".into() }
    } else if x < 0.0 || (x == 0.0 && x.is_sign_negative()) {
        format!("(-{:e})", -x)
    } else {
        format!("{:e}", x)
    }
}

fn display_result(ctx: &mut Context, src: &str, options: &FormatOptions) -> String {
    let r = catch_unwind(AssertUnwindSafe(|| {
        let c = &mut *ctx;
        match c.interpret(src, CodeSource::Internal) {
            Ok((statements, result)) => {
                let m = result.to_markup(statements.last(), c.dimension_registry(), false, false, options);
                numbat::markup::plain_text_format(&m, false).trim().replace('\n', " ")
            }
            Err(e) => format!("@error {e}").replace('\n', " "),
        }
    }));
    r.unwrap_or_else(|e| format!("@panic {}", panic_message(&e))).replace(';', ",").replace('|', "/")
}

pub fn main() {
    let mut ctx = Context::new(BuiltinModuleImporter::default());
    let _ = ctx.interpret("use prelude", CodeSource::Internal);
    
    let stdin = io::stdin();
    let stdout = io::stdout();
    let mut w = io::BufWriter::new(stdout.lock());
    for line in stdin.lock().lines() {
        let line = line.unwrap();
        let line = line.trim();
        if line.is_empty() {
            continue;
        }
        let p: Vec<&str> = line.split(';').collect();
        let bits = u64::from_str_radix(p[0], 16).unwrap();
        let thr: usize = p[1].parse().unwrap();
        let sig: usize = p[2].parse().unwrap();
        let sep = unhex(p.get(3).copied().unwrap_or(""));
        let f = catch_unwind(AssertUnwindSafe(|| {
            numbat::verif::misc::format_number(bits, &sep, thr, sig)
        }));
        match f {
            Err(e) => writeln!(w, "P:{}", panic_message(&e)).unwrap(),
            Ok(text) => {
                let stripped = if sep.is_empty() {
                    text.clone()
                } else {
                    text.replace(&sep, "")
                };
                let rb = read_back(&mut ctx, &stripped);
                let options = FormatOptions {
                    digit_separator: sep.clone(),
                    digit_grouping_threshold: thr,
                    significant_digits: sig,
                    ..FormatOptions::default()
                };
                let lit = literal(f64::from_bits(bits));
                let q = [
                    display_result(&mut ctx, &lit, &options),
                    display_result(&mut ctx, &format!("{lit} m"), &options),
                    display_result(&mut ctx, &format!("{lit} km/h"), &options),
                ]
                .join(";");
                writeln!(w, "F:{text}|{rb}|Q:{q}").unwrap();
            }
        }
    }
}
