//! C13: prefix parser tables and identifier resolution.
//! input lines (strings hex-encoded):
//!   T                 -> prefix table rows `long:short,short:M|B:exp:render_short:render_long:factorbits` joined by ';'
//!   N                 -> rendering of Prefix::none(): `short:long`
//!   U                 -> `units | others | registry` of a session after `use prelude`
//!                        units:    name:as:al:m:b:full ; ...        (prefix parser, insertion order)
//!                        others:   name , ...
//!                        registry: unit:canonical:cshort:clong:metric:binary:alias=as=al,alias=as=al ; ...
//!   R <hex ident>     -> `-` or `M|B:exp:name:full`
//!   D <hex source>    -> `ok <hex of printed value>` | `err`
use crate::util::{hex, unhex_str};
use numbat::module_importer::BuiltinModuleImporter;
use numbat::resolver::CodeSource;
use numbat::verif::prefix as vp;
use numbat::{Context, InterpreterResult};
use std::panic::{catch_unwind, AssertUnwindSafe};

fn h(s: &str) -> String {
    hex(s.as_bytes())
}
fn b(x: bool) -> &'static str {
    if x { "1" } else { "0" }
}

fn table() -> String {
    vp::prefix_table()
        .iter()
        .map(|(long, shorts, is_metric, exp)| {
            let (rs, rl) = vp::prefix_rendering(*is_metric, *exp);
            format!(
                "{}:{}:{}:{}:{}:{}:{}",
                h(long),
                shorts.iter().map(|s| h(s)).collect::<Vec<_>>().join(","),
                if *is_metric { "M" } else { "B" },
                exp,
                h(&rs),
                h(&rl),
                vp::prefix_factor_bits(*is_metric, *exp)
            )
        })
        .collect::<Vec<_>>()
        .join(";")
}

fn dump(ctx: &Context) -> String {
    let units = vp::units(ctx)
        .iter()
        .map(|(n, s, l, m, bi, f)| format!("{}:{}:{}:{}:{}:{}", h(n), b(*s), b(*l), b(*m), b(*bi), h(f)))
        .collect::<Vec<_>>()
        .join(";");
    let others = vp::other_identifiers(ctx).iter().map(|s| h(s)).collect::<Vec<_>>().join(",");
    let mut reg: Vec<String> = ctx
        .unit_representations()
        .map(|(name, (_, meta))| {
            format!(
                "{}:{}:{}:{}:{}:{}:{}",
                h(&name),
                h(&meta.canonical_name.name),
                b(meta.canonical_name.accepts_prefix.short),
                b(meta.canonical_name.accepts_prefix.long),
                b(meta.metric_prefixes),
                b(meta.binary_prefixes),
                meta.aliases
                    .iter()
                    .map(|(a, ap)| format!("{}={}={}", h(a), b(ap.short), b(ap.long)))
                    .collect::<Vec<_>>()
                    .join(",")
            )
        })
        .collect();
    reg.sort();
    format!("{}|{}|{}", units, others, reg.join(";"))
}

pub fn main() {
    let mut base: Option<Context> = None;
    crate::util::for_each_line(|line| {
        let (mode, arg) = line.split_once(' ').unwrap_or((line, ""));
        if mode == "T" {
            return table();
        }
        if mode == "N" {
            let (rs, rl) = vp::prefix_rendering(true, 0);
            return format!("{}:{}", h(&rs), h(&rl));
        }
        let ctx = base.get_or_insert_with(|| {
            let mut ctx = Context::new(BuiltinModuleImporter::default());
            let _ = ctx.interpret("use prelude", CodeSource::Internal).unwrap();
            ctx
        });
        match mode {
            "U" => dump(ctx),
            "R" => match vp::resolve(ctx, &unhex_str(arg)) {
                None => "-".into(),
                Some((m, e, name, full)) => {
                    format!("{}:{}:{}:{}", if m { "M" } else { "B" }, e, h(&name), h(&full))
                }
            },
            "D" => {
                let src = unhex_str(arg);
                let mut c = ctx.clone();
                let r = catch_unwind(AssertUnwindSafe(|| match c.interpret(&src, CodeSource::Text) {
                    Ok((_, InterpreterResult::Value(v))) => {
                        format!("ok {}", h(&v.pretty_print().to_string()))
                    }
                    Ok(_) => "ok -".to_string(),
                    Err(_) => "err".to_string(),
                }));
                r.unwrap_or_else(|_| "panic".into())
            }
            _ => "?".into(),
        }
    });
}
