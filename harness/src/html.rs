//! C20: HTML rendering.
//! input lines:
//!   F <0|1> <idx:hex,idx:hex,...>     HtmlFormatter.format(markup, indent)     -> hex(output)
//!   I <hex setup source>|<hex keyword> interpret the setup, then `info <keyword>` rendered like numbat-wasm's
//!                                     print_info (HtmlFormatter.format(markup, true))   -> <ok|setup-error> <hex(output)>
//!   W <op,op,...>                     HtmlWriter ops: r | c:<fg 0..3>:<bold 0|1> | w:<hex>  -> hex(buffer)
//!   E <hex source>                    interpret like numbat-wasm with FormatType::Html
//!                                     -> <ok|resolver|nameres|typecheck|runtime|panic> <hex(output)> <hex(same markup with indent=true)>
use crate::util::{hex, unhex, unhex_str};
use codespan_reporting::term::{self, Config};
use numbat::buffered_writer::BufferedWriter;
use numbat::diagnostic::{ErrorDiagnostic, ResolverDiagnostic};
use numbat::html_formatter::{HtmlFormatter, HtmlWriter};
use numbat::markup::{FormatType, FormattedString, Formatter, Markup, OutputType};
use numbat::module_importer::BuiltinModuleImporter;
use numbat::pretty_print::PrettyPrint;
use numbat::resolver::CodeSource;
use numbat::{Context, InterpreterSettings, NumbatError};
use std::io::Write;
use std::panic::{catch_unwind, AssertUnwindSafe};
use std::sync::{Arc, Mutex};
use termcolor::{Color, ColorSpec, WriteColor};

fn ftype(i: usize) -> FormatType {
    match i {
        0 => FormatType::Whitespace,
        1 => FormatType::Emphasized,
        2 => FormatType::Dimmed,
        3 => FormatType::Text,
        4 => FormatType::String,
        5 => FormatType::Keyword,
        6 => FormatType::Value,
        7 => FormatType::Unit,
        8 => FormatType::Identifier,
        9 => FormatType::TypeIdentifier,
        10 => FormatType::Operator,
        _ => FormatType::Decorator,
    }
}

fn run_f(arg: &str) -> String {
    let (indent, arg) = arg.split_once(' ').unwrap_or((arg, ""));
    let indent = indent == "1";
    let mut parts = vec![];
    for p in arg.split(',').filter(|p| !p.is_empty()) {
        let (i, h) = p.split_once(':').unwrap();
        let text = unhex_str(h);
        parts.push(FormattedString(
            OutputType::Normal,
            ftype(i.parse().unwrap()),
            numbat::compact_str::CompactString::from(text).into(),
        ));
    }
    let out = HtmlFormatter {}.format(&Markup(parts), indent);
    hex(out.as_bytes())
}

fn run_w(arg: &str) -> String {
    let mut w = HtmlWriter::new();
    for op in arg.split(',').filter(|p| !p.is_empty()) {
        let p: Vec<&str> = op.split(':').collect();
        match p[0] {
            "r" => w.reset().unwrap(),
            "c" => {
                let mut spec = ColorSpec::new();
                match p[1] {
                    "1" => {
                        spec.set_fg(Some(Color::Red));
                    }
                    "2" => {
                        spec.set_fg(Some(Color::Blue));
                    }
                    "3" => {
                        spec.set_fg(Some(Color::Green));
                    }
                    _ => {}
                }
                spec.set_bold(p[2] == "1");
                w.set_color(&spec).unwrap();
            }
            _ => {
                // `write` itself (write_all would skip empty buffers); it consumes everything
                let buf = unhex(p.get(1).copied().unwrap_or(""));
                let n = w.write(&buf).unwrap();
                assert_eq!(n, buf.len());
            }
        }
    }
    hex(w.to_string().as_bytes())
}

fn emit(ctx: &Context, error: &dyn ErrorDiagnostic) -> String {
    let mut writer = HtmlWriter::new();
    let config = Config::default();
    let resolver = ctx.resolver();
    for diagnostic in error.diagnostics() {
        term::emit(&mut writer, &config, &resolver.files, &diagnostic).unwrap();
    }
    writer.to_string()
}

/// the same steps as numbat-wasm's `Numbat::interpret` with FormatType::Html and pretty printing on
fn run_e(base: &Context, arg: &str) -> String {
    let code = unhex_str(arg);
    let mut ctx = base.clone();
    let r = catch_unwind(AssertUnwindSafe(|| {
        let fmt = HtmlFormatter {};
        let mut output = String::new();
        let mut output_ind = String::new();
        let to_be_printed: Arc<Mutex<Vec<Markup>>> = Arc::new(Mutex::new(vec![]));
        let to_be_printed_c = to_be_printed.clone();
        let mut settings = InterpreterSettings {
            print_fn: Box::new(move |s: &Markup| {
                to_be_printed_c.lock().unwrap().push(s.clone());
            }),
        };
        let nl = fmt.format(&numbat::markup::nl(), false).to_string();
        match ctx
            .interpret_with_settings(&mut settings, &code, CodeSource::Text)
            .map_err(|b| *b)
        {
            Ok((statements, result)) => {
                output.push_str(&nl);
                for statement in &statements {
                    output.push_str(&fmt.format(&statement.pretty_print(), false));
                    output_ind.push_str(&fmt.format(&statement.pretty_print(), true));
                    output.push_str(&nl);
                }
                output.push_str(&nl);
                for content in to_be_printed.lock().unwrap().iter() {
                    output.push_str(&fmt.format(content, false));
                    output_ind.push_str(&fmt.format(content, true));
                    output.push_str(&nl);
                }
                let result_markup = result.to_markup(
                    statements.last(),
                    &ctx.dimension_registry().clone(),
                    true,
                    true,
                    &numbat::FormatOptions::default(),
                );
                output.push_str(&fmt.format(&result_markup, false));
                output_ind.push_str(&fmt.format(&result_markup, true));
                ("ok", output, output_ind)
            }
            Err(NumbatError::ResolverError(e)) => ("resolver", emit(&ctx, &e), String::new()),
            Err(NumbatError::NameResolutionError(e)) => ("nameres", emit(&ctx, &e), String::new()),
            Err(NumbatError::TypeCheckError(e)) => ("typecheck", emit(&ctx, &e), String::new()),
            Err(NumbatError::RuntimeError(e)) => (
                "runtime",
                emit(
                    &ctx,
                    &ResolverDiagnostic {
                        resolver: ctx.resolver(),
                        error: &e,
                    },
                ),
                String::new(),
            ),
        }
    }));
    match r {
        Ok((kind, out, ind)) => format!("{kind} {} {}", hex(out.as_bytes()), hex(ind.as_bytes())),
        Err(_) => "panic - -".to_string(),
    }
}

/// `info <keyword>` after a setup input, rendered as numbat-wasm's print_info does
fn run_i(base: &Context, arg: &str) -> String {
    let (setup, kw) = arg.split_once('|').unwrap_or((arg, ""));
    let (setup, kw) = (unhex_str(setup), unhex_str(kw));
    let mut ctx = base.clone();
    let r = catch_unwind(AssertUnwindSafe(|| {
        let mut settings = InterpreterSettings {
            print_fn: Box::new(move |_: &Markup| {}),
        };
        let ok = ctx
            .interpret_with_settings(&mut settings, &setup, CodeSource::Text)
            .is_ok();
        let markup = ctx.print_info_for_keyword(&kw);
        let out = HtmlFormatter {}.format(&markup, true).to_string();
        (if ok { "ok" } else { "setup-error" }, out)
    }));
    match r {
        Ok((kind, out)) => format!("{kind} {}", hex(out.as_bytes())),
        Err(_) => "panic -".to_string(),
    }
}

pub fn main() {
    let mut base: Option<Context> = None;
    crate::util::for_each_line(|line| {
        let (mode, arg) = line.split_once(' ').unwrap_or((line, ""));
        match mode {
            "F" => run_f(arg),
            "W" => run_w(arg),
            "E" | "I" => {
                let ctx = base.get_or_insert_with(|| {
                    let mut ctx = Context::new(BuiltinModuleImporter::default());
                    let _ = ctx.interpret("use prelude", CodeSource::Internal).unwrap();
                    ctx
                });
                if mode == "E" { run_e(ctx, arg) } else { run_i(ctx, arg) }
            }
            _ => "?".into(),
        }
    });
}
