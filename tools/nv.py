#!/usr/bin/env python3
"""Driver: ./check <Cxx> quick|thorough   (see DESIGN.md §1)"""
import importlib
import os
import sys
import traceback

sys.path.insert(0, os.path.dirname(os.path.abspath(__file__)))
import common  # noqa: E402


def main():
    if len(sys.argv) < 2:
        print("usage: check <Cxx> [quick|thorough] [--replay path]")
        return 2
    pid = sys.argv[1].upper()
    tier = os.environ.get("VERIF_TIER") or (sys.argv[2] if len(sys.argv) > 2 and not sys.argv[2].startswith("-") else "quick")
    if len(sys.argv) > 2 and sys.argv[2] in ("quick", "thorough"):
        tier = sys.argv[2]
    seed = int(os.environ.get("VERIF_SEED", "20260921"))
    mod = importlib.import_module("props." + pid.lower())
    if "--replay" in sys.argv:
        path = sys.argv[sys.argv.index("--replay") + 1]
        return mod.replay(path)
    chk = common.Check(pid, tier, seed)
    try:
        mod.run(chk)
    except common.Broken as e:
        print("BROKEN-CHECK property=%s: %s" % (pid, e))
        chk.notes.append("broken: %s" % e)
        chk.finish()
        return 2
    except Exception:
        traceback.print_exc()
        chk.notes.append("exception: " + traceback.format_exc()[-2000:])
        chk.finish()
        return 2
    rc = chk.finish()
    print("%s %s: %s (obligations %d/%d, evaluations %s, %.1fs)" % (
        pid, tier, "VIOLATED" if rc else "holds",
        sum(1 for _, ok, _ in chk.obligations if ok), len(chk.obligations),
        chk.cov.get("evaluations"), __import__("time").time() - chk.t0))
    return rc


if __name__ == "__main__":
    sys.exit(main())
