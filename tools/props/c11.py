"""C11 — comparisons do not depend on operand order.

proof:  coq/theories/Props/C11.v — exact level: C11_eq_sym_exact, C11_ord_sym_exact, C11_ord_exact;
        any number type: C11_ne, C11_nan_false, C11_trichotomy_f; and the full statement is REFUTED
        for the model under a rounding arithmetic: C11_symmetry_refuted / C11_symmetry_full_refuted
        (one-sided conversion of the right operand)
tie:    generated unit table + every ordered pair of same-dimension units (exhaustive) x
        {independent magnitudes, the right operand obtained by converting the left one}: real
        Quantity::eq / ne / partial_cmp_preserve_nan in both orders, the six operators through
        Context::interpret; the exact model (vm_compute) must agree wherever the operands are not
        equal up to rounding, and a float-exact replica of the one-sided conversion must predict the
        implementation's answer on the rounding-level ties (this is what makes the matcher narrow)
oracle: the property on the implementation (symmetry, negation, trichotomy, NaN => false)
known:  C11-eq-one-sided, C11-ord-one-sided (open): asymmetric answers on operands that are equal up
        to rounding, with different units, predicted by the replica
"""
import collections
import json
import math
import os
from fractions import Fraction

import common
from props import qtylib
from props.qtylib import F, Obs

MANIFEST = dict(
    category="proof",
    text="Machine-checked proof (Coq) over the model of Quantity::symmetric_partial_cmp (introduced by the fix of the "
         "findings C11-eq-one-sided / C11-ord-one-sided: each operand is converted into the other's unit and the two "
         "comparisons must agree), impl PartialEq/PartialOrd for Quantity, partial_cmp_preserve_nan and the vm.rs "
         "comparison opcodes. For ANY number type whose partial_cmp is antisymmetric (IEEE doubles; proved for the "
         "exact instance): a == b equals b == a and `a op b` equals `b flip(op) a` for the four orderings, as results "
         "including errors (C11_eq_sym, C11_ord_sym); != is the negation of == (C11_ne); every ordering with a NaN "
         "operand is false, also when the NaN only arises in the conversion of non-NaN operands (C11_nan_false, "
         "C11_nan_conv_false; the former panic `1 Rm^12/m < 1 Qm^11` is fixed); when the ordering is defined exactly one of <, ==, > holds "
         "(C11_trichotomy_f). Exact level: the ordering and == decide the order/equality of the physical quantities "
         "(C11_ord_exact, C11_eq_exact). All closed under the global context.",
    design_ref="DESIGN.md §6 C11, §7 #8; design/qty.md",
    note="Trusted: Coq kernel + vm_compute; Qty/Model.v hand port; hook dump/translator; antisymmetry of f64 partial_cmp is a "
         "hypothesis of the order-independence theorems; the Python f64 replica of the comparison for one-factor units "
         "(libm pow(x,1)=x, compiler-rt powi) checks the rounding-level ties.",
    technique="Coq proof (structural for any number type + exact) + exhaustive unit-pair correspondence",
)

THEOREMS = ["C11_eq_sym", "C11_ord_sym", "C11_ne", "C11_nan_false", "C11_nan_conv_false", "C11_trichotomy_f", "C11_ord_exact", "C11_eq_exact"]
FLIP = {"<": ">", ">": "<", "=": "=", "n": "n", "i": "i"}
NAN = "7ff8000000000000"


def replica_answers(tbl, va, ua, vb, ub):
    """what the current code (Quantity::symmetric_partial_cmp) computes in f64 for one-factor units:
    (a==b, b==a, cmp(a,b), cmp(b,a))"""
    def code(x, y):
        if math.isnan(x) or math.isnan(y):
            return "?"
        return "<" if x < y else (">" if x > y else "=")

    def sym(v1, u1, v2, u2):
        c1 = code(v1, qtylib.replica_convert(tbl, v2, u2, u1))
        c2 = code(qtylib.replica_convert(tbl, v1, u1, u2), v2)
        return c1 if c1 == c2 else "="
    ab, ba = sym(va, ua, vb, ub), sym(vb, ub, va, ua)
    return (ab == "=", ba == "=", ab, ba)


def run(chk):
    binary, tbl = qtylib.session()
    proved = chk.prove("Props.C11", THEOREMS, ["theories/Props/C11.vo", "theories/Qty/Prelude.vo", "theories/Props/C11F.vo", "theories/Qty/PreludeF.vo"],
                       extra_obligations=["Qty.Prelude.prelude_wf", "Qty.Prelude.prelude_exact_int",
                                          "Qty.Prelude.prelude_exact_pos"])
    chk.trusted += [
        "model Qty/Model.v: qeq (impl PartialEq for Quantity), pcmp (partial_cmp_preserve_nan), vm_cmp (vm.rs opcodes)",
        "Gen/PreludeUnits.v generated from the hook dump on every run",
        "correspondence: coqc vm_compute of Qty.Exec.r_eq / r_ne / r_cmp / r_vmcmp vs harness qty (direct calls and interpret)",
        "float-exact level: Qty/FloatExact.v instantiates the same model with the kernel's binary64 floats (PrimFloat; powi ported from compiler-rt; pow only as pow(x,1), pow(x,0), pow(1,y)) and must predict the implementation's answers on rounding-level ties and special magnitudes bit for bit",
        "f64 replica of the one-sided conversion for one-factor units (tools/props/qtylib.py replica_convert): used by the known-finding matcher",
    ]
    quick = chk.tier == "quick"
    rng = chk.rng
    pairs = qtylib.ordered_pairs(tbl)
    cases = []   # dict(kind, va, ua, vb|None (tie), ub, lines[5])
    one = qtylib.f2bits(1.0)

    def add(kind, va, ua, vb, ub):
        qa = qtylib.rpn_q(va, ua)
        if vb is None:          # b := a -> ub   (computed by the implementation)
            qb = "%s %s conv" % (qa, qtylib.rpn_q(one, ub))
        else:
            qb = qtylib.rpn_q(vb, ub)
        cases.append(dict(kind=kind, va=va, ua=ua, vb=vb, ub=ub, lines=[
            "R %s %s eq" % (qa, qb), "R %s %s eq" % (qb, qa), "R %s %s ne" % (qa, qb),
            "R %s %s cmp" % (qa, qb), "R %s %s cmp" % (qb, qa), "R " + qb]))

    corpus_src = []
    for c in json.load(open(os.path.join(common.VERIF, "corpus", "c11.json"))):
        if "src" in c:
            corpus_src.append(c)
            continue
        add("corpus", qtylib.f2bits(c["va"]), qtylib.parse_unit(c["ua"]),
            None if c.get("vb") is None else qtylib.f2bits(c["vb"]), qtylib.parse_unit(c["ub"]))
    mags = [40.5, 1.0, -3.25, 1e-7, 12345.678, 0.1, 7.0, 0.0]
    for (a, b) in pairs:
        ua, ub = [F(a)], [F(b)]
        va = rng.choice(mags)
        add("pair-independent", qtylib.f2bits(va), ua, qtylib.f2bits(rng.choice(mags)), ub)
        add("pair-tie", qtylib.f2bits(rng.choice(mags[:7])), ua, None, ub)
        if not quick:
            add("pair-tie", qtylib.f2bits(rng.uniform(0.001, 1000.0)), ua, None, ub)
    for (a, b) in rng.sample(pairs, min(len(pairs), 500 if quick else len(pairs))):
        ua, ub = qtylib.one_factor(tbl, rng, a, 0.9), qtylib.one_factor(tbl, rng, b, 0.9)
        add("prefixed-tie", qtylib.f2bits(rng.uniform(0.001, 1000.0)), ua, None, ub)
    for (a, b) in rng.sample(pairs, 60):
        add("nan", NAN, [F(a)], qtylib.f2bits(1.0), [F(b)])
        add("nan", qtylib.f2bits(2.0), [F(a)], NAN, [F(b)])
    # special magnitudes for EVERY ordered pair: signed zeros, subnormals, infinities, NaN, values that
    # underflow to +-0 after conversion
    SPECIALS = [-0.0, 0.0, 5e-324, -5e-324, 1e-310, -1e-310, float("inf"), float("-inf"), float("nan"), 1e300, -1e300]
    for (a, b) in pairs:
        ua, ub = [F(a)], [F(b)]
        z = rng.choice([(-0.0, 0.0), (0.0, -0.0), (-0.0, -0.0)])
        add("special-zero", qtylib.f2bits(z[0]), ua, qtylib.f2bits(z[1]), ub)
        add("special", qtylib.f2bits(rng.choice(SPECIALS)), ua, qtylib.f2bits(rng.choice(SPECIALS)), ub)
    gen = qtylib.Gen(rng, tbl)
    for _ in range(150 if quick else 1500):
        ua = gen.unit()
        ub = gen.unit_of_dim(tbl.dim(ua))
        if ub is None or qtylib.range_risk(tbl, ("conv", ("lit", one, ua), ub), 150):
            continue
        add("compound-independent", qtylib.f2bits(rng.choice(mags[:7])), ua, qtylib.f2bits(rng.choice(mags[:7])), ub)
    # the six operators through the interpreter
    srcs = []
    for (a, b) in rng.sample(pairs, min(len(pairs), 250 if quick else 1500)):
        ua, ub = qtylib.one_factor(tbl, rng, a, 0.3), qtylib.one_factor(tbl, rng, b, 0.3)
        sa, sb = qtylib.spell_unit(tbl, ua, rng), qtylib.spell_unit(tbl, ub, rng)
        if sa is None or sb is None:
            continue
        if rng.random() < 0.4:
            va, vb = rng.choice([(-0.0, 0.0), (0.0, -0.0), (-0.0, -0.0), (5e-324, -0.0), (0.0, 1e-310)])
        else:
            va, vb = rng.choice(mags), rng.choice(mags + ["NaN"])
        gid = len(srcs)
        for op in ("<", "<=", ">", ">=", "==", "!="):
            srcs.append(dict(op=op, va=va, ua=ua, vb=vb, ub=ub, gid=gid,
                             line="S (%r * %s) %s (%s * %s)" % (va, sa, op, vb if vb == "NaN" else repr(vb), sb)))

    for c in corpus_src:        # source text with the expected boolean
        srcs.append(dict(op="corpus", va=None, ua=[], vb="NaN", ub=[], gid=-1 - len(srcs), line="S " + c["src"], expect=c["expect"]))
    lines = [l for c in cases for l in c["lines"]] + [s["line"] for s in srcs]
    outs = common.run_harness(binary, "qty", lines)
    pos = 0
    for c in cases:
        c["obs"] = [Obs(o) for o in outs[pos:pos + 6]]
        pos += 6
    for s in srcs:
        s["obs"] = Obs(outs[pos])
        pos += 1

    violations, known_hits = [], collections.defaultdict(list)
    panics = replica_checked = replica_wrong = nan_after_conv = float_cases = 0
    items, idx = [], []
    for n, c in enumerate(cases):
        e1, e2, ne, c1, c2, qb = c["obs"]
        if any(o.kind == "P" for o in c["obs"]):
            panics += 1
            violations.append((c, "a comparison panicked: %s" % [o.raw[:20] for o in c["obs"][:5]]))
            continue
        if qb.kind != "Q" or e1.kind != "B" or e2.kind != "B" or ne.kind != "B" or c1.kind != "C" or c2.kind != "C":
            violations.append((c, "comparison of same-dimension quantities gave %s" % [o.raw[:30] for o in c["obs"][:5]]))
            continue
        va, vb = qtylib.bits2f(c["va"]), qb.value
        isnan = math.isnan(va) or math.isnan(vb)
        bad = []
        if e1.b != e2.b:
            bad.append(("eq", "a == b is %s but b == a is %s" % (e1.b, e2.b)))
        if ne.b != (not e1.b):
            bad.append(("ne!", "a != b is %s although a == b is %s" % (ne.b, e1.b)))
        if FLIP[c1.c] != c2.c:
            bad.append(("ord", "ordering of a against b is '%s' but of b against a is '%s'" % (c1.c, c2.c)))
        if isnan and (c1.c != "n" or c2.c != "n" or e1.b or e2.b):
            bad.append(("nan!", "NaN operand: cmp %s/%s, == %s/%s" % (c1.c, c2.c, e1.b, e2.b)))
        if not isnan and c1.c in "<=>" and (e1.b != (c1.c == "=")):
            bad.append(("tri!", "a == b is %s but the ordering of a against b is '%s'" % (e1.b, c1.c)))
        # classification of the operands
        exact = tbl.exact_unit(c["ua"]) and tbl.exact_unit(c["ub"])
        finite = math.isfinite(va) and math.isfinite(vb)
        # magnitudes whose conversion can under-/overflow in f64: not an exact-level fact
        tiny = finite and any(x != 0.0 and (abs(x) < 1e-250 or abs(x) > 1e250) for x in (va, vb))
        if c1.c in "<=>" and c2.c in "<=>" and (e2.b != (c2.c == "=")):
            bad.append(("tri!", "b == a is %s but the ordering of b against a is '%s'" % (e2.b, c2.c)))
        near = False
        if not isnan and finite and not tiny and c["ua"] != c["ub"]:
            # equal up to rounding (exactly equal included): the f64 answer is decided by rounding
            da = Fraction(va) * Fraction(qtylib.any_scale(tbl, c["ua"]))
            db = Fraction(vb) * Fraction(qtylib.any_scale(tbl, c["ub"]))
            near = qtylib.rel_close(da, db, 1e-13 if exact else 1e-11)
        onefac = len(c["ua"]) == 1 and len(c["ub"]) == 1
        rep = None
        if near and onefac:
            rep = replica_answers(tbl, va, c["ua"], vb, c["ub"])
            replica_checked += 1
            if (e1.b, e2.b, c1.c, c2.c) != rep:
                replica_wrong += 1
                violations.append((c, "f64 replica of the one-sided conversion predicts %s, implementation %s"
                                   % (rep, (e1.b, e2.b, c1.c, c2.c)), False))
        # the f64 replica INSIDE Coq (Qty/FloatExact.v, kernel floats): must predict the implementation bit for bit
        if (near or c["kind"].startswith("special")) and tbl.float_unit_supported(c["ua"]) and tbl.float_unit_supported(c["ub"]) \
                and (not quick or float_cases < 900):
            float_cases += 1
            qa_f, qb_f = tbl.coq_qF(c["va"], c["ua"]), tbl.coq_qF(qb.bits, c["ub"])
            for (fn, x, y, ob) in (("rf_eq", qa_f, qb_f, e1), ("rf_eq", qb_f, qa_f, e2), ("rf_cmp", qa_f, qb_f, c1), ("rf_cmp", qb_f, qa_f, c2)):
                items.append(("%s PF_env %s %s" % (fn, x, y), ob.expected_model_string()))
                idx.append(n)
        for tag, why in bad:
            matched = None
            if tag in ("eq", "ord") and near and c["ua"] != c["ub"] and rep == (e1.b, e2.b, c1.c, c2.c):
                fid = "C11-eq-one-sided" if tag == "eq" else "C11-ord-one-sided"
                matched = qtylib.known_match("C11", lambda f, fid=fid: f["id"] == fid)
            if matched:
                known_hits[matched["id"]].append((c, why))
            else:
                violations.append((c, why))
        # exact model where the answer is an exact-level fact
        if not isnan and (c1.c == "n" or c2.c == "n"):
            nan_after_conv += 1     # a conversion overflowed to inf/inf = NaN: f64 range, not an exact-level fact
            if e1.b or e2.b or c1.c != "n" or c2.c != "n" or not ne.b:
                violations.append((c, "NaN after conversion: cmp %s/%s, == %s/%s, != %s" % (c1.c, c2.c, e1.b, e2.b, ne.b)))
        elif exact and not isnan and not near and finite and not tiny:
            qa_t, qb_t = tbl.coq_q(c["va"], c["ua"]), tbl.coq_q(qb.bits, c["ub"])
            full = (not quick) or n % 4 == 0
            for (fn, x, y, ob) in ((("r_eq", qa_t, qb_t, e1), ("r_eq", qb_t, qa_t, e2), ("r_ne", qa_t, qb_t, ne),
                                    ("r_cmp", qa_t, qb_t, c1), ("r_cmp", qb_t, qa_t, c2)) if full else
                                   (("r_eq", qa_t, qb_t, e1), ("r_cmp", qb_t, qa_t, c2))):
                items.append(("%s PX_env prelude_n_exact %s %s" % (fn, x, y), ob.expected_model_string()))
                idx.append(n)
    # operators through interpret
    OPS = {"<": "CLt", "<=": "CLe", ">": "CGt", ">=": "CGe"}
    for k, s in enumerate(srcs):
        ob = s["obs"]
        if ob.kind == "P":
            panics += 1
            violations.append((s, "`%s` panicked" % s["line"][2:]))
            continue
        if ob.kind != "B":
            violations.append((s, "operator %s on same-dimension quantities gave %s" % (s["op"], ob.raw[:40])))
            continue
        if s["op"] == "corpus":
            if ob.b != s["expect"]:
                violations.append((s, "`%s` gave %s, expected %s" % (s["line"][2:], ob.b, s["expect"])))
            continue
        if s["vb"] == "NaN":
            want = s["op"] == "!="
            if ob.b != want:
                violations.append((s, "comparison with NaN: `%s` gave %s" % (s["op"], ob.b)))
            continue
        if not (tbl.exact_unit(s["ua"]) and tbl.exact_unit(s["ub"])):
            continue
        if any(x != 0.0 and (abs(x) < 1e-250 or abs(x) > 1e250) for x in (s["va"], s["vb"])):
            continue
        da = Fraction(s["va"]) * tbl.scale(s["ua"])
        db = Fraction(s["vb"]) * tbl.scale(s["ub"])
        if s["ua"] != s["ub"] and qtylib.rel_close(da, db, 1e-13):
            continue
        want = {"<": da < db, "<=": da <= db, ">": da > db, ">=": da >= db, "==": da == db, "!=": da != db}[s["op"]]
        if ob.b != want:
            violations.append((s, "`%s` gave %s, the quantities compare as %s" % (s["line"][2:], ob.b, want)))
        qa_t, qb_t = tbl.coq_q(qtylib.f2bits(s["va"]), s["ua"]), tbl.coq_q(qtylib.f2bits(s["vb"]), s["ub"])
        if s["op"] in OPS:
            items.append(("r_vmcmp PX_env prelude_n_exact %s %s %s" % (OPS[s["op"]], qa_t, qb_t), ob.expected_model_string()))
        else:
            items.append(("%s PX_env prelude_n_exact %s %s" % ("r_eq" if s["op"] == "==" else "r_ne", qa_t, qb_t),
                          ob.expected_model_string()))
        idx.append(-1 - k)
    groups = collections.defaultdict(dict)
    for sr in srcs:
        if sr["obs"].kind == "B":
            groups[sr["gid"]][sr["op"]] = sr["obs"].b
    for gid, g in groups.items():
        if len(g) != 6:
            continue
        why = None
        if g["!="] != (not g["=="]):
            why = "`!=` is not the negation of `==`"
        elif g["<="] != (g["<"] or g["=="]) or g[">="] != (g[">"] or g["=="]):
            why = "`<=` / `>=` is not `<` / `>` or `==`: %s" % g
        elif srcs[gid]["vb"] != "NaN" and [g["<"], g["=="], g[">"]].count(True) != 1:
            why = "not exactly one of <, ==, > holds: %s" % g
        if why:
            violations.append((srcs[gid], why + "   for " + srcs[gid]["line"][2:].replace(" < ", " ? ")))
    bad = qtylib.coq_mismatches(items, "c11", shard_size=400)
    mism = {k: v for k, v in bad.items()}

    for fid, hits in sorted(known_hits.items()):
        c, why = hits[0]
        chk.known(fid, "%s: %d operand pairs with different units, equal up to rounding, compare asymmetrically "
                       "(one-sided conversion, predicted by the f64 replica); first: %s  [%s]" % (
                           fid, len(hits), c["lines"][0 if fid.startswith("C11-eq") else 3], why))
    real = [v for v in violations if len(v) == 2]
    soft = [v for v in violations if len(v) == 3]
    for c, why in real[:3]:
        chk.violation({"kind": "comparison depends on operand order / contradicts the documented predicate",
                       "harness_lines": c.get("lines") or [c["line"]],
                       "implementation": [o.raw for o in c["obs"]] if isinstance(c.get("obs"), list) else c["obs"].raw,
                       "detail": why, "replay": "./check C11 --replay <this file>"})
    if not real and (mism or soft or not proved):
        k = min(mism) if mism else None
        chk.violation({"kind": "proof or correspondence no longer checks",
                       "theorem_or_correspondence": ("correspondence Qty/Model.v qeq/pcmp/vm_cmp vs quantity.rs / vm.rs" if mism else
                                                     "f64 replica of the one-sided conversion vs implementation" if soft else
                                                     "Props/C11.v or table lemma: " + getattr(chk, "proof_failure", "?")),
                       "mismatching_cases": len(mism) + len(soft),
                       "first_case": None if k is None else {"model_term": items[k][0], "implementation": items[k][1], "model": mism[k]},
                       "first_replica_case": None if not soft else {"lines": soft[0][0]["lines"], "detail": soft[0][1]}},
                      found_input=False)

    kinds = collections.Counter(c["kind"] for c in cases)
    distinct = {(qtylib.show_unit(c["ua"]), qtylib.show_unit(c["ub"]), c["vb"] is None) for c in cases if c["ua"] != c["ub"]}
    chk.cov.update({
        "evaluations": len(lines),
        "distinct_nontrivial": len(distinct),
        "rule": "every ordered pair of same-dimension units (exhaustive) x {independent magnitudes, right operand := left "
                "operand converted by the implementation}; ==, != and the ordering in both orders by direct calls; prefixed "
                "and compound samples; NaN operands; the six operators through interpret; non-trivial = different units; "
                "distinct = distinct (unit a, unit b, tie?)",
        "exhaustive": True, "exhaustive_what": "ordered same-dimension unit pairs (%d)" % len(pairs),
        "case_kinds": dict(kinds), "operator_sources": len(srcs),
        "asymmetric_known": {k: len(v) for k, v in known_hits.items()},
        "replica_checked_ties": replica_checked, "replica_mispredictions": replica_wrong,
        "float_exact_coq_cases": float_cases, "panics": panics, "nan_after_conversion_cases": nan_after_conv,
        "model_evaluations": len(items), "model_mismatches": len(mism), "oracle_failures": len(real),
        "oracle_failure_kinds": dict(collections.Counter(v[0].get("kind", "operator-source") for v in real)),
        "samples": [{"lines": cases[i]["lines"][:5], "implementation": [o.raw for o in cases[i]["obs"][:5]]}
                    for i in (0, len(cases) // 2, len(cases) - 1)] + ([{"line": srcs[0]["line"], "implementation": srcs[0]["obs"].raw}] if srcs else []),
    })
    chk.assumptions += [
        "exact level for the symmetry theorems; on operands equal up to rounding the f64 answer is not an exact-level fact and is "
        "checked against the f64 replica (one-factor units) instead",
        "a NaN that arises in a conversion (overflow) is judged by the structural clauses only (all orderings false, == false)",
    ]


def replay(path):
    r = json.load(open(path))
    if "harness_lines" not in r:
        print(json.dumps(r, indent=1))
        return 0
    binary, tbl = qtylib.session()
    outs = common.run_harness(binary, "qty", r["harness_lines"], shards=1)
    for l, o in zip(r["harness_lines"], outs):
        print(l, "=>", o)
    if len(outs) >= 5:
        e1, e2, ne, c1, c2 = [Obs(o) for o in outs[:5]]
        bad = []
        if e1.kind == "B" and e2.kind == "B" and e1.b != e2.b:
            bad.append("a == b differs from b == a")
        if ne.kind == "B" and e1.kind == "B" and ne.b == e1.b:
            bad.append("!= is not the negation of ==")
        if c1.kind == "C" and c2.kind == "C" and FLIP[c1.c] != c2.c:
            bad.append("ordering is not antisymmetric")
        print("property:", "; ".join(bad) or "holds")
        return 1 if bad else 0
    return 0
