"""Generators for C15: type-directed numbat expressions and definitions over the prelude.
Every numeric literal has at most 4 significant digits, so it is exactly representable in the
6-digit precision of the echo (the property's own proviso)."""

SETUP = "\n".join([
    "let len1 = 2 m",
    "let dur1 = 3 s",
    "let k1 = 5",
    "let flag = true",
    "let fref = sin",
    "struct Pt {x: Length, y: Length}",
    "struct Rec {n: Scalar, ok: Bool}",
    "fn sq(x) = x^2",
    "fn halve<D: Dim>(x: D) -> D = x / 2",
])

LITS = ["1", "2", "3", "4", "10", "0.5", "1.5", "2.25", "100", "7", "0.125", "2e3", "1_000"]
STRS = ["abc", "a b", "", "x\\ny", "tab\\there", "q\\\"q", "{{braces}}", "back\\\\slash", "ünï °C", "a\\0b", "per cent %",
        "end\\\\", "a\\\\nb", "\\\\\\\"q"]


class Gen:
    def __init__(self, rng, fixed=False):
        self.r = rng
        self.fixed = fixed          # True: avoid the shapes of the open known findings
        self.feat = set()

    def lit(self):
        return self.r.choice(LITS)

    def small(self):
        return self.r.choice(["1", "2", "3", "4"])

    def p(self, s):
        """operand in parentheses with some probability (the echo must not depend on it)"""
        return "(%s)" % s

    def S(self, d):
        r = self.r
        if d <= 0 or r.random() < 0.2:
            return r.choice([self.lit(), self.lit(), "k1", "pi"])
        c = r.randrange(24)
        g = self.S
        if c == 0:
            return "%s + %s" % (g(d - 1), self.operand(g(d - 1)))
        if c == 1:
            return "%s - %s" % (g(d - 1), self.p(g(d - 1)))
        if c == 2:
            return "%s * %s" % (self.p(g(d - 1)), self.p(g(d - 1)))
        if c == 3:
            return "%s / %s" % (self.p(g(d - 1)), self.p("%s + 1" % self.lit()))
        if c == 4:
            self.feat.add("pow")
            return "%s^%s" % (self.p(g(d - 1)), r.choice(["2", "3", "4", "(-1)", "0.5", "(1/2)"]))
        if c == 5:
            self.feat.add("neg")
            return "-%s" % self.p(g(d - 1))
        if c == 6:
            self.feat.add("fact")
            return "%s%s" % (self.small(), r.choice(["!", "!!", "!"]))
        if c == 7:
            self.feat.add("call")
            return "%s(%s)" % (r.choice(["sin", "cos", "exp", "abs", "sq", "halve", "floor"]), g(d - 1))
        if c == 8:
            return "%s / %s" % (self.p(self.L(d - 1)), self.p(self.L(0)))
        if c == 9:
            return "%s / %s" % (self.p(self.T(d - 1)), self.p(self.T(0)))
        if c == 10:
            self.feat.add("if")
            return "if %s then %s else %s" % (self.B(d - 1), g(d - 1), g(d - 1))
        if c == 11:
            self.feat.add("postfix")
            return "%s |> %s" % (self.p(g(d - 1)), r.choice(["sin", "sq", "abs"]))
        if c == 12:
            self.feat.add("list")
            return "len([%s])" % ", ".join(g(d - 2) for _ in range(r.choice([0, 1, 2, 3])))
        if c == 13:
            self.feat.add("struct")
            return "Rec {n: %s, ok: %s}.n" % (g(d - 1), self.B(d - 2))
        if c == 14:
            self.feat.add("callable")
            return "fref(%s)" % g(d - 1)
        if c == 15:
            self.feat.add("upow")
            return "%s%s" % (self.p(g(d - 1)), r.choice(["²", "³", "⁻¹", "⁴"]))
        if c == 16:
            self.feat.add("temperature")
            return "celsius(%s)" % self.K(d - 1)
        if c == 17:
            self.feat.add("imul")
            return "%s %s" % (self.lit(), r.choice(["k1", "pi", "(%s)" % g(d - 1)]))
        if c == 18:
            self.feat.add("per")
            return "%s per %s" % (self.p(self.L(d - 1)), self.p(self.L(0)))
        if c == 19 and not self.fixed:
            self.feat.add("callable-if")
            return "(if %s then sin else cos)(%s)" % (self.B(d - 1), g(d - 1))
        if c == 20:
            return "%s * %s + %s" % (g(d - 1), g(d - 1), g(d - 1))
        if c == 21:
            self.feat.add("conv")
            return "%s -> %s" % (self.p(self.L(d - 1) + " / " + self.p(self.L(0))), "percent")
        if c == 22:
            return "(%s)" % g(d - 1)
        return "%s * %s" % (self.p(g(d - 1)), self.operand(g(d - 1)))

    def operand(self, s):
        return self.p(s) if self.r.random() < 0.7 else s

    def L(self, d):
        r = self.r
        if d <= 0 or r.random() < 0.2:
            return r.choice(["%s m" % self.lit(), "%s cm" % self.lit(), "len1", "%s km" % self.lit(), "%s meter" % self.lit(),
                             "%s µm" % self.lit()])
        c = r.randrange(17)
        g = self.L
        if c == 0:
            return "%s + %s" % (g(d - 1), self.operand(g(d - 1)))
        if c == 1:
            return "%s - %s" % (g(d - 1), self.p(g(d - 1)))
        if c == 2:
            return "%s * %s" % (self.p(self.S(d - 1)), self.p(g(d - 1)))
        if c == 3:
            return "%s * %s" % (self.p(g(d - 1)), self.p(self.S(d - 1)))
        if c == 4:
            return "%s / %s" % (self.p(g(d - 1)), self.p(self.lit() + " + 1"))
        if c == 5:
            self.feat.add("neg")
            return "-%s" % self.p(g(d - 1))
        if c == 6:
            return "%s * %s" % (self.p(self.V(d - 1)), self.p(self.T(d - 1)))
        if c == 7:
            self.feat.add("conv")
            return "%s -> %s" % (g(d - 1) if r.random() < 0.5 else self.p(g(d - 1)), r.choice(["cm", "km", "inch", "mm"]))
        if c == 8:
            self.feat.add("if")
            return "if %s then %s else %s" % (self.B(d - 1), g(d - 1), g(d - 1))
        if c == 9:
            self.feat.add("call")
            return "halve(%s)" % g(d - 1)
        if c == 10:
            self.feat.add("struct")
            return "Pt {x: %s, y: %s}.%s" % (g(d - 1), g(d - 2), r.choice("xy"))
        if c == 11:
            self.feat.add("list")
            return "head([%s, %s])" % (g(d - 1), g(d - 2))
        if c == 12:
            self.feat.add("pow")
            return "%s^2 / %s" % (self.p(g(d - 1)), self.p(g(0)))
        if c == 13:
            self.feat.add("call")
            return "sqrt(%s * %s)" % (self.p(g(d - 1)), self.p(g(0)))
        if c == 14 and not self.fixed:
            self.feat.add("conv-if")
            return "%s -> (if %s then cm else mm)" % (g(d - 1), self.B(d - 2))
        if c == 15 and not self.fixed:
            self.feat.add("field-if")
            return "(if %s then Pt {x: %s, y: 1 m} else Pt {x: 2 m, y: 2 m}).x" % (self.B(d - 2), g(d - 1))
        return "%s %s" % (self.lit(), r.choice(["m", "cm", "len1"]))

    def T(self, d):
        r = self.r
        if d <= 0 or r.random() < 0.3:
            return r.choice(["%s s" % self.lit(), "dur1", "%s min" % self.lit(), "%s ms" % self.lit()])
        c = r.randrange(6)
        if c == 0:
            return "%s + %s" % (self.T(d - 1), self.operand(self.T(d - 1)))
        if c == 1:
            return "%s * %s" % (self.p(self.S(d - 1)), self.p(self.T(d - 1)))
        if c == 2:
            return "%s / %s" % (self.p(self.L(d - 1)), self.p(self.V(0)))
        if c == 3:
            self.feat.add("conv")
            return "%s -> %s" % (self.T(d - 1), r.choice(["ms", "min", "hour"]))
        if c == 4:
            return "-%s" % self.p(self.T(d - 1))
        return "%s - %s" % (self.T(d - 1), self.p(self.T(d - 1)))

    def V(self, d):
        r = self.r
        if d <= 0 or r.random() < 0.3:
            return r.choice(["%s m/s" % self.lit(), "%s km/h" % self.lit(), "len1 / dur1"])
        c = r.randrange(5)
        if c == 0:
            return "%s / %s" % (self.p(self.L(d - 1)), self.p(self.T(0)))
        if c == 1:
            return "%s + %s" % (self.V(d - 1), self.operand(self.V(d - 1)))
        if c == 2:
            return "%s * %s" % (self.p(self.S(d - 1)), self.p(self.V(d - 1)))
        if c == 3:
            self.feat.add("per")
            return "%s per %s" % (self.p(self.L(d - 1)), r.choice(["s", "min", "hour"]))
        self.feat.add("conv")
        return "%s -> %s" % (self.V(d - 1), r.choice(["km/h", "m/s", "mph"]))

    def K(self, d):
        r = self.r
        self.feat.add("temperature")
        c = r.randrange(6)
        if c == 0:
            return "%s K" % self.lit()
        if c == 1:
            return "from_celsius(%s)" % self.S(d - 1)
        if c == 2:
            return "from_fahrenheit(%s)" % self.S(d - 1)
        if c == 3:
            return "%s °C" % self.lit()
        if c == 4:
            return "%s °F" % self.lit()
        return "%s K + %s K" % (self.lit(), self.lit())

    def B(self, d):
        r = self.r
        if d <= 0 or r.random() < 0.25:
            return r.choice(["true", "false", "flag"])
        c = r.randrange(9)
        cmp_ = r.choice(["<", ">", "<=", ">=", "==", "!="])
        if c == 0:
            return "%s %s %s" % (self.S(d - 1), cmp_, self.S(d - 1))
        if c == 1:
            return "%s %s %s" % (self.L(d - 1), cmp_, self.L(d - 1))
        if c == 2:
            self.feat.add("logic")
            return "%s && %s" % (self.p(self.B(d - 1)), self.p(self.B(d - 1)))
        if c == 3:
            self.feat.add("logic")
            return "%s || %s" % (self.p(self.B(d - 1)), self.p(self.B(d - 1)))
        if c == 4:
            self.feat.add("logic")
            return "!%s" % self.p(self.B(d - 1))
        if c == 5:
            self.feat.add("if")
            return "if %s then %s else %s" % (self.B(d - 1), self.B(d - 1), self.B(d - 1))
        if c == 6:
            return "%s %s %s" % (self.T(d - 1), cmp_, self.T(d - 1))
        if c == 7:
            self.feat.add("struct")
            return "Rec {n: %s, ok: %s}.ok" % (self.S(d - 2), self.B(d - 1))
        return "%s && %s || %s" % (self.B(d - 1), self.B(d - 1), self.B(d - 1))

    def Str(self, d):
        r = self.r
        self.feat.add("string")
        c = r.randrange(5)
        if c <= 1:
            return '"%s"' % r.choice(STRS)
        if c == 2:
            self.feat.add("interpolation")
            return '"%s{%s}%s"' % (r.choice(STRS), self.any_expr(d - 1)[1], r.choice(STRS))
        if c == 3:
            self.feat.add("interpolation")
            return '"{%s} and {%s:%s}"' % (self.S(d - 1), self.S(d - 1), r.choice([".2f", ">8", "e"]))
        return 'str_append("%s", "%s")' % (r.choice(STRS), r.choice(STRS))

    def any_expr(self, d):
        ty = self.r.choice(["S", "S", "S", "L", "L", "T", "V", "B", "B", "Str", "K"])
        return ty, getattr(self, ty)(d)

    # ---------------------------------------------------------------- statements
    def statement(self, n):
        """-> (statement source, probe expression or '', kind)"""
        r = self.r
        d = r.choice([1, 2, 2, 3, 3, 4])
        c = r.random()
        if c < 0.55:
            ty, e = self.any_expr(d)
            return e, "", "expr:" + ty
        if c < 0.70:
            ty, e = self.any_expr(d)
            ann = {"S": "Scalar", "L": "Length", "T": "Time", "V": "Velocity", "B": "Bool", "Str": "String",
                   "K": "Temperature"}[ty]
            name = "v%d" % n
            deco = ""
            if r.random() < 0.25:
                self.feat.add("decorator-let")
                deco = self.decorators(["name", "url", "description", "aliases_let"]) + "\n"
            if r.random() < 0.4:
                return "%slet %s: %s = %s" % (deco, name, ann, e), name, "let"
            return "%slet %s = %s" % (deco, name, e), name, "let"
        if c < 0.82:
            return self.function(n, d)
        if c < 0.94:
            return self.unit(n, d)
        if c < 0.97:
            self.feat.add("dimension")
            k = r.randrange(3)
            if k == 0:
                return "dimension Dim%d" % n, "", "dimension"
            if k == 1:
                return "dimension Dim%d = Length^2 / Time" % n, "", "dimension"
            return "dimension Dim%d = Mass * Length / Time^(1/2)" % n, "", "dimension"
        self.feat.add("struct-def")
        return "struct St%d {a: Length, b: Bool, c: List<Scalar>}" % n, "", "struct"

    def function(self, n, d):
        r = self.r
        self.feat.add("fn")
        name = "fun%d" % n
        k = r.randrange(7)
        deco = ""
        if r.random() < 0.25:
            self.feat.add("decorator-fn")
            deco = self.decorators(["name", "url", "description", "example"], fname=name) + "\n"
        if k == 0:
            return "%sfn %s(x) = x^2 + %s" % (deco, name, self.S(d - 1)), "%s(2)" % name, "fn"
        if k == 1:
            return "%sfn %s(x: Length) -> Length = x + %s" % (deco, name, self.L(d - 1)), "%s(1 m)" % name, "fn"
        if k == 2:
            return "%sfn %s<D: Dim>(x: D) -> D = x * %s" % (deco, name, self.p(self.S(d - 1))), "%s(3 s)" % name, "fn"
        if k == 3:
            self.feat.add("where")
            return ("%sfn %s(x) = y + z\n  where y = x * %s\n    and z = %s" % (deco, name, self.p(self.S(d - 1)), self.S(d - 1)),
                    "%s(2)" % name, "fn")
        if k == 4:
            return "%sfn %s(x: Length, t: Time) -> Velocity = x / t + %s" % (deco, name, self.V(d - 1)), "%s(1 m, 2 s)" % name, "fn"
        if k == 5:
            return "%sfn %s<A, B>(a: A, b: B) -> A = a" % (deco, name), "%s(1 m, true)" % name, "fn"
        return "%sfn %s(x: Scalar) -> Bool = x > %s" % (deco, name, self.S(d - 1)), "%s(2)" % name, "fn"

    def decorators(self, allowed, fname=None):
        r = self.r
        texts = ["Foo bar", "simple", "a \\\"quoted\\\" word", "braces {{x}}", "ünï", "back\\\\slash", "(paren) , comma"]
        out = []
        for a in allowed:
            if r.random() < 0.5:
                continue
            if a == "name":
                out.append('@name("%s")' % r.choice(texts))
            elif a == "url":
                out.append('@url("https://example.org/%s?a=1&b=%s")' % (r.choice(["x", "a_b", "wiki/Foo_(bar)"]), self.lit()))
            elif a == "description":
                out.append('@description("%s")' % r.choice(texts))
            elif a == "example":
                out.append('@example("%s(1)", "%s")' % (fname, r.choice(texts)) if r.random() < 0.5 else '@example("%s(2)")' % fname)
            elif a == "aliases_let":
                out.append("@aliases(vv%d)" % r.randrange(10 ** 6))
            elif a == "aliases":
                k = r.randrange(10 ** 6)
                out.append(r.choice(["@aliases(uu%d: short, ulong%d)" % (k, k), "@aliases(uu%d)" % k,
                                     "@aliases(uu%d: both, uv%d: none, uw%d: long)" % (k, k, k)]))
            elif a == "metric":
                out.append("@metric_prefixes")
            elif a == "binary":
                out.append("@binary_prefixes")
        if not out:
            out.append('@name("%s")' % r.choice(texts))
        r.shuffle(out)
        return "\n".join(out)

    def unit(self, n, d):
        r = self.r
        self.feat.add("unit")
        name = "unt%d" % n
        deco = ""
        if r.random() < 0.7:
            self.feat.add("decorator-unit")
            deco = self.decorators(["name", "url", "description", "aliases", "metric", "binary"]) + "\n"
        k = r.randrange(5)
        if k == 0:
            return "%sunit %s = %s" % (deco, name, self.L(d - 1)), "2 %s" % name, "unit"
        if k == 1:
            return "%sunit %s: Length = %s" % (deco, name, self.L(d - 1)), "2 %s" % name, "unit"
        if k == 2:
            return "%sunit %s: Length" % (deco, name), "2 %s" % name, "unit"
        if k == 3:
            return "%sunit %s" % (deco, name), "2 %s" % name, "unit"
        return "%sunit %s: Velocity = %s" % (deco, name, self.V(d - 1)), "2 %s" % name, "unit"
