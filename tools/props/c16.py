"""C16 — inferred function signatures are valid, principal annotations.

proof:  coq/theories/Props/C16.v (C16_lcm_iso, C16_lcm_iso_back, C16_lcm_factor): the exponent
        normalisation applied to inferred signatures keeps the set of ground instances.
tie:    (1) model correspondence: every generated unannotated function definition and its call sites
        go through Dim/Infer.v (vm_compute) and through the real type checker; the raw type scheme
        after normalisation and generalisation (hook numbat::verif::dim) and the verdict/result
        type of every call must be equal.
        (2) oracle on the implementation (the property itself): the echoed definition
        (Statement::pretty_print: the printed signature as annotations, same body) is fed back; it
        must be accepted and every call site must get the same verdict and the same result type.
"""
import collections
import json
import os
import re
from fractions import Fraction

import common
from props import dimlib as D

MANIFEST = dict(
    category="proof",
    text="proof (partial). Machine-checked (Coq): substituting T := T^k with k the non-zero integer LCM of the "
         "denominators (what check_statement does before generalising and printing an inferred signature) does not "
         "change the set of ground instances of a type, in both directions (C16_lcm_iso, C16_lcm_iso_back, "
         "C16_lcm_factor), and the dimension-expression print/parse round trip at the level of the expression tree "
         "(C16_dexpr_roundtrip: printing any closed dimension type as positive factors / inverted non-positive factors "
         "and reading it back through the registry gives the same exponent vector; C16_annotation_roundtrip_partial: the same "
         "through type_from_annotation, i.e. used as a parameter or return annotation the printed monomorphic dimension type "
         "denotes what the inferred one denotes — generic signatures excluded); all closed under the global context, "
         "over the executable model Dim/Model.v + Dim/Infer.v of "
         "typechecker/{mod,constraints,substitutions,type_scheme}.rs. NOT proved (stated as C16_calls_agree_full : Prop): "
         "that re-checking the body under the printed signature yields the same scheme (this needs principality and invariance "
         "of the checker under renaming of fresh variables, which do not follow from the semantic theorems); that clause is decided on every "
         "run by the oracle on the real implementation (echoed definition fed back, generated call sites with concrete "
         "dimensions must get the same verdict and result type) and by the model/implementation correspondence on the "
         "raw inferred schemes.",
    design_ref="DESIGN.md §6 C16; design/dim.md",
    note="Trusted: Coq kernel + vm_compute; hand-written model validated by correspondence only; hook numbat::verif::dim "
         "(raw TypeScheme text); Statement::pretty_print as the 'printed signature'. Open findings C16-multi-name (a "
         "signature whose dimension has several registered names is printed as 'A or B', not valid syntax) and "
         "C16-superscript-exponent (two-digit superscript exponents are not read back); fixed: C16-where-local-types, "
         "C16-generic-echo-names.",
    technique="Coq proof (semantic instance sets under substitution) + model/implementation correspondence + re-annotation oracle",
)

THEOREMS = ["C16_lcm_iso", "C16_lcm_iso_back", "C16_lcm_factor", "C16_dexpr_roundtrip",
            "C16_annotation_roundtrip_partial"]
IMPORTS = ["Dim.Model", "Dim.Infer", "Dim.Exec", "Gen.PreludeDims"]

num = lambda s: ("num", s)
idn = lambda s: ("id", s)
unit = lambda s: ("unit", s)


def bn(o, a, b):
    return ("bin", o, a, b)


EXPS = [Fraction(1), Fraction(2), Fraction(3), Fraction(-1), Fraction(1, 2), Fraction(1, 3), Fraction(2, 3),
        Fraction(3, 2), Fraction(-1, 2), Fraction(1, 4), Fraction(5, 2), Fraction(1, 6), Fraction(0), Fraction(-2)]

ZERO_FORMS = [num("0"), bn("-", num("1"), num("1")), bn("-", bn("*", num("2"), num("3")), num("6"))]
ONE_FORMS = [bn("-", num("3"), num("2")), bn("/", num("2"), num("2")), bn("+", num("0.5"), num("0.5"))]


def exp_expr(q, rng=None):
    if q == 0:
        return ZERO_FORMS[0] if rng is None else rng.choice(ZERO_FORMS)
    if q == 1 and rng is not None:
        return rng.choice(ONE_FORMS)
    if q.denominator == 1:
        return num(str(q.numerator)) if q >= 0 else ("un", "neg", num(str(-q.numerator)))
    e = bn("/", num(str(abs(q.numerator))), num(str(q.denominator)))
    return e if q > 0 else ("un", "neg", e)


def gen_monomial(rng, params, exps=None):
    """product of powers of parameters; returns (expr, exponent vector)"""
    vec = {}
    e = None
    ps = list(params)
    rng.shuffle(ps)
    for p in ps[:rng.randint(1, len(ps))]:
        q = rng.choice(EXPS) if exps is None else exps[p]
        vec[p] = q
        t = idn(p) if (q == 1 and rng.random() < 0.8) else bn("^", idn(p), exp_expr(q, rng))
        if e is None:
            e = t
        else:
            e = bn(rng.choice(["*", "*", "/"]) if False else "*", e, t)
    return e, vec


def gen_body(rng, params, depth=0):
    r = rng.random()
    if r < 0.30 or depth > 1:
        e, _ = gen_monomial(rng, params)
        if rng.random() < 0.3:
            e = bn("*", num(rng.choice(["2", "0.5", "3"])), e)
        if rng.random() < 0.15:
            e = bn("*", e, unit(rng.choice(["m", "s", "kg", "J", "N"])))
        return e
    if r < 0.45:   # sum of two terms of the same shape
        e, vec = gen_monomial(rng, params)
        f, _ = gen_monomial(rng, [p for p in vec], exps=vec)
        return bn(rng.choice(["+", "-"]), e, bn("*", num("2"), f))
    if r < 0.55:   # quotient
        return bn("/", gen_body(rng, params, depth + 1), gen_body(rng, params, depth + 1))
    if r < 0.70:   # conditional
        a, b = rng.choice(params), rng.choice(params)
        x = gen_body(rng, params, depth + 1)
        return ("if", bn(rng.choice([">", "<", "<=", "=="]), idn(a), idn(b)), x,
                bn("*", num("2"), x) if rng.random() < 0.7 else gen_body(rng, params, depth + 1))
    if r < 0.90:   # generic library calls
        f = rng.choice(["sqrt", "sqr", "abs", "cbrt", "hypot2"])
        if f == "hypot2":
            a = gen_body(rng, params, depth + 1)
            return ("call", f, [a, bn("*", num("3"), a) if rng.random() < 0.8 else gen_body(rng, params, depth + 1)])
        return ("call", f, [gen_body(rng, params, depth + 1)])
    return bn("+", idn(rng.choice(params)), idn(rng.choice(params)))


ARGS = [("1 m", bn("*", num("1"), unit("m"))), ("2 s", bn("*", num("2"), unit("s"))),
        ("3 kg", bn("*", num("3"), unit("kg"))), ("2", num("2")),
        ("4 m/s", bn("/", bn("*", num("4"), unit("m")), unit("s"))),
        ("5 m^2", bn("*", num("5"), bn("^", unit("m"), num("2")))),
        ("1 J", bn("*", num("1"), unit("J"))),
        ("2 m^3", bn("*", num("2"), bn("^", unit("m"), num("3")))),
        ("7 s^2", bn("*", num("7"), bn("^", unit("s"), num("2")))),
        ("1 m^6", bn("*", num("1"), bn("^", unit("m"), num("6")))),
        ("true", ("bool", True)), ("1 cm", bn("*", num("1"), unit("cm")))]


def gen_case(rng, k):
    """-> (defs, calls): defs is a list of statements whose last one is the unannotated function
    under test (helpers it calls come first); the families cover every way a parameter can be used:
    arithmetic, only compared with == / !=, only ordered, unused, only passed on, through
    where-locals, as a condition, inside lists"""
    np_ = rng.choice([1, 2, 2, 3, 3])
    params = ["pa%d" % i for i in range(np_)]
    fname = "fq%d" % k
    defs = []
    locs = []
    fam = rng.choice(["arith", "arith", "arith", "eqonly", "eqonly", "unused", "passon", "where", "boolp", "lists",
                      "ordonly", "eqlit", "recursive", "partial"])
    tparams, annots = [], {}
    if fam == "partial":       # declared type parameters (any order of names) annotate some parameters,
        # the other parameters and the return type are inferred (echo must name every variable consistently)
        pool = rng.sample(["Z", "D", "A", "M", "B", "X", "T1", "Q"], rng.randint(1, min(3, np_ + 1)))
        who = rng.sample(params, min(len(params), len(pool)))
        for tp, pa in zip(pool, who):
            if rng.random() < 0.85:
                annots[pa] = ("dim", ("name", tp)) if rng.random() < 0.8 else ("dim", ("pow", ("name", tp), "2"))
        tparams = [(tp, True) for tp in pool]
        body = gen_body(rng, params)
    elif fam == "arith" or np_ == 1 and fam in ("eqonly", "ordonly", "unused"):
        body = gen_body(rng, params)
    elif fam == "eqonly":      # some parameters occur only as operands of == / !=
        a, b = params[0], params[1]
        rest = params[2:] or [rng.choice(params)] if rng.random() < 0.3 else params[2:]
        x = gen_body(rng, rest) if rest else num(rng.choice(["1", "2"]))
        y = bn("*", num("2"), x) if rng.random() < 0.7 else (gen_body(rng, rest) if rest else num("0"))
        body = ("if", bn(rng.choice(["==", "!="]), idn(a), idn(b)), x, y)
    elif fam == "ordonly":     # only ordered against each other (needs Dim, no arithmetic)
        a, b = params[0], params[1]
        rest = params[2:]
        x = gen_body(rng, rest) if rest else num("1")
        body = ("if", bn(rng.choice(["<", ">=", ">", "<="]), idn(a), idn(b)), x, bn("*", num("3"), x))
    elif fam == "eqlit":       # compared with a concrete quantity
        a = params[0]
        q = rng.choice(ARGS[:10])[1]
        x = gen_body(rng, params[1:]) if params[1:] else num("1")
        body = ("if", bn(rng.choice(["==", "!=", "<"]), idn(a), q), x, bn("*", num("2"), x))
    elif fam == "unused":      # at least one parameter does not occur in the body at all
        used = params[1:]
        body = gen_body(rng, used)
    elif fam == "passon":      # parameters only handed to another (user or library) function
        hname = "hq%d" % k
        hk = rng.choice(["id", "mul", "cmp", "lib"])
        if hk == "id":
            defs.append(("fn", hname, [], [("pb0", None)], None, [], idn("pb0")))
            body = ("call", hname, [idn(params[0])])
        elif hk == "mul":
            defs.append(("fn", hname, [], [("pb0", None), ("pb1", None)], None, [], bn("*", idn("pb0"), bn("^", idn("pb1"), exp_expr(rng.choice(EXPS), rng)))))
            body = ("call", hname, [idn(params[0]), idn(params[-1])])
        elif hk == "cmp":
            defs.append(("fn", hname, [], [("pb0", None), ("pb1", None)], None, [], bn("==", idn("pb0"), idn("pb1"))))
            body = ("if", ("call", hname, [idn(params[0]), idn(params[-1])]), num("1"), num("2"))
        else:
            body = ("call", rng.choice(["abs", "sqrt", "sqr", "cbrt"]), [idn(params[0])])
        if len(params) > 1 and rng.random() < 0.5:
            body = bn("*", body, idn(params[1]))
    elif fam == "recursive":   # the function calls itself (its own type is not yet generalised there)
        cnt = params[-1]
        step = [idn(p) if rng.random() < 0.5 else bn("*", idn(p), num("2")) for p in params[:-1]]
        if step and rng.random() < 0.3:
            step[0] = bn("*", step[0], step[0])          # forces that parameter to be dimensionless
        base = gen_body(rng, params[:-1]) if params[:-1] else num("1")
        rec = ("call", fname, step + [bn("-", idn(cnt), num("1"))])
        body = ("if", bn("<=", idn(cnt), num("0")), base, rec if rng.random() < 0.6 else bn("+", rec, base))
    elif fam == "where":       # parameters reach the body only through where-locals
        locs.append(("wl0", None, gen_body(rng, params[:1])))
        if len(params) > 1:
            locs.append(("wl1", None, bn("*", idn("wl0"), gen_body(rng, params[1:]))))
        body = rng.choice([idn(locs[-1][0]), bn("*", num("2"), idn(locs[-1][0])), bn("+", idn(locs[-1][0]), idn(locs[-1][0]))])
    elif fam == "boolp":       # a parameter is a condition
        x = gen_body(rng, params[1:]) if params[1:] else num("1")
        c = idn(params[0]) if rng.random() < 0.6 else bn("&&", idn(params[0]), ("bool", True))
        body = ("if", c, x, bn("*", num("2"), x))
    else:                      # lists
        x = gen_body(rng, params[:1])
        body = rng.choice([("list", [x, bn("*", num("2"), x)]), ("call", "mean", [("list", [x, x])]),
                           ("list", [idn(p) for p in params])])
    fn = ("fn", fname, tparams, [(p, annots.get(p)) for p in params], None, locs, body)
    defs.append(fn)
    calls = []
    for _ in range(5):
        calls.append(("expr", ("call", fname, [rng.choice(ARGS)[1] for _ in params])))
    return defs, calls, fam


def defs_src(defs):
    return "\n".join(D.src_stmt(d) for d in defs)


def unesc(s):
    out, i = [], 0
    m = {"n": "\n", "t": "\t", "a": "&", "s": ";", "\\": "\\"}
    while i < len(s):
        if s[i] == "\\" and i + 1 < len(s):
            out.append(m.get(s[i + 1], s[i + 1]))
            i += 2
        else:
            out.append(s[i])
            i += 1
    return "".join(out)


def extra_field(extra, key):
    m = re.search(r"(?:^|;)%s=([^;]*)" % key, extra)
    return m.group(1) if m else None


def run_sessions(binary, sessions):
    """sessions: list of list of source strings (inputs).  -> list of (tcs, extras)"""
    lines = ["\x1e".join(s.replace("\n", "\x1f") for s in sess) for sess in sessions]
    out = common.run_harness(binary, "dim", lines, timeout=900)
    res = []
    for o in out:
        if o is None or o.startswith("@@") or "\t" not in o:
            res.append(([o or "@@NONE"], [""]))
            continue
        tc, ex = o.split("\t", 1)
        res.append((tc.split("&"), ex.split("&")))
    return res


def verdict(tc):
    """what the property compares at a call site: accepted with this result type, or rejected
    (the error family may differ between the two versions)"""
    return tc if tc.startswith("ok|") else ("err" if tc.startswith("err|") else tc)


def oracle_one(binary, fn_src, call_srcs):
    """the property on the implementation. returns None or a dict describing the failure"""
    (tcs, exs), = run_sessions(binary, [[fn_src] + call_srcs])
    if not tcs[0].startswith("ok|"):
        return None  # the unannotated function is not accepted: nothing to check
    pp = unesc(extra_field(exs[0], "pp") or "").replace("\x1f", "\n")
    if "fn " not in pp:
        return dict(kind="no echoed definition", observed=exs[0])
    (tcs2, exs2), = run_sessions(binary, [[pp] + call_srcs])
    if not tcs2[0].startswith("ok|"):
        return dict(kind="printed signature is not accepted as annotation", printed=pp,
                    observed=tcs2[0] + " " + (extra_field(exs2[0], "out") or ""))
    for n, c in enumerate(call_srcs):
        a = tcs[n + 1] if n + 1 < len(tcs) else "?"
        b = tcs2[n + 1] if n + 1 < len(tcs2) else "?"
        if verdict(a) != verdict(b):
            return dict(kind="call site behaves differently for the inferred and the annotated version",
                        printed=pp, call=c, inferred=a, annotated=b)
    return None


def known_match(known, failure):
    for f in known:
        if f.get("property") != "C16" or f.get("status") != "open":
            continue
        m = f.get("matcher", {})
        if m.get("kind") == "printed-signature-contains" and failure.get("kind") == m.get("failure_kind") \
                and m["text"] in failure.get("printed", "").split(" = ")[0]:
            return f
        if m.get("kind") == "printed-signature-matches" and failure.get("kind") == m.get("failure_kind"):
            printed = failure.get("printed", "")
            if m.get("scope") == "whole":
                text = printed
            elif m.get("scope") == "annotations":
                # every place where the echo prints a type: the signature and the annotation of each where-local
                text = "\n".join([printed.split(" = ")[0]] +
                                 re.findall(r"\n\s*(?:where|and) \w+: ([^=\n]*) =", printed))
            else:
                text = printed.split(" = ")[0]
            if re.search(m["regex"], text):
                return f
    return None


def run(chk):
    binary, _ = common.build_harness()
    info = D.translate_prelude(binary)
    proved = chk.prove("Props.C16", THEOREMS,
                       ["theories/Props/C16.vo", "theories/Dim/Exec.vo", "theories/Gen/PreludeDims.vo"])
    chk.trusted += [
        "model Dim/Model.v + Dim/Infer.v: hand port of typechecker/{mod,constraints,substitutions,type_scheme}.rs (validated by correspondence, not proved against Rust)",
        "hook numbat::verif::dim (raw TypeScheme text, name counter, dimension registry) and translator Gen/PreludeDims.v",
        "Statement::pretty_print output taken as 'the signature the checker printed'",
    ]
    quick = chk.tier == "quick"
    known = common.load_known()
    cases = []
    corpus_path = os.path.join(common.VERIF, "corpus", "c16.json")
    if os.path.exists(corpus_path):
        for c in json.load(open(corpus_path)):
            cases.append(([D.from_json(x) for x in c["defs"]], [D.from_json(x) for x in c["calls"]], "corpus"))
    n = 200 if quick else 6000
    for k in range(n):
        defs, calls, fam = gen_case(chk.rng, k)
        cases.append((defs, calls, fam))
    # multi-name class: closed dimension with several registered names in the signature
    for k, u in enumerate(["J", "N", "Hz"]):
        fn = ("fn", "fm%d" % k, [], [("pa0", None)], None, [], bn("*", num("2"), unit(u)))
        cases.append(([fn], [("expr", ("call", "fm%d" % k, [num("1")]))], "multi-name"))

    # ---- implementation: inferred version with its call sites (one session per case)
    sessions = [[defs_src(defs)] + [D.src_stmt(c) for c in calls] for defs, calls, _ in cases]
    impl = run_sessions(binary, sessions)
    # ---- model correspondence on the definition + every call (each call is its own input: a
    #      rejected call must not hide the others)
    items, idx = [], []
    for n_, (defs, calls, _) in enumerate(cases):
        tcs = impl[n_][0]
        if not tcs or not tcs[0].startswith(("ok|", "err|")):
            continue
        items.append((D.coq_case([defs]), tcs[0]))
        idx.append((n_, -1))
        if tcs[0].startswith("ok|"):
            for j, c in enumerate(calls):
                if j + 1 < len(tcs):
                    items.append((D.coq_case([defs, [c]]), tcs[0] + "&" + tcs[j + 1]))
                    idx.append((n_, j))
    bad = common.coq_mismatches(IMPORTS, items, "c16", shard_size=120)
    bad = {k: v for k, v in bad.items() if "MODEL-UNSUPPORTED" not in v}

    # ---- oracle: the echoed definition as annotation
    accepted = [n_ for n_ in range(len(cases)) if impl[n_][0][0].startswith("ok|")]
    pps = {}
    for n_ in accepted:
        pps[n_] = unesc(extra_field(impl[n_][1][0], "pp") or "").replace("\x1f", "\n")
    sessions2 = [[pps[n_]] + [D.src_stmt(c) for c in cases[n_][1]] for n_ in accepted]
    impl2 = run_sessions(binary, sessions2)
    failures = []
    poly = 0
    callcmp = 0
    verdicts = collections.Counter()
    for n_, (tcs2, exs2) in zip(accepted, impl2):
        tcs = impl[n_][0]
        if re.search(r"\|Q[1-9]", tcs[0]):
            poly += 1
        f = None
        if not tcs2[0].startswith("ok|"):
            f = dict(kind="printed signature is not accepted as annotation", printed=pps[n_],
                     observed=tcs2[0] + " " + (extra_field(exs2[0], "out") or ""))
        else:
            for j in range(len(cases[n_][1])):
                a = tcs[j + 1] if j + 1 < len(tcs) else "?"
                b = tcs2[j + 1] if j + 1 < len(tcs2) else "?"
                callcmp += 1
                verdicts[a.split("|")[0] + ("|" + a.split("|")[1] if a.startswith("err") else "")] += 1
                if verdict(a) != verdict(b):
                    f = dict(kind="call site behaves differently for the inferred and the annotated version",
                             printed=pps[n_], call=D.src_stmt(cases[n_][1][j]), inferred=a, annotated=b)
                    break
        if f:
            f["function"] = defs_src(cases[n_][0])
            failures.append((n_, f))

    reported = 0
    seen_known = set()
    for n_, f in failures:
        kf = known_match(known, f)
        if kf:
            if kf["id"] not in seen_known:
                chk.known(kf["id"], "%s: %s -> printed %r" % (kf["id"], f["function"], f["printed"]))
                seen_known.add(kf["id"])
            else:
                chk.known_hits.append(kf["id"])
            continue
        if reported >= 3:
            continue
        # shrink the call list
        fn_src = f["function"]
        calls = [D.src_stmt(c) for c in cases[n_][1]]

        def still(cs):
            return oracle_one(binary, fn_src, cs) is not None
        small = common.shrink_list(calls, still) if len(calls) > 1 and still(calls) else calls
        g = oracle_one(binary, fn_src, small) or f
        g["function"] = fn_src
        g["calls"] = small
        g["replay"] = "printf '%s' | harness/target/debug/nbverif dim   (inputs separated by \\x1e); then the same with the echoed definition"
        chk.violation(g)
        reported += 1
    if not reported and (bad or not proved):
        k = min(bad) if bad else None
        chk.violation({
            "kind": "proof or correspondence no longer checks",
            "theorem_or_correspondence": ("correspondence Dim/Infer.v vs numbat type checker (raw inferred scheme / call verdict)"
                                          if bad else "Props/C16.v: " + getattr(chk, "proof_failure", "?")),
            "mismatching_cases": len(bad),
            "first_case": None if k is None else {
                "function": defs_src(cases[idx[k][0]][0]),
                "call": None if idx[k][1] < 0 else D.src_stmt(cases[idx[k][0]][1][idx[k][1]]),
                "implementation": items[k][1], "model": bad[k]},
        }, found_input=False)

    distinct = set()
    for n_ in accepted:
        distinct.add(impl[n_][0][0])
    chk.cov.update({
        "evaluations": len(cases),
        "distinct_nontrivial": len([d for d in distinct if re.search(r"\|Q[1-9]", d)]),
        "rule": "seeded unannotated function bodies (monomials with rational / zero / composite exponents, sums of equal "
                "shapes, quotients, conditionals, calls to sqrt/sqr/abs/cbrt/hypot2; families in which parameters are only "
                "compared with == / !=, only ordered, compared with a literal, unused, only passed on to a user or library "
                "function, reach the body only through where-locals, are conditions, or are list elements; a family of partially annotated generic functions whose "
                "declared type parameters (in any order of names, possibly unused) annotate some parameters while the other "
                "parameters and the return type are inferred; 1-3 "
                "parameters) each with 6 call sites from a pool of "
                "concrete quantities; distinct = distinct raw inferred schemes; non-trivial = the inferred scheme "
                "quantifies over at least one variable",
        "families": dict(collections.Counter(c[2] for c in cases)),
        "functions_accepted": len(accepted),
        "functions_rejected": len(cases) - len(accepted),
        "polymorphic_functions": poly,
        "call_sites_compared": callcmp,
        "call_verdicts": dict(verdicts),
        "model_items": len(items),
        "model_mismatches": len(bad),
        "oracle_failures": len(failures),
        "exhaustive": False,
        "samples": [{"function": defs_src(cases[n_][0]), "inferred": impl[n_][0][0], "echo": pps.get(n_),
                     "calls": [D.src_stmt(c) for c in cases[n_][1]][:3], "call_results": impl[n_][0][1:4]}
                    for n_ in (accepted[:2] + accepted[-1:])],
    })
    chk.assumptions += ["numeric literals are short decimals whose f64 -> rational conversion is exact",
                        "function and parameter names do not clash with prelude identifiers"]


def replay(path):
    r = json.load(open(path))
    if "function" not in r or "calls" not in r:
        print(json.dumps(r, indent=1))
        return 0
    binary, _ = common.build_harness()
    f = oracle_one(binary, r["function"], r["calls"])
    print(json.dumps(f, indent=1, ensure_ascii=False) if f else "inferred and annotated versions agree")
    return 1 if f else 0
