"""C24 — every documentation example of the standard library type-checks and runs.

implementation: harness `examples` runs EVERY `@example("…")` snippet (numbat's own metadata:
        Context::functions()) in a session with `use prelude`, `use units::currencies` (test
        exchange rates) and `use <module>` where needed — the way the documentation generator
        (numbat/examples/inspect.rs) does.  A snippet that does not run is a violation.
model:  Pipeline/Glue.v composes the three executable models (Syntax lexer+parser, Dim type
        checker, VM compiler+machine).  For every snippet the transitive closure of the standard
        library *source definitions* it needs is extracted verbatim from numbat/modules/**/*.nbt,
        and parsed, type-checked, compiled and run by the models themselves.  Snippets whose closure
        stays inside the fragment (integers, booleans, strings, lists, generic and recursive
        functions, foreign list/string/number primitives) are "in fragment": for those
        Props/C24.v proves by vm_compute that all of them run (C24_in_fragment_partial), and the
        model's printed value is compared with the implementation's.
"""
import collections
import glob
import json
import os
import re

import common
from props import dimlib as D

MANIFEST = dict(
    category="proof",
    text="proof (partial). Every documentation example (@example) of every standard-library function — numbat's own "
         "metadata, 177 snippets — is executed on the real implementation in a session with prelude + currency units "
         "(test exchange rates) + the function's module; all must type-check and evaluate. Machine-checked part "
         "(C24_in_fragment_partial, Coq vm_compute over a finite generated list): for the snippets whose needed library "
         "definitions (extracted verbatim from numbat/modules/**/*.nbt, transitive closure) stay inside the fragment of the "
         "composed pipeline model — Syntax lexer/parser -> Dim type checker -> VM compiler/machine; scalars are exact "
         "rationals (decimal, hex, octal and binary literals; an operation whose f64 result would not be that exact rational, or "
         "whose decimal rendering needs more than 6 significant digits, is out of the fragment), booleans, strings with "
         "interpolation, lists, generic/recursive functions, `x -> f` and `x |> f(..)` calls, about 30 foreign primitives "
         "(lists, strings, rounding, abs/mod, error, parse of plain numbers, log2/log10 of exact powers); no units, no irrational or transcendental results, no NaN/inf, structs, "
         "function values, format specifiers, dates — the model parses, type-checks, compiles and runs library and snippet, "
         "and every one of them yields a value; that value is compared with the implementation's output. The share of "
         "snippets inside the fragment is measured on every run and written to the evidence (currently 69 of 177 = 39.0 %; "
         "the others use units, dates, function values or inexact floats); the rest is executed on the implementation only.",
    design_ref="design/dim.md (phase 5); properties.jsonl C24",
    note="Trusted: Coq kernel + vm_compute; the three hand-written models and the glue translations "
         "(Pipeline/Glue.v; not proved against each other beyond their own properties C10/C02/C09); the source "
         "extractor of library definitions; harness `examples`. Environment-dependent snippets (get_local_timezone, "
         "args) are executed too and currently pass.",
    technique="Coq vm_compute proof over generated finite example list + model/implementation correspondence + exhaustive execution of all snippets on the implementation",
)

THEOREMS = ["C24_in_fragment_partial"]
GEN = os.path.join(common.COQ, "theories", "Gen")
KEYWORDS = {"if", "then", "else", "true", "false", "fn", "let", "where", "and", "struct", "use", "unit", "dimension",
            "Scalar", "List", "Bool", "String", "Dim", "print", "assert", "assert_eq", "type", "DateTime", "Fn",
            "NaN", "inf"}


def unesc(s):
    return s.replace("\\n", "\n").replace("\\t", "\t").replace("\\\\", "\\")


def coq_str(s):
    """a Syntax.Token.str literal (list of code points)"""
    return "[" + "; ".join("%d%%N" % ord(c) for c in s) + "]%list"


def coq_string(s):
    return '"' + s.replace('"', '""') + '"'


def run_examples(binary):
    rc, out = common.sh([binary, "examples"], timeout=900)
    if rc != 0:
        raise common.Broken("nbverif examples failed: " + out[-1500:])
    fns, exs = {}, []
    for line in out.splitlines():
        if line.startswith("#fn "):
            _, mod, name = line.split(" ", 2)
            fns[name] = mod
        elif "\t" in line:
            p = line.split("\t")
            if len(p) >= 6:
                exs.append(dict(module=p[0], fn=p[1], idx=int(p[2]), code=unesc(p[3]), status=p[4], text=unesc(p[5])))
    return fns, exs


def library_sources(repo):
    """function name -> (source text of its definition incl. where-clauses, is_foreign)"""
    srcs = {}
    for path in sorted(glob.glob(os.path.join(repo, "numbat", "modules", "**", "*.nbt"), recursive=True)):
        lines = open(path, encoding="utf-8").read().split("\n")
        i = 0
        while i < len(lines):
            m = re.match(r"fn\s+([A-Za-z_][A-Za-z_0-9]*)", lines[i])
            if not m:
                i += 1
                continue
            j = i + 1
            while j < len(lines) and lines[j].strip() != "" and (lines[j][0] in " \t"):
                j += 1
            text = "\n".join(l for l in lines[i:j] if not l.strip().startswith("#"))
            srcs.setdefault(m.group(1), text)
            i = j
    return srcs


IDENT = re.compile(r"[A-Za-z_][A-Za-z_0-9]*")


NUMBER = re.compile(r"\b0x[0-9a-fA-F_]+|\b0b[01_]+|\b0o[0-7_]+|\b\d[\d_]*(?:\.\d[\d_]*)?(?:[eE][-+]?\d+)?")


def _string_code(m):
    """what is code inside a string literal: the expressions of its {…} interpolations"""
    return " " + " ".join(part.split(":")[0] for part in re.findall(r"\{([^{}]*)\}", m.group(0))) + " "


def idents(text):
    text = re.sub(r'"(?:[^"\\]|\\.)*"', _string_code, text)
    text = re.sub(r"#[^\n]*", "", text)          # comments (strings are gone)
    text = NUMBER.sub(" ", text)
    return set(IDENT.findall(text))


def _param_list(src):
    """text between the parentheses of the parameter list (types may contain parentheses: Fn[(A) -> B])"""
    m = re.match(r"fn\s+\w+\s*(?:<([^>]*)>)?\s*\(", src, re.S)
    if not m:
        return None, None
    depth, i = 1, m.end()
    while i < len(src) and depth:
        depth += {"(": 1, ")": -1}.get(src[i], 0)
        i += 1
    return m.group(1) or "", src[m.end():i - 1]


def _split_top(text):
    out, depth, cur = [], 0, ""
    for c in text.replace("->", "\u2192"):
        if c in "([<":
            depth += 1
        elif c in ")]>":
            depth -= 1
        if c == "," and depth == 0:
            out.append(cur)
            cur = ""
        else:
            cur += c
    return out + [cur]


def bound_names(src):
    """parameters, type parameters and where-locals of a definition"""
    names = set()
    tps, ps = _param_list(src)
    if ps is not None:
        for tp in tps.split(","):
            names |= set(IDENT.findall(tp.split(":")[0]))
        for p in _split_top(ps):
            n = IDENT.findall(p.split(":")[0])
            names |= set(n[:1])
    for w in re.finditer(r"\b(?:where|and)\s+([A-Za-z_]\w*)\s*(?::[^=]*)?=", src):
        names.add(w.group(1))
    return names


def closure(code, srcs, local_fns=()):
    """library definitions needed by `code`, dependency-first; None if some identifier is not a
    library function (a variable, unit, constant, … — outside the pipeline fragment)"""
    order, seen = [], set()
    ok = [True]

    def visit(name):
        if name in seen:
            return
        seen.add(name)
        src = srcs[name]
        free = idents(src) - bound_names(src) - KEYWORDS - {name}
        for d in sorted(free):
            if d in srcs:
                visit(d)
            else:
                ok[0] = False
        order.append(name)

    local = set(local_fns)
    for l in code.split("\n"):
        m = re.match(r"fn\s+(\w+)", l)
        if m:
            local.add(m.group(1))
    bound = set()
    for l in code.split("\n"):
        if l.startswith("fn "):
            bound |= bound_names(l)
        m = re.match(r"let\s+(\w+)", l)
        if m:
            bound.add(m.group(1))
    for d in sorted(idents(code) - KEYWORDS - local - bound):
        if d in srcs:
            visit(d)
        else:
            ok[0] = False
    return order if ok[0] else None


def write_if_changed(path, text):
    os.makedirs(os.path.dirname(path), exist_ok=True)
    if os.path.exists(path) and open(path).read() == text:
        return False
    open(path, "w").write(text)
    return True


def gen_examples_v(exs):
    L = ["(* GENERATED by tools/props/c24.py from `nbverif examples` (numbat's own example metadata) — never edit. *)",
         "From Coq Require Import String List NArith.", "Import ListNotations.", "Open Scope string_scope.", "",
         "(* module, function, snippet *)",
         "Definition gen_examples : list (string * string * list N) := ["]
    L.append(";\n".join("  (%s, %s, %s)" % (coq_string(e["module"]), coq_string(e["fn"]), coq_str(e["code"])) for e in exs))
    L.append("]%list.")
    return "\n".join(L) + "\n"


def gen_fragment_v(frag, srcs):
    used = []
    for e, order, _ in frag:
        for n in order:
            if n not in used:
                used.append(n)
    L = ["(* GENERATED by tools/props/c24.py — the documentation examples inside the pipeline fragment, each with the",
         "   standard-library definitions it needs (verbatim source text from numbat/modules, dependency order). *)",
         "From Coq Require Import String List NArith.", "Import ListNotations.", ""]
    for n in used:
        L.append("Definition lib_%s : list N := %s." % (n, coq_str(srcs[n])))
    L.append("")
    L.append("Definition gen_examples_in_fragment : list (list (list N) * list N) := [")
    L.append(";\n".join("  ([%s]%%list, %s)" % ("; ".join("lib_" + n for n in order), coq_str(e["code"]))
                        for e, order, _ in frag))
    L.append("]%list.")
    return "\n".join(L) + "\n"


def model_outcomes(cands, srcs):
    """pass 1: what the pipeline model says for each candidate"""
    os.makedirs(common.WORK, exist_ok=True)
    path = os.path.join(common.WORK, "C24_pass1.v")
    with open(path, "w") as f:
        f.write("From Coq Require Import String List NArith.\nFrom NV Require Import Pipeline.Glue.\nImport ListNotations.\n")
        f.write("Set Printing Width 1000000. Set Printing Depth 1000000.\n")
        used = []
        for e, order in cands:
            for n in order:
                if n not in used:
                    used.append(n)
        for n in used:
            f.write("Definition lib_%s : list N := %s.\n" % (n, coq_str(srcs[n])))
        f.write("Open Scope string_scope.\nDefinition outs : list string := [\n")
        f.write(";\n".join("show_poutcome (interpret_model_strict [%s]%%list %s)" % (
            "; ".join("lib_" + n for n in order), coq_str(e["code"])) for e, order in cands))
        f.write("\n]%list.\nEval vm_compute in outs.\n")
    rc, out = common.sh(["coqc", "-noglob", "-Q", os.path.join(common.COQ, "theories"), "NV", path],
                        cwd=common.WORK, timeout=900)
    for ext in (".vo", ".vok", ".vos", ".glob"):
        try:
            os.remove(path[:-2] + ext)
        except OSError:
            pass
    if rc != 0:
        raise common.Broken("coqc failed on C24_pass1.v:\n" + out[-2000:])
    res = re.findall(r'"((?:[^"]|"")*)"', out[out.index("="):])
    res = [r.replace('""', '"') for r in res]
    if len(res) != len(cands):
        raise common.Broken("C24 pass 1: %d outcomes for %d candidates" % (len(res), len(cands)))
    return res


def run(chk):
    binary, _ = common.build_harness()
    fns, exs = run_examples(binary)
    srcs = library_sources(common.REPO)
    chk.trusted += [
        "harness `examples`: numbat's own example metadata (Context::functions), session = prelude + units::currencies (test rates) + the function's module",
        "Pipeline/Glue.v: hand-written translations between the three models; library definitions are the verbatim .nbt source text",
        "tools/props/c24.py library_sources/closure: line-based extraction of `fn` definitions and their free identifiers",
    ]
    # ---- the property on the implementation: every snippet runs
    failed = [e for e in exs if e["status"] != "ok"]
    known = [f for f in common.load_known() if f.get("property") == "C24" and f.get("status") == "open"]
    for e in failed[:5]:
        kf = next((f for f in known if f.get("matcher", {}).get("input") == e["code"]), None)
        if kf:
            chk.known(kf["id"], "%s: example of %s: %s -> %s" % (kf["id"], e["fn"], e["code"], e["status"]))
            continue
        chk.violation({"kind": "a documentation example does not run", "module": e["module"], "function": e["fn"],
                       "input": e["code"], "observed": e["status"] + " " + e["text"][:300],
                       "replay": "harness/target/debug/nbverif examples | grep -F '<function>'"})
    # ---- candidates for the model: closure of library definitions consists of functions only
    write_if_changed(os.path.join(GEN, "Examples.v"), gen_examples_v(exs))
    ok_build, log = common.build_coq(["theories/Pipeline/Glue.vo", "theories/Gen/Examples.vo"])
    if not ok_build:
        raise common.Broken("Pipeline/Glue.v does not build:\n" + log[-2000:])
    cands = []
    for e in exs:
        order = closure(e["code"], srcs)
        if order is not None:
            cands.append((e, order))
    outs = model_outcomes(cands, srcs) if cands else []
    frag = [(e, order, o) for (e, order), o in zip(cands, outs) if o.startswith("ok:")]
    model_errors = [(e, order, o) for (e, order), o in zip(cands, outs)
                    if not o.startswith("ok:") and o not in ("out-of-fragment",)]
    write_if_changed(os.path.join(GEN, "ExamplesFragment.v"), gen_fragment_v(frag, srcs))
    proved = chk.prove("Props.C24", THEOREMS, ["theories/Props/C24.vo"])
    # ---- correspondence: the model's value vs the implementation's
    mism = []
    for e, order, o in frag:
        if e["status"] == "ok" and o != "ok:" + e["text"]:
            mism.append((e, o))
    for e, order, o in model_errors:
        if e["status"] == "ok":
            mism.append((e, o))
    if (mism or not proved) and not chk.violations:
        e, o = mism[0] if mism else (None, None)
        chk.violation({
            "kind": "proof or correspondence no longer checks",
            "theorem_or_correspondence": ("pipeline model vs implementation on a documentation example" if mism
                                          else "Props/C24.v: " + getattr(chk, "proof_failure", "?")),
            "mismatching_cases": len(mism),
            "first_case": None if e is None else {"function": e["fn"], "input": e["code"], "implementation": e["status"] + ":" + e["text"], "model": o},
        }, found_input=False)
    mods = collections.Counter(e["module"] for e in exs)
    chk.cov.update({
        "evaluations": len(exs),
        "distinct_nontrivial": len(set(e["code"] for e in exs)),
        "rule": "every @example snippet of every standard-library function (numbat's metadata), each executed in its own "
                "session clone; distinct = distinct snippet texts; all are non-trivial (they call a library function)",
        "exhaustive": True,
        "snippets": len(exs), "snippets_ok_on_implementation": len(exs) - len(failed),
        "functions_with_examples": len(set(e["fn"] for e in exs)), "library_functions": len(fns),
        "candidates_closure_functions_only": len(cands),
        "in_fragment": len(frag), "in_fragment_share": round(len(frag) / max(1, len(exs)), 3),
        "model_outcomes": dict(collections.Counter(o.split(":")[0] if not o.startswith("err") else ":".join(o.split(":")[:3]) for o in outs)),
        "library_definitions_run_through_the_model": len(set(n for _, order, _ in frag for n in order)),
        "model_value_mismatches": len(mism),
        "modules": dict(mods),
        "samples": [{"function": e["fn"], "input": e["code"], "implementation": e["text"], "model": o,
                     "library_closure": order} for e, order, o in frag[:4]] or
                   [{"function": e["fn"], "input": e["code"], "implementation": e["text"]} for e in exs[:3]],
    })
    chk.assumptions += ["test exchange rates stand in for live currency data",
                        "the model fragment has exact rational scalars only; examples with units, inexact floats, dates or function values are executed on the implementation only",
                        "interpolated strings are type-checked through the pseudo foreign function `{}<T>(x: T) -> String` (Pipeline/Glue.v tc_interp)"]


def replay(path):
    r = json.load(open(path))
    print(json.dumps(r, indent=1, ensure_ascii=False))
    if "input" not in r:
        return 0
    binary, _ = common.build_harness()
    _, exs = run_examples(binary)
    bad = [e for e in exs if e["code"] == r["input"] and e["status"] != "ok"]
    print("still failing" if bad else "runs now")
    return 1 if bad else 0
