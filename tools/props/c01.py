"""C01 — accepted programs never go wrong dimensionally at run time.

proof:  coq/theories/Props/C01.v (C01_binop_agree_partial) + the static half Props/C02.v
        (C02_solver_sound).  PARTIAL: the lifting to whole programs is C01_sound_full : Prop.
tie:    model correspondence on the static side (every generated program through Dim/Infer.v and
        through the real checker: raw type scheme of every statement), and the
oracle: the property itself on the real implementation — every accepted generated program is
        run; the run must not end in a unit-incompatibility error, and the raw (unsimplified) value
        of every global read through the hook numbat::verif::dim::raw_global_text must carry a unit
        whose physical dimension (from the unit definitions and the declared dimension of each base
        unit) equals the type the checker inferred for that global.
"""
import collections
import json
import os
import re
from fractions import Fraction

import common
from props import dimlib as D

MANIFEST = dict(
    category="proof",
    text="proof (partial). Machine-checked (Coq): for every binary operator of the arithmetic core applied to operands "
         "with closed dimension types, acceptance by the checker's rule implies that the run-time rule on the "
         "dimensions of the operand units does not fail with IncompatibleUnits and yields exactly the static type, "
         "under ExpAgree (run-time exponent = statically evaluated exponent) (C01_binop_agree_partial), and its lifting "
         "by induction to whole expression trees of the arithmetic fragment over a closed monomorphic environment "
         "(C01_expr_agree_partial: accepted => type is a variable-free dimension d and run-time unit dimension is "
         "exactly d, never IncompatibleUnits), and to programs (C01_program_sound_partial: every accepted sequence of "
         "let definitions and expression statements of the fragment over a growing monomorphic environment, including "
         "re-bound names, runs without unit incompatibility and every global's run-time unit dimension equals its "
         "reported type; a name resolves to its latest binding); these are closed under the global context. "
         "Since the repair of finding C01-exponent-f64 the VM loads to_f64 of the checker's exact exponent and "
         "converts it back with Ratio::from_f64; Dim/RunFixed.v models that on the kernel's primitive binary64 floats "
         "(port of num-rational's approximate_float), and C01_expr_agree_fixed_partial / "
         "C01_program_sound_fixed_partial are the same two statements for that run time WITHOUT the ExpAgree "
         "hypothesis, under the computable premise exps_rt (every constant exponent survives the f64 round trip; "
         "not true of all rationals - Example C01_roundtrip_not_total). The former theorem C01_refuted_exponent is "
         "now the regression Example C01_exponent_regression ((m^2)^(0.1+0.2): f64 evaluation gives "
         "1125899906842624/3752999689475413, the repaired path gives 3/10 and `+ m^(3/5)` is compatible). These depend on the "
         "kernel's primitive float/int63 operations only; the static types come from the "
         "solver proved sound in C02_solver_sound. NOT proved: function definitions and calls, generic calls, conditionals, structs, "
         "lists (C01_sound_full : Prop). That part is decided on "
         "every run by an oracle on the real implementation: generated accepted programs (arithmetic with prefixes, "
         "integer/fractional/composite constant exponents, derived units and dimensions, generic and inferred "
         "functions, where-clauses, conditionals, lists) are executed, no IncompatibleUnits-type run-time error may "
         "occur, and the raw unit of every global (hook) must have the inferred dimension. Two confirmed violation "
         "classes are open findings (C01-zero-unitless, C01-duplicate-base-unit); three are "
         "repaired (C01-zero-compare, C01-funref-rebinding, C01-exponent-f64) and their witnesses run as regression inputs.",
    design_ref="DESIGN.md §6 C01, §7 #1 #2; design/dim.md",
    note="Trusted: Coq kernel + vm_compute; hand-written model; hooks numbat::verif::dim (raw global value, unit "
         "dimension computed from the unit registry); Python float arithmetic = IEEE f64 for the finding matcher.",
    technique="Coq proof (per-operator static/run-time agreement) + model correspondence + run-time oracle through hooks",
)

THEOREMS = ["C01_binop_agree_partial", "C01_expr_agree_partial", "C01_program_sound_partial",
            "C01_expr_agree_fixed_partial", "C01_program_sound_fixed_partial"]
# Print Assumptions lists, by short name, the kernel primitives (not axioms) the float-exact theorems use.  coqchk -o
# (thorough tier) instead lists everything axiom-like in the whole loaded cone: every primitive of PrimFloat /
# PrimInt63 and the standard library's specification axioms of the primitive integers (Uint63.*_spec, loaded through
# Coq.Floats.FloatOps, which Dim/FloatExact.v needs for Prim2SF / SF2Prim).  Dim/FloatExact.v deliberately does not
# load Coq.Floats.Floats, so FloatAxioms, FloatLemmas, Psatz and the Reals axioms stay out of the cone.
_PRIMS = ("PrimFloat.Leibniz.eqb PrimFloat.abs PrimFloat.add PrimFloat.classify PrimFloat.compare PrimFloat.div "
          "PrimFloat.eqb PrimFloat.float PrimFloat.frshiftexp PrimFloat.ldshiftexp PrimFloat.leb PrimFloat.ltb "
          "PrimFloat.mul PrimFloat.next_down PrimFloat.next_up PrimFloat.normfr_mantissa PrimFloat.of_uint63 "
          "PrimFloat.opp PrimFloat.sqrt PrimFloat.sub PrimInt63.add PrimInt63.addc PrimInt63.addcarryc "
          "PrimInt63.addmuldiv PrimInt63.asr PrimInt63.compare PrimInt63.compares PrimInt63.div PrimInt63.diveucl "
          "PrimInt63.diveucl_21 PrimInt63.divs PrimInt63.eqb PrimInt63.head0 PrimInt63.int PrimInt63.land "
          "PrimInt63.leb PrimInt63.lesb PrimInt63.lor PrimInt63.lsl PrimInt63.lsr PrimInt63.ltb PrimInt63.ltsb "
          "PrimInt63.lxor PrimInt63.mod PrimInt63.mods PrimInt63.mul PrimInt63.mulc PrimInt63.sub PrimInt63.subc "
          "PrimInt63.subcarryc PrimInt63.tail0").split()
_UINT63_SPECS = ("Uint63.add_spec Uint63.addc_def_spec Uint63.addcarryc_def_spec Uint63.addmuldiv_def_spec "
                 "Uint63.compare_def_spec Uint63.div_spec Uint63.diveucl_21_spec Uint63.diveucl_def_spec "
                 "Uint63.eqb_correct Uint63.eqb_refl Uint63.head0_spec Uint63.land_spec Uint63.leb_spec "
                 "Uint63.lor_spec Uint63.lsl_spec Uint63.lsr_spec Uint63.ltb_spec Uint63.lxor_spec Uint63.mod_spec "
                 "Uint63.mul_spec Uint63.mulc_spec Uint63.of_to_Z Uint63.sub_spec Uint63.subc_def_spec "
                 "Uint63.subcarryc_def_spec Uint63.tail0_spec").split()
ALLOWED_AXIOMS = _PRIMS + _UINT63_SPECS
IMPORTS = ["Dim.Model", "Dim.Infer", "Dim.Exec", "Gen.PreludeDims"]

# run-time error kinds that mean "went wrong dimensionally"
BAD_RT = ("IncompatibleUnits", "QuantityError", "UnitRegistryError")

FUNREF = ("fn f(x: Length) -> Length = x\nlet gg = f\nfn f(x: Time) -> Time = x + 1 s\ngg(1 m)")

num = D.num if hasattr(D, "num") else (lambda s: ("num", s))


def bn(o, a, b):
    return ("bin", o, a, b)


def lit_frac(e):
    """exact value and f64 value of a constant expression, or None"""
    k = e[0]
    if k == "num":
        return Fraction(e[1]), float(e[1])
    if k == "un" and e[1] == "neg":
        r = lit_frac(e[2])
        return None if r is None else (-r[0], -r[1])
    if k == "bin" and e[1] in "+-*/":
        a, b = lit_frac(e[2]), lit_frac(e[3])
        if a is None or b is None:
            return None
        try:
            if e[1] == "+":
                return a[0] + b[0], a[1] + b[1]
            if e[1] == "-":
                return a[0] - b[0], a[1] - b[1]
            if e[1] == "*":
                return a[0] * b[0], a[1] * b[1]
            return a[0] / b[0], a[1] / b[1]
        except ZeroDivisionError:
            return None
    return None


def f64_exponent_differs(x):
    """shape predicate of C01-exponent-f64: some power whose constant exponent, evaluated in f64
    as the VM does, is not the f64 nearest to its exact rational value"""
    if isinstance(x, (list, tuple)):
        if len(x) == 4 and x[0] == "bin" and x[1] == "^":
            r = lit_frac(x[3])
            if r is not None and r[0].denominator != 1 and float(r[0]) != r[1]:
                return True
        return any(f64_exponent_differs(y) for y in x)
    return False


def zero_operand_in_definition(src, name):
    """C01-zero-unitless, second shape: the (latest) definition of the global contains the polymorphic literal 0 as
    an operand of + or - (add/sub return the other operand when one side is zero: `(3 Hz^-1 - 3 s) + 0` is the
    unitless literal at run time)"""
    defs = re.findall(r"(?m)^let %s(?:: [^=\n]*)? = (.*)$" % re.escape(name), src)
    if not defs:
        return False
    e = defs[-1]
    return re.search(r"[+-] 0\)|\(0 [+-] ", e) is not None or re.search(r"(?:^| )[+-] 0$|^0 [+-] ", e) is not None


def parse_raw(extra):
    m = re.search(r"(?:^|;)raw=(.*)$", extra)
    out = {}
    if not m:
        return out
    for part in m.group(1).split("!"):
        if "=" in part:
            n, t = part.split("=", 1)
            out[n] = t
    return out


def raw_dims(text):
    """all quantity dimensions inside a raw value text -> list of 'D[...]' strings ('?' unknown)"""
    if text.startswith("q|"):
        return [text.split("|")[2]]
    if text.startswith("l|"):
        body = text[2:]
        return [d for part in body.split("~") if part for d in raw_dims(part)]
    return []


def static_dim(scheme_text):
    """closed dimension inside the inferred scheme of a let: D[...] or list of it; None if not closed"""
    m = re.match(r"Q0\[\]:(?:L<)*(D\[[^\]]*\])>*$", scheme_text)
    return m.group(1) if m else None


def check_case(stmts_src, tcs, extras, names):
    """the oracle on one executed session (single input). returns failure dict or None"""
    tc, extra = tcs[0], extras[0]
    if not tc.startswith("ok|"):
        return None
    rt = re.search(r"rt=([^;]*)", extra).group(1)
    if rt in BAD_RT or "Incompatible" in rt:
        out = re.search(r"out=([^;]*)", extra).group(1)
        return dict(kind="accepted input fails at run time with a unit error", runtime_error=rt, message=out)
    if tc == "ok|?":
        return None  # other run-time error (division by zero, assertion, ...): documented, allowed
    raws = parse_raw(extra)
    last = {}
    for st in tc[3:].split("#"):        # a re-bound name: the latest binding is the one in force
        p = st.split("|")
        if p[0] == "let":
            last[p[1]] = p[2]
    for name, scheme in last.items():
        if name not in raws:
            continue
        sd = static_dim(scheme)
        if sd is None:
            continue
        for rd in raw_dims(raws[name]):
            if rd != "?" and rd != sd:
                return dict(kind="run-time unit of a global does not have the inferred dimension",
                            name=name, inferred=sd, runtime_unit=raws[name])
    return None


QUANTS = [("m", {"L": 1}), ("s", {"T": 1}), ("kg", {"M": 1}), ("J", {"E": 1}), ("N", {"F": 1}), ("km", {"L": 1}),
          ("ms", {"T": 1}), ("A", {"I": 1}), ("K", {"K": 1}), ("Hz", {"T": -1})]


def quant(rng, avoid=None, same=None):
    """a simple quantity expression; `avoid`: not of that dimension; `same`: of that dimension"""
    for _ in range(50):
        u, d = rng.choice(QUANTS)
        if avoid is not None and d == avoid:
            continue
        if same is not None and d != same:
            continue
        e = bn("*", ("num", rng.choice(["2", "3", "1.5", "4"])), ("unit", u))
        if rng.random() < 0.3:
            u2, d2 = rng.choice(QUANTS)
            if d2 != d:
                e = bn(rng.choice(["*", "/"]), e, ("unit", u2))
                d = None
        return e, d
    return bn("*", ("num", "2"), ("unit", "m")), {"L": 1}


def gen_rebind(rng, k):
    """globals and functions re-bound with the same or another dimension before / after the
    functions that read them; parameters and where-locals shadowing globals; every function result
    is bound to a global so that its run-time unit is compared with its inferred type"""
    g = "vg%d" % k
    idg = ("id", g)
    A, dA = quant(rng)
    B, dB = quant(rng, same=dA) if rng.random() < 0.25 and dA else quant(rng, avoid=dA)
    st = [("let", g, None, A)]
    n = [0]

    def bind(e):
        n[0] += 1
        st.append(("let", "vr%d_%d" % (k, n[0]), None, e))

    def reader(name):
        kind = rng.choice(["nullary", "param", "where", "where2", "cond"])
        if kind == "nullary":
            return ("fn", name, [], [], None, [], bn("*", ("num", "2"), idg)), []
        if kind == "param":
            return ("fn", name, [], [("pa0", None)], None, [], bn(rng.choice(["*", "/"]), ("id", "pa0"), idg)), [quant(rng)[0]]
        if kind == "where":
            return ("fn", name, [], [("pa0", None)], None, [("wl0", None, bn("^", idg, ("num", "2")))],
                    bn("*", ("id", "wl0"), ("id", "pa0"))), [quant(rng)[0]]
        if kind == "where2":
            return ("fn", name, [], [], None, [("wl0", None, idg), ("wl1", None, bn("+", ("id", "wl0"), idg))],
                    ("id", "wl1")), []
        return ("fn", name, [], [("pa0", None)], None, [],
                ("if", bn(">", ("id", "pa0"), idg), ("id", "pa0"), idg)), [bn("*", ("num", "5"), idg)]

    # a reader defined BEFORE the re-binding keeps seeing the first binding
    before = None
    if rng.random() < 0.6:
        before, bargs = reader("fb%d" % k)
        st.append(before)
        bind(("call", before[1], bargs))
    if rng.random() < 0.3:
        bind(idg)
    st.append(("let", g, None, B))            # re-bound at top level
    if rng.random() < 0.3:
        st.append(("let", g, None, quant(rng)[0]))   # and once more
    after, aargs = reader("fa%d" % k)          # a reader defined AFTER it must see the latest one
    st.append(after)
    bind(("call", after[1], aargs))
    bind(bn("*", idg, ("num", "2")))
    if before is not None:
        bind(("call", before[1], bargs))
    r = rng.random()
    if r < 0.35:      # parameter shadowing the global
        st.append(("fn", "fs%d" % k, [], [(g, None)], None, [], bn("*", idg, ("num", "2"))))
        bind(("call", "fs%d" % k, [quant(rng)[0]]))
        bind(("call", after[1], aargs))
    elif r < 0.6:     # where-local shadowing the global
        st.append(("fn", "fw%d" % k, [], [("pa0", None)], None, [(g, None, bn("^", ("id", "pa0"), ("num", "2")))],
                   bn("*", idg, ("id", "pa0"))))
        bind(("call", "fw%d" % k, [quant(rng)[0]]))
    elif r < 0.85:    # function re-defined with another body / dimension; old and new callers
        fr = "fr%d" % k
        st.append(("fn", fr, [], [("pa0", None)], None, [], bn("*", ("id", "pa0"), A)))
        st.append(("fn", "fc%d" % k, [], [], None, [], ("call", fr, [("num", "2")])))
        bind(("call", fr, [("num", "3")]))
        st.append(("fn", fr, [], [("pa0", None)], None, [], bn("*", ("id", "pa0"), B)))
        bind(("call", fr, [("num", "3")]))
        bind(("call", "fc%d" % k, []))
    return st


def gen_exponent_stream(rng, n):
    """`let va = (unit^a)^(c1 op c2)` with composite non-integer exponents, then a use"""
    out = []
    lits = ["0.1", "0.2", "0.3", "0.5", "0.25", "0.75", "1.5", "0.4", "0.6", "2", "3", "0.7", "1.1"]
    for k in range(n):
        u = rng.choice(["m", "s", "kg", "J"])
        a = rng.choice(["2", "3", "1", "4"])
        e = bn(rng.choice("+-*"), ("num", rng.choice(lits)), ("num", rng.choice(lits)))
        r = lit_frac(e)
        if r is None or r[0] == 0:
            continue
        st = ("let", "vx%d" % k, None, bn("^", bn("^", ("unit", u), ("num", a)), e))
        out.append([st])
    return out


def run(chk):
    binary, _ = common.build_harness()
    info = D.translate_prelude(binary)
    proved = chk.prove("Props.C01", THEOREMS,
                       ["theories/Props/C01.vo", "theories/Props/C02.vo", "theories/Dim/Exec.vo", "theories/Dim/RunFixed.vo",
                        "theories/Gen/PreludeDims.vo"], allowed=ALLOWED_AXIOMS)
    chk.trusted += [
        "model Dim/Model.v + Dim/Infer.v + Dim/Run.v (hand-written; static side validated by correspondence)",
        "hooks numbat::verif::dim::{statement_text, raw_global_text} and the guarded accessors behind them",
        "unit dimension = product over the unit's base-unit representation of the declared dimension of each base unit",
    ]
    quick = chk.tier == "quick"
    known = [f for f in common.load_known() if f.get("property") == "C01" and f.get("status") == "open"]

    # ---- cases: (stmts tuple-AST or None, source text, kind)
    cases = []
    corpus_path = os.path.join(common.VERIF, "corpus", "c01.json")
    for c in json.load(open(corpus_path)) if os.path.exists(corpus_path) else []:
        cases.append((None, c["source"], "corpus"))
    nprog = 400 if quick else 8000
    for k in range(nprog):
        p = D.gen_program(chk.rng, start=k * 20)
        cases.append((p["stmts"], "\n".join(D.src_stmt(s) for s in p["stmts"]), "generated"))
    for sts in gen_exponent_stream(chk.rng, 60 if quick else 600):
        cases.append((sts, "\n".join(D.src_stmt(s) for s in sts), "exponent"))
    for k in range(25 if quick else 300):      # structs (outside the model: implementation only)
        for t in D.struct_templates(chk.rng, k):
            if t["expect"] == "accept":
                cases.append((None, t["source"], "struct"))
    for c in D.gen_literal_cases(chk.rng, 90 if quick else 900, start=70000):
        sts = c["inputs"][0]           # literals of special magnitude where the polymorphic-zero rule decides
        cases.append((sts, "\n".join(D.src_stmt(s) for s in sts), "literal"))
    for k in range(160 if quick else 2500):
        sts = gen_rebind(chk.rng, k)
        cases.append((sts, "\n".join(D.src_stmt(s) for s in sts), "rebind"))

    lines = []
    for sts, src, _ in cases:
        names = re.findall(r"(?m)^let (\w+)", src)
        lines.append(",".join(names) + "\x1c" + src.replace("\n", "\x1f"))
    out = common.run_harness(binary, "dim-run", lines, timeout=900)

    # ---- model correspondence on the static side
    items, idx = [], []
    for n, (sts, src, kind) in enumerate(cases):
        o = out[n]
        if sts is None or o is None or "\t" not in o:
            continue
        tc = o.split("\t")[0]
        if tc.startswith(("ok|", "err|")) and tc != "ok|?":
            items.append((D.coq_case([sts]), tc))
            idx.append(n)
    bad = common.coq_mismatches(IMPORTS, items, "c01", shard_size=100)
    unsupported = sum(1 for v in bad.values() if "MODEL-UNSUPPORTED" in v)
    bad = {k: v for k, v in bad.items() if "MODEL-UNSUPPORTED" not in v}

    # ---- oracle
    stats = collections.Counter()
    failures = []
    globals_checked = 0
    shapes = set()
    for n, (sts, src, kind) in enumerate(cases):
        o = out[n]
        if o is None or o.startswith("@@") or "\t" not in o:
            stats["crash"] += 1
            continue
        tc, extra = o.split("\t", 1)
        tcs, extras = tc.split("&"), extra.split("&")
        stats["accepted" if tcs[0].startswith("ok|") else "rejected"] += 1
        rt = re.search(r"rt=([^;]*)", extras[0])
        stats["rt=" + (rt.group(1) if rt else "?")] += 1
        globals_checked += len([1 for r in parse_raw(extras[0]).values() if r.startswith(("q|", "l|"))])
        if tcs[0].startswith("ok|") and "let|" in tcs[0]:
            shapes.add(tcs[0])
        f = check_case(src, tcs, extras, None)
        if f:
            f["input"] = src
            failures.append((n, f))

    reported = 0
    hits = set()
    for n, f in failures:
        sts, src, kind = cases[n]
        kf = None
        for fd in known:
            m = fd.get("matcher", {})
            if m.get("kind") == "exact-input" and m["input"].strip() == src.strip():
                kf = fd
            elif src.strip() in [x.strip() for x in m.get("exact_inputs", [])]:
                kf = fd
            elif m.get("kind") == "zero-literal-unitless" and f["kind"].startswith("run-time unit") \
                    and f.get("runtime_unit") == "q||D[]" \
                    and (re.search(r"(?m)^let %s(: [^=]*)? = \(?-?0(\.0*)?(e[-+]?\d+)?\)?$" % re.escape(f.get("name", "?")), src)
                         or zero_operand_in_definition(src, f.get("name", "?"))):
                kf = fd
        if kf:
            if kf["id"] not in hits:
                chk.known(kf["id"], "%s: %s -> %s" % (kf["id"], src.replace("\n", " ; "), f["kind"]))
                hits.add(kf["id"])
            else:
                chk.known_hits.append(kf["id"])
            continue
        if reported >= 3:
            continue
        # shrink: drop statements while the oracle still fails
        stl = src.split("\n")

        def still(cand):
            names = re.findall(r"(?m)^let (\w+)", "\n".join(cand))
            o2 = common.run_harness(binary, "dim-run", [",".join(names) + "\x1c" + "\x1f".join(cand)], shards=1)[0]
            if o2 is None or "\t" not in o2:
                return False
            t2, e2 = o2.split("\t", 1)
            return check_case("\n".join(cand), t2.split("&"), e2.split("&"), None) is not None
        small = common.shrink_list(stl, still) if len(stl) > 1 else stl
        f["input"] = "\n".join(small)
        f["replay"] = "./check C01 --replay <this file>"
        chk.violation(f)
        reported += 1
    if not reported and (bad or not proved):
        k = min(bad) if bad else None
        chk.violation({
            "kind": "proof or correspondence no longer checks",
            "theorem_or_correspondence": ("correspondence Dim/Infer.v vs numbat type checker (static types the soundness statement is about)"
                                          if bad else "Props/C01.v: " + getattr(chk, "proof_failure", "?")),
            "mismatching_cases": len(bad),
            "first_case": None if k is None else {"input": cases[idx[k]][1], "implementation": items[k][1], "model": bad[k]},
        }, found_input=False)

    chk.cov.update({
        "evaluations": len(cases),
        "distinct_nontrivial": len(shapes),
        "rule": "corpus (the two confirmed findings) + seeded well-dimensioned multi-statement programs from the C02 "
                "generator (units with prefixes, constant integer/fractional/composite exponents, derived units and "
                "dimensions, generic/inferred functions, where-clauses, conditionals, lists) + a stream of powers with "
                "composite decimal exponents + literals of special magnitude (zero spellings, subnormal, smallest normal, "
                "scientific notation, huge finite) in every position where the polymorphic-zero rule decides (the accepted "
                "ones are executed) + a family of re-bindings (globals and functions re-bound with the same or "
                "another dimension before/after nullary, parametrised, where-clause and conditional functions that read "
                "them; parameters and where-locals shadowing globals; every function result bound to a global); every "
                "accepted program is executed; distinct = distinct vectors of inferred "
                "statement types; non-trivial = accepted and defines at least one global whose raw unit is compared",
        "globals_compared": globals_checked,
        "outcomes": dict(stats),
        "model_items": len(items),
        "model_mismatches": len(bad),
        "model_unsupported": unsupported,
        "oracle_failures": len(failures),
        "known_class_hits": len(failures) - reported,
        "exhaustive": False,
        "samples": [{"input": cases[n][1], "implementation": (out[n] or "")[:600]} for n in (0, 2, len(cases) - 1)],
    })
    chk.assumptions += ["numeric literals are short decimals; Python floats are IEEE-754 binary64 like Rust f64",
                        "the unit registry's base representation of a unit and UnitMetadata.type_ of base units are what the VM uses"]


def replay(path):
    r = json.load(open(path))
    if "input" not in r:
        print(json.dumps(r, indent=1))
        return 0
    binary, _ = common.build_harness()
    src = r["input"]
    names = re.findall(r"(?m)^let (\w+)", src)
    o = common.run_harness(binary, "dim-run", [",".join(names) + "\x1c" + src.replace("\n", "\x1f")], shards=1)[0]
    print("implementation:", o)
    t, e = o.split("\t", 1)
    f = check_case(src, t.split("&"), e.split("&"), None)
    print("oracle:", f or "holds")
    return 1 if f else 0
