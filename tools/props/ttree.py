"""Typed expression trees for the C15 printer-model correspondence: each tree is rendered (fully
parenthesised) to numbat source and to a Coq term of type Syntax.TypedPrinter.texpr that describes
the typed tree numbat elaborates that source to (units resolved to their full names)."""

UNITS = {"m": "metre", "cm": "centimetre", "km": "kilometre", "mm": "millimetre", "s": "second", "K": "kelvin"}
NUMS = ["1", "2", "3", "4", "10", "0.5", "1.5", "7", "100"]
BIN = {"Add": "+", "Sub": "-", "Mul": "*", "Div": "/", "Power": "^", "ConvertTo": "->", "LessThan": "<",
       "GreaterThan": ">", "LessOrEqual": "<=", "GreaterOrEqual": ">=", "Equal": "==", "NotEqual": "!=",
       "LogicalAnd": "&&", "LogicalOr": "||"}
STRS = ["abc", "a b", "x\ny", 'q"q', "{b}", "back\\slash", "ü°", ""]


def cstr(s):
    return "[" + ";".join(str(ord(c)) for c in s) + "]%N"


def coq(t):
    k = t[0]
    if k == "num":
        return "(XScalar false %s)" % cstr(t[1])
    if k == "id":
        return "(XIdent %s)" % cstr(t[1])
    if k == "unit":
        return "(XUnit %s)" % cstr(UNITS[t[1]])
    if k == "neg":
        return "(XNeg %s)" % coq(t[1])
    if k == "fact":
        return "(XFact %d %s)" % (t[1] - 1, coq(t[2]))
    if k == "not":
        return "(XNot %s)" % coq(t[1])
    if k == "bin":
        return "(XBin %s %s %s)" % (t[1], coq(t[2]), coq(t[3]))
    if k == "call":
        return "(XCall %s [%s])" % (cstr(t[1]), "; ".join(coq(a) for a in t[2]))
    if k == "callable":
        return "(XCallable %s [%s])" % (coq(t[1]), "; ".join(coq(a) for a in t[2]))
    if k == "bool":
        return "(XBool %s)" % ("true" if t[1] else "false")
    if k == "str":
        return "(XString %s)" % cstr(t[1])
    if k == "interp":
        return "(XInterp %s [%s])" % (cstr(t[1]), "; ".join(
            "(%s, %s, %s)" % (coq(e), "None" if f is None else "(Some %s)" % cstr(f), cstr(b)) for e, f, b in t[2]))
    if k == "if":
        return "(XIf %s %s %s)" % (coq(t[1]), coq(t[2]), coq(t[3]))
    if k == "field":
        return "(XField %s %s)" % (coq(t[1]), cstr(t[2]))
    if k == "list":
        return "(XList [%s])" % "; ".join(coq(a) for a in t[1])
    if k == "struct":
        return "(XStruct %s [%s])" % (cstr(t[1]), "; ".join("(%s, %s)" % (cstr(f), coq(a)) for f, a in t[2]))
    raise ValueError(k)


def esc_src(s):
    return (s.replace("\\", "\\\\").replace('"', '\\"').replace("\n", "\\n").replace("{", "{{").replace("}", "}}"))


def src(t):
    k = t[0]
    if k in ("num", "id", "unit"):
        return t[1]
    if k == "neg":
        return "(-%s)" % src(t[1])
    if k == "fact":
        return "(%s%s)" % (src(t[2]), "!" * t[1])
    if k == "not":
        return "(!%s)" % src(t[1])
    if k == "bin":
        if t[1] == "Mul" and t[2][0] == "num" and t[3][0] in ("unit", "id"):
            return "(%s %s)" % (src(t[2]), src(t[3]))
        return "(%s %s %s)" % (src(t[2]), BIN[t[1]], src(t[3]))
    if k == "call":
        return "%s(%s)" % (t[1], ", ".join(src(a) for a in t[2]))
    if k == "callable":
        return "%s(%s)" % (src(t[1]), ", ".join(src(a) for a in t[2]))
    if k == "bool":
        return "true" if t[1] else "false"
    if k == "str":
        return '"%s"' % esc_src(t[1])
    if k == "interp":
        return '"%s%s"' % (esc_src(t[1]), "".join("{%s%s}%s" % (src(e), f or "", esc_src(b)) for e, f, b in t[2]))
    if k == "if":
        return "(if %s then %s else %s)" % (src(t[1]), src(t[2]), src(t[3]))
    if k == "field":
        return "%s.%s" % (src(t[1]), t[2])
    if k == "list":
        return "[%s]" % ", ".join(src(a) for a in t[1])
    if k == "struct":
        return "%s {%s}" % (t[1], ", ".join("%s: %s" % (f, src(a)) for f, a in t[2]))
    raise ValueError(k)


class TGen:
    def __init__(self, rng):
        self.r = rng

    def num(self):
        return ("num", self.r.choice(NUMS))

    def S(self, d):
        r = self.r
        if d <= 0 or r.random() < 0.25:
            return r.choice([self.num(), self.num(), ("id", "k1"), ("id", "pi")])
        c = r.randrange(15)
        if c < 4:
            return ("bin", r.choice(["Add", "Sub", "Mul", "Div"]), self.S(d - 1), self.S(d - 1))
        if c == 4:
            return ("bin", "Power", self.S(d - 1), r.choice([("num", "2"), ("num", "3"), ("num", "4"), ("num", "0.5"), self.S(d - 2)]))
        if c == 5:
            return ("neg", self.S(d - 1))
        if c == 6:
            return ("fact", r.choice([1, 1, 2]), ("num", r.choice(["2", "3", "4"])))
        if c == 7:
            return ("call", r.choice(["sin", "cos", "abs", "sq", "halve"]), [self.S(d - 1)])
        if c == 8:
            return ("if", self.B(d - 1), self.S(d - 1), self.S(d - 1))
        if c == 9:
            return ("bin", "Div", self.L(d - 1), self.L(d - 2))
        if c == 10:
            return ("callable", ("id", "fref"), [self.S(d - 1)])
        if c == 11:
            return ("call", r.choice(["celsius", "fahrenheit"]), [self.K(d - 1)])
        if c == 12:
            return ("bin", "Mul", self.num(), ("id", r.choice(["k1", "pi"])))
        if c == 13:
            return ("callable", ("if", self.B(d - 2), ("id", "sin"), ("id", "cos")), [self.S(d - 1)])
        if r.random() < 0.5:
            return ("call", "atan2", [self.S(d - 1), self.S(d - 1)])
        if r.random() < 0.5:
            return ("call", "len", [("list", [self.S(d - 2) for _ in range(r.choice([0, 1, 2, 3]))])])
        return ("field", ("struct", "Rec", [("n", self.S(d - 1)), ("ok", self.B(d - 2))]), "n")

    def K(self, d):
        r = self.r
        c = r.randrange(3)
        if c == 0:
            return ("bin", "Mul", self.num(), ("unit", "K"))
        return ("call", r.choice(["from_celsius", "from_fahrenheit"]), [self.S(d - 1)])

    def L(self, d):
        r = self.r
        if d <= 0 or r.random() < 0.25:
            return r.choice([("bin", "Mul", self.num(), ("unit", r.choice(["m", "cm", "km", "mm"]))), ("id", "len1")])
        c = r.randrange(10)
        if c < 2:
            return ("bin", r.choice(["Add", "Sub"]), self.L(d - 1), self.L(d - 1))
        if c == 2:
            return ("bin", "Mul", self.S(d - 1), self.L(d - 1))
        if c == 3:
            return ("bin", "Mul", self.L(d - 1), self.S(d - 1))
        if c == 4:
            return ("bin", "Div", self.L(d - 1), self.S(d - 1))
        if c == 5:
            return ("neg", self.L(d - 1))
        if c == 6:
            return ("if", self.B(d - 1), self.L(d - 1), self.L(d - 1))
        if c == 7:
            return ("bin", "ConvertTo", self.L(d - 1), ("unit", r.choice(["cm", "km", "mm"])))
        if c == 8:
            return ("bin", "ConvertTo", self.L(d - 1), ("if", self.B(d - 2), ("unit", "cm"), ("unit", "mm")))
        if r.random() < 0.4:
            return ("call", "halve", [self.L(d - 1)])
        if r.random() < 0.5:
            return ("call", "head", [("list", [self.L(d - 1), self.L(d - 2)])])
        return ("field", ("struct", "Pt", [("x", self.L(d - 1)), ("y", self.L(d - 2))]), r.choice("xy"))

    def B(self, d):
        r = self.r
        if d <= 0 or r.random() < 0.3:
            return r.choice([("bool", True), ("bool", False), ("id", "flag")])
        c = r.randrange(6)
        cmp_ = r.choice(["LessThan", "GreaterThan", "LessOrEqual", "GreaterOrEqual", "Equal", "NotEqual"])
        if c == 0:
            return ("bin", cmp_, self.S(d - 1), self.S(d - 1))
        if c == 1:
            return ("bin", cmp_, self.L(d - 1), self.L(d - 1))
        if c == 2:
            return ("bin", r.choice(["LogicalAnd", "LogicalOr"]), self.B(d - 1), self.B(d - 1))
        if c == 3:
            return ("not", self.B(d - 1))
        if c == 4:
            return ("if", self.B(d - 1), self.B(d - 1), self.B(d - 1))
        return ("bin", "Equal", self.Str(d - 1), self.Str(d - 2))

    def Str(self, d):
        """a string: fixed, or interpolated (a struct literal cannot be written inside the braces)"""
        r = self.r
        if d <= 0 or r.random() < 0.35:
            return ("str", r.choice(STRS))
        items = []
        for _ in range(r.choice([1, 1, 2, 3])):
            kind = r.choice(["S", "S", "L", "B", "Str", "K"])
            e = self.Str(d - 1) if kind == "Str" else getattr(self, kind)(d - 1)
            if "'struct'" in repr(e):
                e = self.num()
            f = r.choice([None, None, ":.2f", ":>10", ":e", ":.3"]) if kind == "S" else None
            items.append((e, f, r.choice(STRS)))
        return ("interp", r.choice(STRS), items)

    def any(self, d):
        k = self.r.choice(["S", "S", "S", "L", "L", "B", "K", "Str", "Str", "Lst", "Rec"])
        if k == "Str":
            return self.Str(d)
        if k == "Lst":
            return ("list", [self.L(d - 1) for _ in range(self.r.choice([0, 1, 2, 3]))])
        if k == "Rec":
            return ("struct", "Pt", [("x", self.L(d - 1)), ("y", self.L(d - 1))])
        return getattr(self, k)(d)
