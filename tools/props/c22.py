"""C22 — the command-line tool reports success and failure faithfully.

proof:  coq/theories/Props/C22.v over Session/Cli.v (model of Cli::run / parse_and_evaluate / main
        in non-interactive mode): C22_exit, C22_exit_0_or_1, C22_streams, C22_e_is_file.
tie:    the REAL binary target/debug/numbat (built from the repo working tree):
        (1) correspondence: generated miniature programs (succeeding / failing at every stage and
            position; as file, as -e arguments, as file + -e) run with `numbat -N` and through
            Session/CliExec.v (vm_compute): exit status, stdout lines, stderr non-empty must agree;
        (2) the property itself on prelude programs: expected outcome from the library harness on
            the same text (succeeded?, prints, value), compared with the binary's exit status,
            stdout and stderr, as file and as -e arguments.
"""
import collections
import concurrent.futures as cf
import json
import os
import re
import shutil
import subprocess

import common
from props import sesslib as S
from props import c06

MANIFEST = dict(
    category="proof",
    text="proof (partial): machine-checked proof (Coq) about a small state-machine model of numbat-cli's Cli::run / "
         "parse_and_evaluate / main in non-interactive mode, on top of the Context model with arbitrary stage "
         "functions: the exit status is 0 iff every input (file, then the joined -e expressions) succeeded and is "
         "otherwise 1 (C22_exit, C22_exit_0_or_1); stdout is exactly the buffered prints and result of each input "
         "before the first failing one, stderr is empty iff the status is 0 and otherwise holds the diagnostic of the "
         "first failure followed by 'Interpreter stopped' (C22_streams; prints of the failing input are dropped, as in "
         "the code); -e e1 .. -e en equals a file with those lines (C22_e_is_file: the CodeSource only labels "
         "diagnostics). Process/OS behaviour (argument parsing by clap, reading the file, config and prelude loading, "
         "the actual byte streams, panics) is NOT modelled; it is exercised on every run through the real binary: "
         "model vs `numbat -N` on generated miniature programs, and library-harness expectation vs binary on prelude "
         "programs, each as file and as -e arguments.",
    design_ref="DESIGN.md §6 C22, design/session.md",
    note="Trusted: Coq kernel + vm_compute; hand model Session/Cli.v of numbat-cli/src/main.rs; the binary is run with "
         "--no-config --no-init --color never and a private HOME; currency identifiers are avoided (on-demand exchange "
         "rate loading needs the network).",
    technique="Coq proof over a state-machine model + model/binary correspondence by vm_compute + library-vs-binary "
              "differential check",
)

THEOREMS = ["C22_exit", "C22_exit_0_or_1", "C22_streams", "C22_e_is_file", "C22_args",
            "C22_no_prelude_implies_no_init", "C22_stdin_ignored_without_inspect",
            "C22_repl_plain", "C22_repl_exit", "C22_failing_commands_do_not_matter", "C22_reset"]
RS = "\x1e"


# ------------------------------------------------------------ running the binary
def cli_env(home):
    env = dict(common.ENV)
    env.update({"HOME": home, "XDG_CONFIG_HOME": os.path.join(home, "cfg"), "XDG_DATA_HOME": os.path.join(home, "data"),
                "NO_COLOR": "1"})
    env.pop("NUMBAT_MODULES_PATH", None)
    return env


def run_cli(binary, home, idx, file_text, exprs, prelude, flags=(), stdin_text=None, init_text=None):
    """one process run.  With init_text the run gets its own HOME containing cfg/numbat/init.nbt."""
    if init_text is not None:
        home = os.path.join(home, "h%d" % idx)
        os.makedirs(os.path.join(home, "cfg", "numbat"), exist_ok=True)
        with open(os.path.join(home, "cfg", "numbat", "init.nbt"), "w", encoding="utf-8") as f:
            f.write(init_text)
    args = [binary, "--no-config", "--color", "never"]
    if "init" not in flags:
        args.append("--no-init")          # default of this driver: do not look for an init file
    if "no-init" in flags and "--no-init" not in args:
        args.append("--no-init")
    if "inspect" in flags:
        args.append("-i")
    if not prelude:
        args.append("-N")
    if file_text is not None:
        path = os.path.join(home, "p%d.nbt" % idx)
        with open(path, "w", encoding="utf-8") as f:
            f.write(file_text)
        args.append(path)
    for e in exprs or []:
        args += ["-e", e]
    try:
        p = subprocess.run(args, stdout=subprocess.PIPE, stderr=subprocess.PIPE, timeout=180, env=cli_env(home),
                           input=(stdin_text or "").encode("utf-8"))
        return p.returncode, p.stdout.decode("utf-8", "replace"), p.stderr.decode("utf-8", "replace")
    except subprocess.TimeoutExpired:
        return -999, "", "TIMEOUT"


def run_many(binary, home, jobs):
    """jobs: list of (file_text|None, exprs|None, prelude[, flags, stdin_text, init_text])"""
    with cf.ThreadPoolExecutor(max_workers=common.NPROC) as ex:
        return list(ex.map(lambda kj: run_cli(binary, home, kj[0], *kj[1]), enumerate(jobs)))


def norm_stderr(err):
    """diagnostics with the source label replaced (the only thing that may differ between file and -e)"""
    return re.sub(r"(File [^\s:]+|<input:\d+>)", "<source>", err)


def observe(rc, out, err):
    lines = out.split("\n")
    if lines and lines[-1] == "":
        lines.pop()
    return "exit=%d|out=%s|err=%d" % (rc, RS.join(lines), 1 if err.strip() else 0)


# ------------------------------------------------------------ miniature programs (model vs binary)
def gen_toy_program(rng):
    names = S.Names()
    n = rng.randrange(1, 7)
    body = [gen_stmt(rng, names) for _ in range(n)]
    kind = None
    if rng.random() < 0.55:
        kind = rng.choice(S.FAIL_KINDS)
        pos = rng.randrange(len(body) + 1)
        if kind == "parse":
            lines = [S.stmt_src(s) for s in body]
            lines.insert(pos, rng.choice(S.PARSE_ERR_TEXTS))
        else:
            body.insert(pos, S.gen_failing_stmt(rng, kind, names, []))
            lines = [S.stmt_src(s) for s in body]
    else:
        lines = [S.stmt_src(s) for s in body]
    return lines, kind


def gen_stmt(rng, names):
    s = S.gen_good_stmt(rng, names, [])
    return s


def split_modes(rng, lines):
    """(file_text|None, exprs|None) variants of the same program"""
    text = "\n".join(lines)
    modes = [("file", text + ("\n" if rng.random() < 0.5 else ""), None),
             ("exprs", None, list(lines))]
    if len(lines) >= 2:
        # -e arguments holding several lines each
        cut = rng.randrange(1, len(lines))
        modes.append(("exprs2", None, ["\n".join(lines[:cut]), "\n".join(lines[cut:])]))
        # file + -e: two inputs
        modes.append(("file+exprs", "\n".join(lines[:cut]), list(lines[cut:])))
    return modes


def toy_line(file_text, exprs):
    f = []
    if file_text is not None:
        f.append(("F", file_text))
    for e in exprs or []:
        f.append(("E", e))
    return S.case_line(f)


# ------------------------------------------------------------ prelude programs (library vs binary)
PRELUDE_MODS = None


def prelude_have():
    global PRELUDE_MODS
    if PRELUDE_MODS is None:
        PRELUDE_MODS = set("mod:" + m for m in c06.module_closure("prelude"))
    return set(PRELUDE_MODS)


def gen_std_program(rng):
    have = prelude_have()
    lines = []
    for _ in range(rng.randrange(1, 7)):
        cands = c06.usable_items(have)
        it = rng.choice(cands)
        c06.item_apply(have, it)
        lines.append(it[0])
    kind = None
    if rng.random() < 0.55:
        kind = rng.choice(S.FAIL_KINDS)
        bad = rng.choice([b for b in c06.STD_BAD[kind] if "\n" not in b])
        lines.insert(rng.randrange(len(lines) + 1), bad)
    return lines, kind


def expected_from_library(item):
    """harness `interpret` item -> (succeeded, stdout lines)"""
    p = item.split("|")
    if p[0] != "ok":
        return False, []
    value, prints = p[1], "|".join(p[3:])
    lines = []
    for pr in (prints.split(RS) if prints else []):
        lines += pr.split("\n")
    if value != "-":
        lines += value.split("\n")
    return True, lines


def run(chk):
    binary_h, _ = common.build_harness()
    cli = common.build_cli()
    c06.write_skeleton(c06.skeleton_from_source()[0])      # CliExec runs on the skeleton extracted from lib.rs
    proved = chk.prove("Props.C22", THEOREMS, ["theories/Props/C22.vo", "theories/Session/CliExec.vo"])
    if not proved:
        chk.notes.append("proof side: " + str(getattr(chk, "proof_failure", "?"))[:1500])
    chk.trusted += [
        "model Session/Cli.v: hand port of Cli::run / parse_and_evaluate / main (numbat-cli/src/main.rs), non-interactive mode",
        "the real binary %s is run as a process (exit status, stdout, stderr captured)" % os.path.relpath(cli, common.REPO),
        "expected outcome of prelude programs comes from the library harness (Context::interpret on the same text)",
    ]
    chk.assumptions += [
        "--no-config --no-init --color never, private HOME, no NUMBAT_MODULES_PATH",
        "no currency identifiers (load_currency_module_on_demand would fetch exchange rates)",
        "--pretty-print never (default in non-interactive mode)",
    ]
    quick = chk.tier == "quick"
    rng = chk.rng
    home = os.path.join(common.WORK, "c22-home")
    shutil.rmtree(home, ignore_errors=True)
    os.makedirs(home, exist_ok=True)

    # ---- part 1: miniature programs, model vs `numbat -N`
    toy = []        # (lines, kind, mode, file_text, exprs)
    corpus_p = os.path.join(common.VERIF, "corpus", "c22.json")
    corpus = json.load(open(corpus_p)) if os.path.exists(corpus_p) else []
    for c in corpus:
        if c["kind"] == "toy":
            toy.append((c["lines"], c.get("fails"), c["mode"], c.get("file"), c.get("exprs")))
    for _ in range(40 if quick else 1500):
        lines, kind = gen_toy_program(rng)
        for mode, ft, ex in split_modes(rng, lines):
            toy.append((lines, kind, mode, ft, ex))
    import time
    t0 = time.time()
    toy_res = run_many(cli, home, [(ft, ex, False) for _, _, _, ft, ex in toy])
    t1 = time.time()
    toy_obs = [observe(*r) for r in toy_res]
    items = [("show_cli_line current_skeleton %s" % common.coq_string(toy_line(ft, ex)), toy_obs[n])
             for n, (_, _, _, ft, ex) in enumerate(toy)]
    bad_model = common.coq_mismatches(["Session.Resolver", "Session.Context", "Session.Toy", "Session.CliExec",
                                       "Gen.CtxSkeleton"], items, "c22",
                                      shard_size=min(150, max(8, -(-len(items) // common.NPROC))), timeout=2400)

    # ---- part 1b: arguments (init file, --no-init, -i, stdin) on miniature programs, model vs binary
    full = []       # (fields, job)
    for _ in range(30 if quick else 600):
        lines, kind = gen_toy_program(rng)
        r = rng.random()
        if r < 0.25:
            ft, ex = None, None                      # no file, no -e: the REPL reads stdin
        elif r < 0.6:
            ft, ex = "\n".join(lines), None
        else:
            ft, ex = None, list(lines)
        flags = []
        init = None
        if rng.random() < 0.5:
            init = rng.choice(["let x = 5", "unit ua", "let = 1", "1 / 0"])
            flags.append("init")                     # do not pass --no-init unless chosen below
            if rng.random() < 0.4:
                flags.append("no-init")
        if rng.random() < 0.6 or (ft is None and ex is None):
            if not (ft is None and ex is None):
                flags.append("inspect")
        stdin_lines = []
        if "inspect" in flags or (ft is None and ex is None) or rng.random() < 0.3:
            l2, _ = gen_toy_program(rng)
            stdin_lines = list(l2)
            if rng.random() < 0.4:
                stdin_lines.insert(rng.randrange(len(stdin_lines) + 1), "")
            if rng.random() < 0.3:
                stdin_lines.insert(rng.randrange(len(stdin_lines) + 1), rng.choice(["quit", "exit"]))
        fields = []
        if ft is not None:
            fields.append(("F", ft))
        for e in ex or []:
            fields.append(("E", e))
        if init is not None:
            fields.append(("G", init))
        if "no-init" in flags or init is None:
            fields.append(("n", ""))
        if "inspect" in flags:
            fields.append(("i", ""))
        for l in stdin_lines:
            fields.append(("Z", l))
        full.append((fields, (ft, ex, False, tuple(flags), "".join(l + "\n" for l in stdin_lines), init)))
    full_res = run_many(cli, home, [j for _, j in full])
    full_obs = [observe(*r) for r in full_res]
    items2 = [("show_cli_full_line current_skeleton %s" % common.coq_string(S.case_line(f)), full_obs[n])
              for n, (f, _) in enumerate(full)]
    bad_full = common.coq_mismatches(["Session.Resolver", "Session.Context", "Session.Toy", "Session.CliExec",
                                      "Gen.CtxSkeleton"], items2, "c22b",
                                     shard_size=min(150, max(8, -(-len(items2) // common.NPROC))), timeout=2400)
    for kk, v in bad_full.items():
        bad_model[len(items) + kk] = v
    toy_obs_all = toy_obs + full_obs

    # ---- part 1c: REPL commands on stdin (quit / exit / reset / clear / save, commands with wrong arguments)
    cmdc = []
    BADCMD = ["list foo", "save a b", "quit now", "reset x", "help me", "info", "clear x", "exit 1"]
    for n in range(30 if quick else 500):
        lines, kind = gen_toy_program(rng)
        exprs = list(lines) if rng.random() < 0.5 else None
        flags = ("inspect",) if exprs is not None else ()
        l2, _ = gen_toy_program(rng)
        stdin_lines = list(l2)
        for _ in range(rng.randrange(1, 4)):
            r = rng.random()
            c = (rng.choice(BADCMD) if r < 0.45 else "reset" if r < 0.65 else "clear" if r < 0.72 else
                 "save " + os.path.join(home, "sv%d.nbt" % n) if r < 0.85 else rng.choice(["quit", "exit"]))
            stdin_lines.insert(rng.randrange(len(stdin_lines) + 1), c)
        fields = [("E", e) for e in exprs or []] + ([("i", "")] if exprs is not None else []) + [("Z", l) for l in stdin_lines]
        cmdc.append((fields, (None, exprs, False, flags, "".join(l + "\n" for l in stdin_lines), None)))
    cmd_res = run_many(cli, home, [j for _, j in cmdc])
    cmd_obs = [observe(*r) for r in cmd_res]
    items3 = [("show_cli_cmd_line current_skeleton %s" % common.coq_string(S.case_line(f)), cmd_obs[n])
              for n, (f, _) in enumerate(cmdc)]
    bad_cmd = common.coq_mismatches(["Session.Resolver", "Session.Context", "Session.Toy", "Session.CliExec",
                                     "Gen.CtxSkeleton"], items3, "c22c",
                                    shard_size=min(150, max(8, -(-len(items3) // common.NPROC))), timeout=2400)
    for kk, v in bad_cmd.items():
        bad_model[len(items) + len(items2) + kk] = v

    t2 = time.time()
    # ---- part 2: prelude programs, library vs binary, file vs -e
    std = []
    for c in corpus:
        if c["kind"] == "std":
            std.append((c["lines"], c.get("fails")))
    for _ in range(30 if quick else 1000):
        std.append(gen_std_program(rng))
    lib = S.run_sessions(binary_h, [[("J", "use prelude"), ("F", "\n".join(l))] for l, _ in std])
    jobs = []
    for l, _ in std:
        jobs.append(("\n".join(l), None, True))   # same text as the joined -e input (a trailing newline would move the end-of-input span in diagnostics)
        jobs.append((None, list(l), True))
    std_res = run_many(cli, home, jobs)
    chk.notes.append("timing: toy binary runs %.1fs, model %.1fs, prelude programs (library + binary) %.1fs" % (t1 - t0, t2 - t1, time.time() - t2))

    problems = []
    stats = collections.Counter()
    for n, (l, kind) in enumerate(std):
        ok, exp_lines = expected_from_library(lib[n][1] if len(lib[n]) > 1 else "PANIC")
        stats["std_ok" if ok else "std_fail:" + (lib[n][1].split("|")[1] if len(lib[n]) > 1 and "|" in lib[n][1] else "?")] += 1
        for which, (rc, out, err) in (("file", std_res[2 * n]), ("-e", std_res[2 * n + 1])):
            got = out.split("\n")
            if got and got[-1] == "":
                got.pop()
            why = None
            if ok and rc != 0:
                why = "every input succeeds in the library but the exit status is %d" % rc
            elif not ok and rc == 0:
                why = "the input fails in the library (%s) but the exit status is 0" % lib[n][1]
            elif not ok and rc != 1:
                why = "failing input: exit status %d (expected 1)" % rc
            elif ok and err.strip():
                why = "success but stderr is not empty: %r" % err[:200]
            elif not ok and not err.strip():
                why = "failure but nothing on stderr"
            elif ok and got != exp_lines:
                why = "stdout differs: binary %r, library prints+result %r" % (got, exp_lines)
            elif not ok and got:
                why = "failing single input but stdout is not empty: %r" % got
            if why:
                problems.append(("std", n, which, why))
        a, b = std_res[2 * n], std_res[2 * n + 1]
        if (a[0], a[1]) != (b[0], b[1]):
            problems.append(("std", n, "file vs -e", "as file: exit %d stdout %r ; as -e: exit %d stdout %r" % (
                a[0], a[1][:300], b[0], b[1][:300])))
        elif norm_stderr(a[2]) != norm_stderr(b[2]):
            problems.append(("std", n, "file vs -e", "stderr differs beyond the source label: %r vs %r" % (
                a[2][:400], b[2][:400])))
        # byte-exact stdout: the lines the library produced, each terminated by a newline
        if ok and a[1] != "".join(x + "\n" for x in exp_lines):
            problems.append(("std", n, "file", "stdout bytes %r differ from %r" % (a[1], "".join(x + "\n" for x in exp_lines))))
    # ---- part 2b: the init file and the flags that switch it off, with the prelude
    init_jobs = [
        ("let ini = 41", ["ini + 1"], ("init",), True, ["42"]),
        ("let ini = 41", ["ini + 1"], ("init", "no-init"), False, []),
        ("let ini = 41", ["ini + 1"], ("init", "N"), False, []),
        ("let = 1", ["1"], ("init",), False, []),
        ("let = 1", ["1"], ("init", "no-init"), True, ["1"]),
        ("print(\"from init\")", ["2"], ("init",), True, ["from init", "2"]),
    ]
    init_res = run_many(cli, home, [(None, ex, "N" not in fl, tuple(f for f in fl if f != "N"), None, it)
                                    for it, ex, fl, _, _ in init_jobs])
    for (it, ex, fl, want_ok, want_out), (rc, out, err) in zip(init_jobs, init_res):
        got = out.split("\n")
        if got and got[-1] == "":
            got.pop()
        if (rc == 0) != want_ok or (want_ok and got != want_out) or (bool(err.strip()) == want_ok):
            problems.append(("init", [it] + ex, "flags %s" % (fl,), "init.nbt %r, -e %r, flags %s: exit %d stdout %r stderr %r" % (
                it, ex, fl, rc, out[:200], err[:200])))
    stats["init_flag_runs"] = len(init_jobs)
    # the same on the toy runs (direct statement of the property: status 0 iff no failure was generated
    # cannot be known without the model, so toy runs are judged by the model correspondence only, plus file vs -e)
    groups = collections.defaultdict(list)
    for n, (lines, kind, mode, ft, ex) in enumerate(toy):
        if mode in ("file", "exprs", "exprs2"):
            groups[tuple(lines)].append((mode, toy_obs[n]))
    for lines, lst in groups.items():
        if len(set(o for _, o in lst)) > 1:
            problems.append(("toy", list(lines), "file vs -e", "the same lines give %r" % (lst,)))

    # direct statement of the property on the miniature programs too: the library harness (Context::interpret,
    # no prelude) decides whether every input succeeds; the binary's exit status must say the same
    toy_lib = S.run_sessions(binary_h, [([("F", ft)] if ft is not None else []) +
                                        ([("F", "\n".join(ex))] if ex else [])
                                        for _, _, _, ft, ex in toy])
    for n, (lines, kind, mode, ft, ex) in enumerate(toy):
        items = toy_lib[n]
        if not items or any(i == "PANIC" for i in items):
            continue
        all_ok = all(i.startswith("ok") for i in items)
        rc = toy_res[n][0]
        if all_ok != (rc == 0):
            problems.append(("toy2", n, mode,
                             "inputs %s in the library (%s) but the binary's exit status is %d" % (
                                 "all succeed" if all_ok else "do not all succeed",
                                 " ; ".join(i.split("|")[0] + ("" if i.startswith("ok") else ":" + i.split("|")[1])
                                            for i in items), rc)))

    found = 0
    for p in problems[:3]:
        if p[0] == "toy2":
            n = p[1]
            chk.violation({
                "kind": "the numbat binary does not report success/failure faithfully",
                "file": toy[n][3], "exprs": toy[n][4], "prelude": False, "mode": p[2], "detail": p[3],
                "binary": toy_obs[n],
                "replay": "write `file` to f.nbt and run: numbat -N --no-config f.nbt -e '<expr>' ... ; echo $?",
            })
            found += 1
            continue
        if p[0] == "std":
            lines = std[p[1]][0]
            prelude = True
        elif p[0] == "init":
            lines = p[1]
            prelude = True
        else:
            lines = p[1]
            prelude = False
        chk.violation({
            "kind": "the numbat binary does not report success/failure faithfully",
            "lines": lines, "prelude": prelude, "mode": p[2], "detail": p[3],
            "replay": "./check C22 --replay <this file>",
        })
        found += 1
    if not found and (bad_model or not proved):
        k = min(bad_model) if bad_model else None
        chk.violation({
            "kind": "proof or correspondence no longer checks",
            "theorem_or_correspondence": ("Session/CliExec.v vs `numbat -N` on miniature programs" if bad_model
                                          else "Props/C22.v: " + getattr(chk, "proof_failure", "?")),
            "mismatching_cases": len(bad_model),
            "first_case": None if k is None else (
                {"mode": toy[k][2], "file": toy[k][3], "exprs": toy[k][4], "binary": toy_obs[k], "model": bad_model[k]}
                if k < len(toy) else
                {"fields": full[k - len(toy)][0], "binary": full_obs[k - len(toy)], "model": bad_model[k]}
                if k < len(toy) + len(full) else
                {"fields": cmdc[k - len(toy) - len(full)][0], "binary": cmd_obs[k - len(toy) - len(full)],
                 "model": bad_model[k]}),
        }, found_input=False)

    for _, kind, mode, _, _ in toy:
        stats["toy_%s_%s" % (mode, kind or "ok")] += 1
    distinct = set()
    for n, (lines, kind, mode, ft, ex) in enumerate(toy):
        if "exit=1" in toy_obs[n] and "out=|" not in toy_obs[n]:
            distinct.add((tuple(lines), mode))          # fails after having produced output (only file+exprs can)
        elif len(lines) > 1:
            distinct.add((tuple(lines), mode))
    shutil.rmtree(home, ignore_errors=True)
    chk.cov.update({
        "evaluations": len(toy) + len(full) + len(cmdc) + 2 * len(std) + len(init_jobs),
        "argument_runs": len(full), "repl_command_runs": len(cmdc),
        "distinct_nontrivial": len(distinct) + len(set(tuple(l) for l, _ in std if len(l) > 1)),
        "rule": "process runs of the real binary: miniature programs (1-7 statements, 55% with a failing statement of a "
                "random kind at a random position) as file / one -e per line / two multi-line -e / file + -e, compared "
                "with the Coq model; prelude programs as file and as -e compared with the library harness. "
                "non-trivial = distinct (program, mode) with at least two lines",
        "toy_runs": len(toy), "std_programs": len(std), "model_mismatches": len(bad_model),
        "oracle_violations": len(problems), "histogram": dict(stats), "exhaustive": False,
        "samples": [{"mode": toy[i][2], "file": toy[i][3], "exprs": toy[i][4], "binary": toy_obs[i]}
                    for i in (0, len(toy) // 2, len(toy) - 1)] +
                   [{"lines": std[-1][0], "library": lib[-1][1:], "binary_file": observe(*std_res[-2])}],
    })


def replay(path):
    r = json.load(open(path))
    if "lines" not in r:
        print(json.dumps(r, indent=1)[:4000])
        return 0
    cli = common.build_cli()
    binary_h, _ = common.build_harness()
    home = os.path.join(common.WORK, "c22-home")
    os.makedirs(home, exist_ok=True)
    lines = r["lines"]
    a = run_cli(cli, home, 0, "\n".join(lines) + "\n", None, r["prelude"])
    b = run_cli(cli, home, 1, None, lines, r["prelude"])
    lib = S.run_sessions(binary_h, [([("J", "use prelude")] if r["prelude"] else []) + [("F", "\n".join(lines))]])[0]
    print("library:", lib[-1])
    print("as file:", observe(*a))
    print("as -e  :", observe(*b))
    ok, exp = expected_from_library(lib[-1])
    good = (a[0] == 0) == ok and (b[0] == 0) == ok and (a[0], a[1]) == (b[0], b[1]) and bool(a[2].strip()) == (not ok)
    print("agrees" if good else "VIOLATED")
    return 0 if good else 1
