"""C04 — conversion yields exactly the requested unit and the same quantity.

proof:  coq/theories/Props/C04.v (C04_unit, C04_back, C04_via) from convert_to_sound (Qty/Proofs.v)
tie:    generated unit table (Gen/PreludeUnits.v) + correspondence on EVERY ordered pair of
        same-dimension units of the dumped table (exhaustive), by direct calls of
        Quantity::convert_to (+ what vm.rs does for Op::ConvertTo) and through
        Context::interpret (`a -> U`, displayed text), vs the model by vm_compute
oracle: the property itself on the implementation: result unit is literally U, value*size(U) =
        value*size(unit q) by exact arithmetic from the definitions, back-conversion, via-conversion,
        displayed text ends in U as rendered from the table
"""
import collections
import json
import os
from fractions import Fraction

import common
from props import qtylib
from props.qtylib import F, Obs

MANIFEST = dict(
    category="proof",
    text="Machine-checked proof (Coq), exact-arithmetic level, over the model of Quantity::convert_to and vm.rs "
         "Op::ConvertTo: the result of `q -> U` carries exactly U's factor list, is marked not-simplifiable, denotes "
         "q, and is displayed as a coefficient times U when U's magnitude is not 1 with coefficient*U denoting q "
         "(C04_unit); converting back restores q's magnitude and unit (C04_back); converting through an "
         "intermediate unit equals converting directly (C04_via). All closed under the global context. The tie is "
         "exhaustive over ordered same-dimension unit pairs of the dumped table plus random compound units; "
         "'within floating-point tolerance' is measured (1e-12 relative per conversion), not proved; the rendering "
         "of numbers and unit text is checked on the implementation only.",
    design_ref="DESIGN.md §6 C04; design/qty.md",
    note="Trusted: Coq kernel + vm_compute; Qty/Model.v hand port (convert_to, vm_convert, displayed); hook dump and "
         "translator; the Python rendering of unit text (qtylib.display_unit) used by the display oracle.",
    technique="Coq proof from convert_to soundness + exhaustive unit-pair correspondence by vm_compute",
)

THEOREMS = ["C04_unit", "C04_text", "C04_back", "C04_via"]
REL = 1e-12


def mags(rng):
    return [40.5, rng.uniform(0.5, 2000.0) * rng.choice([1, -1]), rng.uniform(1, 10) * 10.0 ** rng.randint(-12, 12)]


def check_conv(tbl, v, ua, ub, ob, want_flag=None):
    """property on one observation of (v ua) -> ub"""
    if ob.kind != "Q":
        return "conversion between same-dimension units gave %s" % ob.raw[:60]
    if ob.unit != ub:
        return "result unit %s is not the requested %s" % (qtylib.show_unit(ob.unit), qtylib.show_unit(ub))
    if want_flag and ob.simp != want_flag:
        return "can_simplify flag is %s after an explicit conversion" % ob.simp
    if not ob.finite():
        return None
    rel = REL if tbl.exact_unit(ua) and tbl.exact_unit(ub) else 1e-9
    lhs = Fraction(ob.value) * Fraction(qtylib.any_scale(tbl, ub))
    rhs = Fraction(v) * Fraction(qtylib.any_scale(tbl, ua))
    if not qtylib.rel_close(lhs, rhs, rel):
        return "value %r %s denotes %r base units, the operand denotes %r" % (
            ob.value, qtylib.show_unit(ub), float(lhs), float(rhs))
    return None


def run(chk):
    binary, tbl = qtylib.session()
    proved = chk.prove("Props.C04", THEOREMS, ["theories/Props/C04.vo", "theories/Qty/Prelude.vo", "theories/Qty/DisplayExec.vo", "theories/Qty/PreludeF.vo"],
                       extra_obligations=["Qty.Prelude.prelude_wf", "Qty.Prelude.prelude_exact_int",
                                          "Qty.Prelude.prelude_exact_pos"])
    chk.trusted += [
        "model Qty/Model.v: convert_to, vm_convert (vm.rs Op::ConvertTo), displayed (quantity.rs pretty_print_internal)",
        "Gen/PreludeUnits.v generated from the hook dump on every run; table lemmas by vm_compute",
        "correspondence: coqc vm_compute of Qty.Exec.r_vmconv / r_conv vs harness/src/qty.rs",
        "display oracle: unit text rendered by tools/props/qtylib.py display_unit (port of unit.rs/product.rs Display)",
    ]
    quick = chk.tier == "quick"
    rng = chk.rng
    pairs = qtylib.ordered_pairs(tbl)
    gen = qtylib.Gen(rng, tbl)
    # case: dict(kind, line, check(ob)->why, model=(term builder) or None, meta)
    cases = []

    def add(kind, line, check, model=None, meta=None):
        cases.append(dict(kind=kind, line=line, check=check, model=model, meta=meta or {}))

    def conv_case(kind, v, ua, ub, tv=1.0, with_model=True):
        qa, qt = qtylib.rpn_q(qtylib.f2bits(v), ua), qtylib.rpn_q(qtylib.f2bits(tv), ub)
        model = None
        if with_model:
            model = lambda ob, v=v, ua=ua, ub=ub, tv=tv: (
                "r_vmconv PX_env prelude_n_exact %s %s %s %s" % (
                    qtylib.coq_Q(abs(Fraction(ob.value)) * Fraction(REL)), qtylib.coq_Q(Fraction(ob.value)),
                    tbl.coq_q(qtylib.f2bits(v), ua), tbl.coq_q(qtylib.f2bits(tv), ub)))
        add(kind, "R %s %s convto" % (qa, qt),
            lambda ob, v=v, ua=ua, ub=ub: check_conv(tbl, v, ua, ub, ob, "n"), model,
            dict(v=v, ua=qtylib.show_unit(ua), ub=qtylib.show_unit(ub), tv=tv))

    corpus_src = []
    for c in json.load(open(os.path.join(common.VERIF, "corpus", "c04.json"))):
        if "src" in c:
            corpus_src.append(c)
            continue
        conv_case("corpus", c["v"], qtylib.parse_unit(c["ua"]), qtylib.parse_unit(c["ub"]), c.get("tv", 1.0))
    for c in corpus_src:       # source text with the exact expected display
        add("corpus-src", "S " + c["src"],
            lambda ob, c=c: None if ob.kind == "Q" and ob.display == c["display"] else
            "`%s` displays %r, expected %r" % (c["src"], getattr(ob, "display", ob.raw), c["display"]),
            None, dict(src=c["src"]))

    # 1. every ordered pair, three magnitudes (model on the first, oracle on all)
    for (a, b) in pairs:
        ua, ub = [F(a)], [F(b)]
        ms = mags(rng)
        for k, v in enumerate(ms if not quick else ms[:2]):
            conv_case("pair", v, ua, ub, with_model=(k == 0))
    # 2. prefixed pairs
    for (a, b) in rng.sample(pairs, min(len(pairs), 500 if quick else len(pairs))):
        ua, ub = qtylib.one_factor(tbl, rng, a, 0.8), qtylib.one_factor(tbl, rng, b, 0.8)
        conv_case("pair-prefixed", mags(rng)[1], ua, ub, tv=rng.choice([1.0, 1.0, 45.0, 0.25]))
    # 3. back and via (direct calls)
    for (a, b) in rng.sample(pairs, min(len(pairs), 700 if quick else len(pairs))):
        ua, ub = qtylib.one_factor(tbl, rng, a, 0.3), qtylib.one_factor(tbl, rng, b, 0.3)
        v = mags(rng)[1]
        qa = qtylib.rpn_q(qtylib.f2bits(v), ua)
        one = qtylib.f2bits(1.0)

        def back_check(ob, v=v, ua=ua):
            if ob.kind != "Q" or ob.unit != ua:
                return "back conversion gave %s" % ob.raw[:60]
            if ob.finite() and not qtylib.rel_close(ob.value, v, 1e-12):
                return "(q -> U) -> unit(q) has magnitude %r, q has %r" % (ob.value, v)
            return None
        add("back", "R %s %s conv %s conv" % (qa, qtylib.rpn_q(one, ub), qtylib.rpn_q(one, ua)), back_check,
            meta=dict(v=v, ua=qtylib.show_unit(ua), ub=qtylib.show_unit(ub)))
        g = qtylib.dim_groups(tbl)[tbl.dimkey(ua)]
        uv = qtylib.one_factor(tbl, rng, rng.choice(g), 0.3)
        # via: compare (q -> V) -> U with q -> U by subtraction-free observation: run both, compare in Python
        add("via-a", "R %s %s conv %s conv" % (qa, qtylib.rpn_q(one, uv), qtylib.rpn_q(one, ub)),
            lambda ob: None, meta=dict(v=v, ua=qtylib.show_unit(ua), uv=qtylib.show_unit(uv), ub=qtylib.show_unit(ub)))
        add("via-b", "R %s %s conv" % (qa, qtylib.rpn_q(one, ub)), lambda ob: None)
    # 4. random compound units on either side (direct)
    for _ in range(400 if quick else 4000):
        ua = gen.unit()
        if len(ua) >= 2 and rng.random() < 0.2:
            ub = list(reversed(ua))          # the same unit with its factors in another order
        else:
            ub = gen.unit_of_dim(tbl.dim(ua))
        if ub is None or qtylib.range_risk(tbl, ("conv", ("lit", qtylib.f2bits(1.0), ua), ub), 200):
            continue
        conv_case("compound", mags(rng)[1], ua, ub, tv=rng.choice([1.0, 1.0, 3.0]))
    # 4b. chains of two explicit conversions  q -> c*V -> U  (U == V possibly respelled, zero values, magnitudes)
    def chain_check(ob, v, ua, tv1, u1, tv2, u2):
        why = check_conv(tbl, v, ua, u2, ob, "n")
        if why:
            return why
        want_t = None if tv2 == 1.0 else (qtylib.f2bits(tv2), u2)
        if (ob.target is None) != (want_t is None) or (want_t and (ob.target[0] != want_t[0] or ob.target[1] != want_t[1])):
            return "after `-> %r %s` the conversion target recorded for display is %r (expected %r)" % (
                tv2, qtylib.show_unit(u2), ob.target, want_t)
        want_unit = qtylib.display_unit(tbl, u2)
        if want_t is None and (" × " in ob.display or (want_unit and not ob.display.endswith(want_unit))):
            return "displayed %r instead of `value %s`" % (ob.display, want_unit)
        if want_t is not None and " × " not in ob.display:
            return "displayed %r is not of the form `coefficient × target`" % ob.display
        return None

    chain_specs = []
    for (a, b) in rng.sample(pairs, min(len(pairs), 500 if quick else len(pairs))):
        ua = qtylib.one_factor(tbl, rng, a, 0.3)
        u1 = qtylib.one_factor(tbl, rng, b, 0.3)
        kind = rng.choice(["same", "same", "other", "zero", "zero-other"])
        v = 0.0 if kind.startswith("zero") else mags(rng)[1]
        g = qtylib.dim_groups(tbl)[tbl.dimkey(ua)]
        u2 = list(u1) if kind in ("same", "zero") else qtylib.one_factor(tbl, rng, rng.choice(g), 0.3)
        chain_specs.append((v, ua, rng.choice([45.0, 16.0, 0.25, 1.0]), u1, rng.choice([1.0, 1.0, 1.0, 3.0]), u2))
    for _ in range(150 if quick else 1500):     # compound units, the second target a respelling of the first
        ua = gen.unit()
        u1 = gen.unit_of_dim(tbl.dim(ua))
        if u1 is None or len(u1) < 1 or qtylib.range_risk(tbl, ("conv", ("lit", qtylib.f2bits(1.0), ua), u1), 200):
            continue
        u2 = list(reversed(u1)) if rng.random() < 0.6 else list(u1)
        chain_specs.append((rng.choice([0.0, mags(rng)[1]]), ua, rng.choice([45.0, 2.0]), u1, 1.0, u2))
    for (v, ua, tv1, u1, tv2, u2) in chain_specs:
        qa = qtylib.rpn_q(qtylib.f2bits(v), ua)
        line = "R %s %s convto %s convto" % (qa, qtylib.rpn_q(qtylib.f2bits(tv1), u1), qtylib.rpn_q(qtylib.f2bits(tv2), u2))
        model = lambda ob, v=v, ua=ua, tv1=tv1, u1=u1, tv2=tv2, u2=u2: (
            "r_vmconv2_text PX_env prelude_n_exact %s %s %s %s %s" % (
                qtylib.coq_Q(abs(Fraction(ob.value)) * Fraction(2 * REL)), qtylib.coq_Q(Fraction(ob.value)),
                tbl.coq_q(qtylib.f2bits(v), ua), tbl.coq_q(qtylib.f2bits(tv1), u1), tbl.coq_q(qtylib.f2bits(tv2), u2)))
        add("chain", line, lambda ob, a=(v, ua, tv1, u1, tv2, u2): chain_check(ob, *a), model,
            dict(text=True, v=v, ua=qtylib.show_unit(ua), ub=qtylib.show_unit(u2), via=qtylib.show_unit(u1), tv1=tv1, tv2=tv2))
        # the same chain through the interpreter
        sa, s1, s2 = (qtylib.spell_unit(tbl, x, rng) for x in (ua, u1, u2))
        if sa and s1 and s2 and rng.random() < 0.5:
            src = "(%r * %s) -> (%r * %s) -> (%s)" % (v, sa, tv1, s1, s2 if tv2 == 1.0 else "%r * %s" % (tv2, s2))
            add("chain-interpret", "S " + src, lambda ob, a=(v, ua, tv1, u1, tv2, u2): chain_check(ob, *a), None,
                dict(src=src, v=v, ua=qtylib.show_unit(ua), ub=qtylib.show_unit(u2)))
    # 5. through interpret: displayed text
    for (a, b) in rng.sample(pairs, min(len(pairs), 400 if quick else 2000)):
        ua, ub = qtylib.one_factor(tbl, rng, a, 0.3), qtylib.one_factor(tbl, rng, b, 0.3)
        sa, sb = qtylib.spell_unit(tbl, ua, rng), qtylib.spell_unit(tbl, ub, rng)
        if sa is None or sb is None:
            continue
        v = float(rng.randint(1, 900)) / rng.choice([1, 2, 4, 8])
        k = rng.choice([None, None, 45.0, 0.5])
        src = "(%r * %s) -> (%s)" % (v, sa, sb if k is None else "%r * %s" % (k, sb))

        def disp_check(ob, v=v, ua=ua, ub=ub, k=k):
            why = check_conv(tbl, v, ua, ub, ob, "n")
            if why:
                return why
            want_unit = qtylib.display_unit(tbl, ub)
            text = ob.display
            if k is None:
                if ob.target is not None:
                    return "conversion target recorded although the target magnitude is 1"
                if want_unit and not text.endswith(want_unit):
                    return "displayed %r does not end in the requested unit %r" % (text, want_unit)
            else:
                if ob.target is None or qtylib.bits2f(ob.target[0]) != k or ob.target[1] != ub:
                    return "conversion target %r is not the requested %r %s" % (ob.target, k, qtylib.show_unit(ub))
                if " × " not in text or (want_unit and not text.endswith(want_unit)):
                    return "displayed %r is not of the form `coefficient × %r %s`" % (text, k, want_unit)
            return None
        add("interpret", "S " + src, disp_check, meta=dict(src=src))

    outs = common.run_harness(binary, "qty", [c["line"] for c in cases])
    obs = [Obs(o) for o in outs]

    failing = []
    for n, c in enumerate(cases):
        why = c["check"](obs[n])
        if why:
            failing.append((n, why))
    # via pairs
    for n in range(len(cases) - 1):
        if cases[n]["kind"] == "via-a":
            a, b = obs[n], obs[n + 1]
            if a.kind == "Q" and b.kind == "Q" and a.finite() and b.finite():
                if a.unit != b.unit or not qtylib.rel_close(a.value, b.value, 1e-12):
                    failing.append((n, "(q -> V) -> U = %s but q -> U = %s" % (a.raw[:70], b.raw[:70])))
            elif a.kind != b.kind:
                failing.append((n, "(q -> V) -> U = %s but q -> U = %s" % (a.raw[:70], b.raw[:70])))

    items, idx = [], []
    for n, c in enumerate(cases):
        ob = obs[n]
        if c["model"] is None or ob.kind != "Q" or not ob.finite():
            continue
        items.append((c["model"](ob), ob.expected_model_string() + ("|" + qtylib.display_shape_of(ob.display) if c["meta"].get("text") else "")
                      if tbl.exact_unit(ob.unit) and tbl.exact_unit(qtylib.parse_unit(c["meta"]["ua"]))
                      and tbl.exact_unit(qtylib.parse_unit(c["meta"].get("via", "-"))) else "OOS"))
        idx.append(n)
    bad = qtylib.coq_mismatches(items, "c04")
    mism = {idx[k]: v for k, v in bad.items()}

    for n, why in failing[:3]:
        c = cases[n]
        chk.violation({"kind": "conversion does not yield the requested unit / the same quantity",
                       "case_kind": c["kind"], "harness_line": c["line"], "meta": c["meta"],
                       "implementation": obs[n].raw, "detail": why,
                       "replay": "echo '<harness_line>' | harness/target/debug/nbverif qty   (./check C04 --replay <this file>)"})
    if not failing and (mism or not proved):
        n = min(mism) if mism else None
        chk.violation({"kind": "proof or correspondence no longer checks",
                       "theorem_or_correspondence": ("correspondence Qty/Model.v vm_convert vs Quantity::convert_to / Op::ConvertTo"
                                                     if mism else "Props/C04.v or table lemma: " + getattr(chk, "proof_failure", "?")),
                       "mismatching_cases": len(mism),
                       "first_case": None if n is None else {"harness_line": cases[n]["line"], "meta": cases[n]["meta"],
                                                             "implementation": obs[n].raw, "model": mism[n]}},
                      found_input=False)

    kinds = collections.Counter(c["kind"] for c in cases)
    distinct = {(c["meta"].get("ua"), c["meta"].get("ub")) for c in cases
                if c["meta"].get("ua") and c["meta"].get("ua") != c["meta"].get("ub")}
    chk.cov.update({
        "evaluations": len(cases),
        "distinct_nontrivial": len(distinct),
        "rule": "every ordered pair of same-dimension units of the dumped table (exhaustive, unprefixed) x magnitudes; "
                "sampled prefixed pairs, back/via conversions, random compound units, and `a -> U` through interpret with "
                "displayed text; non-trivial = source and target units differ; distinct = distinct (source unit, target unit)",
        "exhaustive": True, "exhaustive_what": "ordered same-dimension unit pairs of the table (%d incl. identical pairs)" % len(pairs),
        "unit_pairs": len(pairs), "dimensions": len(qtylib.dim_groups(tbl)),
        "case_kinds": dict(kinds), "model_evaluations": len(items), "model_mismatches": len(mism),
        "oracle_failures": len(failing), "oracle_failure_kinds": dict(collections.Counter(cases[n]["kind"] for n, _ in failing)),
        "relative_tolerance": REL,
        "outcomes": dict(collections.Counter(o.kind for o in obs)),
        "samples": [{"kind": cases[i]["kind"], "line": cases[i]["line"], "implementation": obs[i].raw}
                    for i in (0, len(cases) // 3, len(cases) - 1)],
    })
    chk.assumptions += [
        "exact level; f64 rounding measured with relative tolerance 1e-12 per conversion (1e-9 where a Planck unit is involved)",
        "number formatting (pretty_dtoa, num_format) is outside the model; only the unit part of the displayed text is checked",
    ]


def replay(path):
    r = json.load(open(path))
    if "harness_line" not in r:
        print(json.dumps(r, indent=1))
        return 0
    binary, tbl = qtylib.session()
    o = common.run_harness(binary, "qty", [r["harness_line"]], shards=1)[0]
    print("input:", r["harness_line"])
    print("implementation:", o)
    print("recorded detail:", r.get("detail"))
    m = r.get("meta", {})
    if "ua" in m and "ub" in m and "v" in m:
        why = check_conv(tbl, m["v"], qtylib.parse_unit(m["ua"]), qtylib.parse_unit(m["ub"]), Obs(o))
        print("property:", why or "holds")
        return 1 if why else 0
    return 0
