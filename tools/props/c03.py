"""C03 — quantity arithmetic agrees with dimensional analysis of unit definitions.

proof:  coq/theories/Props/C03.v (C03_table_base, C03_table_derived, C03_canon, C03_convert, C03_expr)
        over Qty/Model.v instantiated with exact rationals (Qty/Exec.v: QcN)
tie:    (1) translator: Gen/PreludeUnits.v regenerated from the unit table of the running
            implementation (hook numbat::verif::qty), table lemmas by vm_compute (Qty/Prelude.v)
        (2) correspondence: expression trees evaluated by direct calls on real Quantity values
            (harness `qty`, RPN) and through Context::interpret (source text with aliases and prefix
            spellings, raw global read back), vs the model evaluated by vm_compute in coqc
oracle: exact dimensional arithmetic from the dumped definitions, in Python fractions
        (qtylib.tree_exact) — independent of the model and of the implementation's algorithms
"""
import collections
import json
import os
from fractions import Fraction

import common
from props import qtylib
from props.qtylib import F, Obs

MANIFEST = dict(
    category="proof",
    text="Machine-checked proof (Coq) over an executable model of unit.rs/quantity.rs/product.rs/prefix.rs "
         "instantiated with exact rationals: the transitive base-unit factor and base-unit exponent vector of every "
         "unit satisfy the defining equations of dimensional analysis (C03_table_base/_derived); canonicalize "
         "preserves value and dimension for any sort order (C03_canon); convert_to with its common-factor "
         "cancellation returns the target unit, the same quantity, and only for equal exponent vectors "
         "(C03_convert), and succeeds whenever the exponent vectors are equal (C03_convert_complete: canonical forms "
         "of base-unit lists are unique under the name-based sort keys the code computes); hence for every expression tree over + - * / integer powers, negation and conversion the "
         "model's result in base units equals exact dimensional arithmetic (C03_expr, induction over trees; all "
         "closed under the global context). Exact level only: f64 rounding is outside the model and is bounded by "
         "the correspondence check (relative tolerance 1e-9 on the operand magnitude); non-integer powers and the "
         "Composed with the vm area's compiler-correctness theorem (C03_C09_composition, VM/QtyInstance.v): for programs "
         "of lets and expression statements over quantity literals, names, + - * / ^n -> the model machine running the "
         "model-compiled program yields a quantity whose size in base units is exact dimensional arithmetic. The "
         "five Planck units (half-integer exponents) are outside the exact value scope and only checked numerically "
         "(C03_convert_complete does cover them).",
    design_ref="DESIGN.md §6 C03; design/qty.md",
    note="Trusted: Coq kernel + vm_compute; the hand port Qty/Model.v (validated on every run against the real "
         "Quantity/Unit code by direct calls and through Context::interpret); the hook dump of the unit table and "
         "the translator tools/props/qtylib.py; f64 factors are read as exact rationals.",
    technique="Coq proof by induction over expression trees and unit tables + generated unit table with vm_compute "
              "table lemmas + model/implementation correspondence by vm_compute",
)

THEOREMS = ["C03_table_base", "C03_table_derived", "C03_canon", "C03_convert", "C03_convert_complete", "C03_expr"]
TABLE_LEMMAS = ["prelude_wf", "prelude_pos", "prelude_names_distinct", "prelude_embedded",
                "prelude_exact_wf", "prelude_exact_int", "prelude_exact_pos", "prelude_exact_names_distinct"]
REL = 1e-9


def run_tree(binary, t, mode="R", tbl=None, src=None):
    if mode == "R":
        return Obs(common.run_harness(binary, "qty", ["R " + qtylib.tree_rpn(t)], shards=1)[0])
    return qtylib.obs_of_src(common.run_harness(binary, "qty", ["S@r let r = " + src], shards=1)[0])


def run(chk):
    binary, tbl = qtylib.session()
    proved = chk.prove("Props.C03", THEOREMS,
                       ["theories/Props/C03.vo", "theories/Qty/Prelude.vo", "theories/Qty/DisplayExec.vo", "theories/Qty/PreludeF.vo"],
                       extra_obligations=["Qty.Prelude." + l for l in TABLE_LEMMAS])
    # cross-area composition with the compiler / machine model of the vm area (VM/QtyInstance.v)
    proved2 = chk.prove("Props.C03C09", ["C03_C09_composition", "C03_C09_expression"], ["theories/Props/C03C09.vo"])
    proved = proved and proved2
    chk.trusted += [
        "model Qty/Model.v is a hand port of numbat/src/{unit,quantity,product,prefix}.rs (named per function in the file)",
        "Gen/PreludeUnits.v is generated on every run from the hook dump numbat::verif::qty (unit table after `use prelude`); f64 factors as exact rationals",
        "table lemmas (Qty/Prelude.v, vm_compute): definitions acyclic, factors positive, names distinct, embedded identifiers = registered units, exact scope closed/integer",
        "correspondence: coqc vm_compute of Qty.Exec.r_evalu / r_base vs harness/src/qty.rs (direct Quantity calls and Context::interpret)",
        "oracle: exact dimensional arithmetic in Python fractions from the same dump (tools/props/qtylib.py tree_exact)",
    ]
    quick = chk.tier == "quick"
    gen = qtylib.Gen(chk.rng, tbl)
    cases = []   # (kind, mode, tree, src)
    for c in json.load(open(os.path.join(common.VERIF, "corpus", "c03.json"))):
        t = json.loads(json.dumps(c["tree"]), object_hook=None)
        cases.append(("corpus", c.get("mode", "R"), detuple(t), c.get("src")))
    # definitional: 1 u (with and without a prefix) in base units, every unit (exhaustive)
    for r in tbl.rows:
        for (pk, pe) in [("M", 0)] + ([chk.rng.choice(qtylib.accepted_prefixes(r))] if (r.metric or r.binary) else []):
            cases.append(("definition", "B", ("lit", qtylib.f2bits(1.0), [qtylib.Factor((r.name, pk, pe, 1, 1))]), None))
    n_direct = 1100 if quick else 12000
    n_src = 400 if quick else 4000
    n_bad = 200 if quick else 1500
    for _ in range(n_direct):
        t, _d = gen.tree(chk.rng.choice([1, 2, 2, 3, 3, 4, 5]))
        cases.append(("tree", "R", t, None))
    for _ in range(n_src):
        t, _d = gen.tree(chk.rng.choice([1, 2, 2, 3, 4]))
        src = qtylib.tree_src(tbl, t, chk.rng)
        if src is not None:
            cases.append(("tree-src", "S", t, src))
    # displayed results that go through the registry-based simplification: products with a prefix on every
    # factor (sizes 1e-45..1e45 in base units) whose dimension is that of some table unit, and sums of two of them
    for _ in range(250 if quick else 2500):
        u = gen.registry_product()
        if u is None:
            continue
        t = ("lit", qtylib.f2bits(chk.rng.choice([1.0, 6.0, 2.5, chk.rng.uniform(0.1, 100)])), u)
        if chk.rng.random() < 0.3:
            u2 = gen.unit_of_dim(tbl.dim(u))
            # unit sizes that are equal up to rounding make the f64 `<=` of smaller_unit differ from exact arithmetic
            if u2 is not None and not qtylib.rel_close(tbl.scale(u), tbl.scale(u2), 1e-9):
                t = ("add", t, ("lit", qtylib.f2bits(chk.rng.uniform(0.1, 100)), u2))
        src = qtylib.tree_src(tbl, t, chk.rng)
        if src is not None:
            cases.append(("registry-product", "S", t, src))
    for _ in range(n_bad):
        cases.append(("malformed", "R", gen.malformed(chk.rng.choice([1, 2, 3])), None))

    lines = []
    for kind, mode, t, src in cases:
        if mode == "R":
            lines.append("R " + qtylib.tree_rpn(t))
        elif mode == "B":
            lines.append("R %s base" % qtylib.tree_rpn(t))
        else:
            lines.append("S@r let r = " + src + "␤r")
    outs = common.run_harness(binary, "qty", lines)
    obs = [qtylib.obs_of_src(o) if cases[n][1] == "S" else Obs(o) for n, o in enumerate(outs)]
    shown = [Obs(o.split("\t")[0]) if cases[n][1] == "S" else None for n, o in enumerate(outs)]   # displayed (simplified) result

    risky = [qtylib.range_risk(tbl, t) for (_, _, t, _) in cases]
    # ---- oracle: the property itself on the implementation
    failing = []
    text_checked = 0
    skipped_range = skipped_scope = 0
    for n, (kind, mode, t, src) in enumerate(cases):
        ob = obs[n]
        if not all(tbl.exact_unit(u) for u in qtylib.tree_units(t)):
            # Planck units: numeric check of the definition only
            if mode == "B" and ob.kind == "Q" and ob.finite():
                want = tbl.fscale(t[2])
                if abs(ob.value - want) > 1e-9 * abs(want):
                    failing.append((n, "1 %s in base units is %r, the definition gives %r" % (
                        qtylib.show_unit(t[2]), ob.value, want)))
            skipped_scope += 1
            continue
        if (ob.kind == "Q" and not ob.finite()) or risky[n]:
            skipped_range += 1
            continue
        if mode == "S" and ob.kind == "E" and ob.err == "type":
            failing.append((n, "well-dimensioned source rejected by the type checker"))
            continue
        why = qtylib.check_tree_against_exact(tbl, t, ob, REL)
        if why:
            failing.append((n, why))
            continue
        # the displayed unit text is the rendering of the factor list (order, prefixes, exponents)
        for o2 in (ob, shown[n]):
            if o2 is not None and o2.kind == "Q":
                text_checked += 1
                want = qtylib.display_unit(tbl, o2.unit)
                if not o2.display.endswith(want) or (want == "" and not o2.display.replace("_", "").replace("e+", "e").lstrip("-").replace(".", "").replace("e-", "e").replace("inf", "1").replace("NaN", "1").isalnum()):
                    failing.append((n, "displayed %r, the unit factor list %s renders as %r" % (
                        o2.display, qtylib.show_unit(o2.unit), want)))
                    break
        # the displayed (simplified) value denotes the same quantity
        if shown[n] is not None and shown[n].kind == "Q" and shown[n].finite() and tbl.exact_unit(shown[n].unit):
            why = qtylib.check_tree_against_exact(tbl, t, shown[n], REL)
            if why:
                failing.append((n, "displayed result: " + why))

    # ---- model vs implementation
    items, idx = [], []
    for n, (kind, mode, t, src) in enumerate(cases):
        ob = obs[n]
        if (ob.kind == "Q" and not ob.finite()) or risky[n]:
            continue
        scope = all(tbl.exact_unit(u) for u in qtylib.tree_units(t))
        if ob.kind == "Q":
            tol = qtylib.abs_tol(tbl, t, ob.unit, REL) if scope and tbl.exact_unit(ob.unit) else Fraction(0)
            impl = Fraction(ob.value)
        else:
            tol, impl = Fraction(0), Fraction(0)
        if mode == "B":
            term = "r_base PX_env prelude_n_exact %s %s %s" % (qtylib.coq_Q(tol), qtylib.coq_Q(impl), tbl.coq_unit(t[2]))
            want = "ok:" + qtylib.show_unit(ob.unit) if ob.kind == "Q" else ob.expected_model_string()
        else:
            term = "r_evalu PX_env prelude_n_exact %s %s %s" % (qtylib.coq_Q(tol), qtylib.coq_Q(impl), qtylib.tree_coq(tbl, t))
            want = "ok:" + qtylib.show_unit(ob.unit) if ob.kind == "Q" else ob.expected_model_string()
        if not scope:
            want = "OOS"
        items.append((term, want))
        idx.append(n)
        sh = shown[n]
        if mode == "S" and scope and sh is not None and sh.kind == "Q" and sh.finite() and tbl.exact_unit(sh.unit) \
                and not qtylib.range_risk(tbl, t, 150.0):   # simplification multiplies further conversion factors
            tol2 = qtylib.abs_tol(tbl, t, sh.unit, REL)
            items.append(("r_evalsimp_text PX_env prelude_n_exact %s %s %s" % (
                qtylib.coq_Q(tol2), qtylib.coq_Q(Fraction(sh.value)), qtylib.tree_coq(tbl, t)),
                "ok:" + qtylib.show_unit(sh.unit) + "|" + qtylib.display_shape_of(sh.display)))
            idx.append(("shown", n))
    bad = qtylib.coq_mismatches(items, "c03")
    mism, registry_rewrites, shown_oos, size_ties = {}, 0, 0, 0
    for k, v in bad.items():
        if isinstance(idx[k], tuple):
            n = idx[k][1]
            if v == "OOS":
                shown_oos += 1
            elif (v.startswith("ok:") or v.startswith("val=")) and len(qtylib.parse_unit(v.split("|")[0].split(":")[1])) > len(shown[n].unit):
                registry_rewrites += 1      # the session's unit registry found a simpler unit than the heuristics
                                            # (the value of the displayed result is judged by the oracle above)
            elif v.startswith("ok:") and qtylib.parse_unit(v.split("|")[0].split(":")[1]) != shown[n].unit \
                    and sorted(qtylib.parse_unit(v.split("|")[0].split(":")[1])) == sorted(shown[n].unit):
                registry_rewrites += 0      # same factors, tie order of equal sort keys (sort_unstable)
            else:
                mism[n] = "displayed result: model " + v
        else:
            n = idx[k]
            if v.startswith("ok:") and obs[n].kind == "Q":
                mu = qtylib.parse_unit(v.split(":")[1])
                if tbl.exact_unit(mu) and tbl.exact_unit(obs[n].unit) and tbl.dim(mu) == tbl.dim(obs[n].unit) \
                        and qtylib.rel_close(tbl.scale(mu), tbl.scale(obs[n].unit), 1e-9):
                    size_ties += 1      # two operand units of equal size up to rounding: the f64 `<=` of
                    continue            # smaller_unit is not an exact-level fact; the value agrees
            mism[n] = v

    if os.environ.get("NV_DEBUG"):
        for n in list(mism)[:8]:
            print("MISMATCH", cases[n][1], cases[n][3], "| impl", outs[n][:260], "| model", mism[n][:200])
    # ---- decide
    reported = 0
    for n, why in failing[:3]:
        kind, mode, t, src = cases[n]
        small = t
        if mode == "R":
            small = qtylib.shrink_tree(t, lambda s: qtylib.check_tree_against_exact(
                tbl, s, run_tree(binary, s), REL) is not None)
        ob = run_tree(binary, small) if mode == "R" and small is not t else obs[n]
        chk.violation({
            "kind": "quantity arithmetic departs from exact dimensional arithmetic of the unit definitions",
            "mode": {"R": "direct Quantity calls", "S": "Context::interpret", "B": "to_base_unit_representation"}[mode],
            "tree": small, "rpn": qtylib.tree_rpn(small), "source": src if small is t else qtylib.tree_src(tbl, small),
            "implementation": ob.raw, "detail": why if small is t else qtylib.check_tree_against_exact(tbl, small, ob, REL),
            "replay": "./check C03 --replay <this file>",
        })
        reported += 1
    if not failing and (mism or not proved):
        n = min(mism) if mism else None
        chk.violation({
            "kind": "proof or correspondence no longer checks",
            "theorem_or_correspondence": ("correspondence Qty/Model.v (exact instance) vs numbat quantity/unit code"
                                          if mism else "Props/C03.v or table lemma: " + getattr(chk, "proof_failure", "?")),
            "mismatching_cases": len(mism),
            "first_case": None if n is None else {
                "mode": cases[n][1], "tree": cases[n][2], "rpn": qtylib.tree_rpn(cases[n][2]), "source": cases[n][3],
                "implementation": obs[n].raw, "model": mism[n]},
        }, found_input=False)

    # ---- coverage
    ops = collections.Counter()
    shapes = set()
    nontrivial = set()
    for kind, mode, t, src in cases:
        sh = qtylib.tree_shape(t)
        shapes.add(sh)
        for tok in qtylib.tree_rpn(t).split():
            if not tok.startswith("q:"):
                ops[tok.split(":")[0]] += 1
        us = {f.name for u in qtylib.tree_units(t) for f in u}
        if qtylib.tree_size(t) >= 3 and len(us) >= 2:
            nontrivial.add((sh, tuple(sorted(us))))
    all_used = gen.used_units | {t[2][0].name for k, m, t, s in cases if m == "B"}
    pick = [i for i in (0, len(cases) // 2, len(cases) - n_bad - 5, len(cases) - 1) if 0 <= i < len(cases)]
    chk.cov["oracle_failure_kinds"] = dict(collections.Counter(cases[n][0] for n, _ in failing))
    chk.cov.update({
        "evaluations": len(cases),
        "distinct_nontrivial": len(nontrivial),
        "rule": "corpus + every unit's definition in base units (exhaustive over the dumped table, with a random accepted "
                "prefix) + seeded random dimensionally well-formed trees (depth<=5; + - * / ^n neg ->) by direct calls and "
                "through interpret + a malformed stream; non-trivial = at least one operator and two different units; "
                "distinct = distinct (tree shape, unit set)",
        "exhaustive": False,
        "units_in_table": len(tbl.rows), "units_exact_scope": tbl.n_exact, "units_used": len(all_used),
        "prefixes_used": len(gen.used_prefixes), "tree_shapes": len(shapes),
        "op_histogram": dict(ops),
        "modes": dict(collections.Counter(m for _, m, _, _ in cases)),
        "outcomes": dict(collections.Counter(o.kind + (":" + o.err if o.kind == "E" else "") for o in obs)),
        "skipped_float_range": skipped_range, "outside_exact_scope": skipped_scope,
        "model_mismatches": len(mism), "oracle_failures": len(failing),
        "displayed_unit_texts_checked": text_checked, "displayed_texts_vs_coq_display_model": sum(1 for i in idx if isinstance(i, tuple)), "displayed_results_vs_model": sum(1 for i in idx if isinstance(i, tuple)),
        "displayed_results_rewritten_by_registry": registry_rewrites, "model_unit_size_ties_not_compared": size_ties, "displayed_results_outside_exact_scope": shown_oos,
        "relative_tolerance": REL,
        "samples": [{"kind": cases[i][0], "mode": cases[i][1], "rpn": qtylib.tree_rpn(cases[i][2]),
                     "source": cases[i][3], "implementation": obs[i].raw} for i in pick],
    })
    chk.assumptions += [
        "exact level: f64 conversion factors and literals are read as exact rationals; rounding is bounded by the relative tolerance 1e-9 on the operand magnitude, not proved",
        "integer powers only; units with non-integer exponents in their definition (Planck units) are outside the exact scope",
        "the unit table dumped through the hook is the table the interpreter uses (embedded identifiers checked equal to registered ones)",
    ]


def detuple(t):
    """JSON lists -> tree tuples with Factor units"""
    k = t[0]
    if k == "lit":
        return ("lit", t[1], [qtylib.Factor(tuple(f)) for f in t[2]])
    if k in ("add", "sub", "mul", "div"):
        return (k, detuple(t[1]), detuple(t[2]))
    if k == "neg":
        return ("neg", detuple(t[1]))
    if k == "pow":
        return ("pow", detuple(t[1]), t[2])
    return ("conv", detuple(t[1]), [qtylib.Factor(tuple(f)) for f in t[2]])


def replay(path):
    r = json.load(open(path))
    if "tree" not in r:
        print(json.dumps(r, indent=1))
        return 0
    binary, tbl = qtylib.session()
    t = detuple(r["tree"])
    ob = run_tree(binary, t)
    why = qtylib.check_tree_against_exact(tbl, t, ob, REL)
    print("rpn:", qtylib.tree_rpn(t))
    print("implementation:", ob.raw)
    print("departs from exact dimensional arithmetic: " + why if why else "agrees with exact dimensional arithmetic")
    return 1 if why else 0
