"""C23 — standard-library inverse conversions round-trip.

translator: the arithmetic fragment of numbat/modules/{physics/temperature_conversion, datetime/unixtime,
        datetime/julian_date, math/trigonometry_extra}.nbt is parsed (tools/props/nbtexpr.py) and written to
        coq/theories/Gen/NbtFunsQ.v (over Q) and Gen/NbtFunsR.v (over R) on every run; the inverse-pair
        theorems in Stdlib/InverseQ.v, Stdlib/InverseR.v are re-checked against what the library says now.
tie:    the same syntax trees are evaluated in Python (floats) and compared with the implementation
        (harness `eval`, Context::interpret) on random arguments; the Q definitions are also evaluated by
        vm_compute and compared exactly with the Fraction evaluation of the trees (so the Gallina printer is
        inside the comparison).  _mixed_unit_list is a hand port (Stdlib/Model.v) compared with unit_list().
oracle: the round trips themselves on the implementation (g(f(x)) ~ x), including the FFI pairs that have no model.
"""
import collections
import json
import math
import os
import re
from fractions import Fraction

import common
from props import nbtexpr
from props.nbtexpr import Unsupported

MANIFEST = dict(
    category="proof",
    text="proof (partial). The library definitions of the temperature scales, Unix-time units/functions, Julian date "
         "and the extra trigonometric/hyperbolic functions are translated from the .nbt sources into Gallina on every "
         "run; machine-checked (Coq): °C/from_celsius and °F/from_fahrenheit are mutually inverse over Q, "
         "julian_date/from_julian_date are mutually inverse, unixtime_{s,ms,µs}(from_unixtime_{s,ms,µs}(n)) = n for "
         "every integer n and from_unixtime(unixtime(t)) = t on µs-aligned instants (exact rational arithmetic, no "
         "range limits), coth(acoth x) = x for |x| > 1, acoth(coth x) = x for x <> 0, cot(acot x) = x for x <> 0, "
         "sech(asech x) = x for 0 < x <= 1, csch(acsch x) = x for x <> 0, secant(arcsecant x) = x and csc(acsc x) = x for "
         "|x| >= 1, sqrt(sqr x) = x and sqr(sqrt x) = x for x >= 0, cbrt(x^3) = x for x <> 0 over "
         "the reals (stdlib real-number axioms), and for the hand-ported _mixed_unit_list: the parts add up to the "
         "value, there is one part per unit and all but the last are whole multiples of their unit, for arbitrary unit lists "
         "(C23_mixed_sum, C23_mixed_whole), for positive unit sizes and a value >= 0 every step leaves 0 <= remainder < unit "
         "and all parts are >= 0 (C23_mixed_positive), and for unit_list with its unique/sort-descending cleaning "
         "(C23_unit_list); the aliases celsius/fahrenheit equal °C/°F (C23_temperature_aliases); a hand port of "
         "reverse is an involution (C23_reverse). NOT proved "
         "(oracle/correspondence only): floating-point behaviour (tolerances), the FFI pairs sin/asin, cos/acos, "
         "tan/atan, sinh/asinh, cosh/acosh, tanh/atanh, exp/ln, log10, log2, "
         "the jiff calendar behind DateTime; the FFI pairs are oracle-only by nature (libm).",
    design_ref="DESIGN.md §6 C23; design/misc.md",
    note="Trusted: Coq kernel; the translator tools/props/c23.py + nbtexpr.py (its output is compared with the running "
         "implementation on random arguments, and Q definitions are evaluated in Coq against the same trees); "
         "quantities are modelled by their magnitude in the base unit (x -> u is the identity, value_of(x -> u) = x/u); "
         "`e^x` is translated to exp x.",
    technique="source-to-Gallina translator + Coq proofs over Q and R + implementation correspondence + round-trip oracle",
)

THEOREMS = ["C23_celsius", "C23_fahrenheit", "C23_temperature_aliases", "C23_julian", "C23_unixtime_int", "C23_unixtime_aligned",
            "C23_coth_acoth", "C23_acoth_coth", "C23_cot_acot", "C23_sech_asech", "C23_csch_acsch",
            "C23_sec_arcsec", "C23_csc_acsc", "C23_sqrt_sqr", "C23_cbrt_cube", "C23_mixed_sum", "C23_mixed_whole", "C23_mixed_positive", "C23_unit_list", "C23_reverse"]
ALLOWED_AXIOMS = ["ClassicalDedekindReals.sig_forall_dec", "ClassicalDedekindReals.sig_not_dec",
                  "FunctionalExtensionality.functional_extensionality_dep", "Classical_Prop.classic"]
# common.print_assumptions reads the header line "Axioms:" as a name and misses names whose type starts on the
# next line; fix_assumptions() below re-parses the output properly (tools/common.py is shared and not edited here)

MODS = os.path.join(common.REPO, "numbat", "modules")

# module, wanted definitions (in source order), target
Q_SOURCES = [
    ("physics/temperature_conversion.nbt",
     ["_offset_celsius", "from_celsius", "°C", "celsius", "degree_celsius",
      "_offset_fahrenheit", "_scale_fahrenheit", "from_fahrenheit", "°F", "fahrenheit", "degree_fahrenheit"]),
    ("datetime/unixtime.nbt",
     ["unix_s", "unix_ms", "unix_µs", "unixtime", "unixtime_s", "unixtime_ms", "unixtime_µs",
      "from_unixtime", "from_unixtime_s", "from_unixtime_ms", "from_unixtime_µs"]),
    ("datetime/julian_date.nbt", ["_julian_epoch", "julian_date", "J2000", "from_julian_date"]),
]
R_SOURCES = [
    ("core/functions.nbt", ["sqrt", "cbrt", "sqr"]),
    ("math/trigonometry_extra.nbt", ["cot", "acot", "coth", "acoth", "secant", "arcsecant", "cosecant", "csc", "acsc",
                                     "sech", "asech", "csch", "acsch"]),
]
EXTERNAL_UNITS = {"kelvin": "nbt_kelvin"}          # base units defined outside the translated modules
FFI = {"_unixtime_µs": "ffi_unixtime_us", "_from_unixtime_µs": "ffi_from_unixtime_us"}
R_BUILTINS = {"ln": "ln", "exp": "exp", "sinh": "sinh", "cosh": "cosh", "tan": "tan", "atan": "atan",
              "sin": "sin", "cos": "cos", "asin": "asin", "acos": "acos"}


def coq_name(n):
    s = n.replace("°", "deg_").replace("µ", "u")
    if not re.match(r"^[A-Za-z_][A-Za-z0-9_]*$", s):
        raise Unsupported("cannot name %r" % n)
    return "nbt_" + s


def days_from_civil(y, m, d):
    y -= m <= 2
    era = y // 400
    yoe = y - era * 400
    doy = (153 * (m + (-3 if m > 2 else 9)) + 2) // 5 + d - 1
    doe = yoe * 365 + yoe // 4 - yoe // 100 + doy
    return era * 146097 + doe - 719468


def datetime_literal(s):
    m = re.match(r"^(-?\d+)-(\d\d)-(\d\d) (\d\d):(\d\d):(\d\d) UTC$", s)
    if not m:
        raise Unsupported("datetime literal %r" % s)
    y, mo, d, h, mi, se = map(int, m.groups())
    return Fraction(days_from_civil(y, mo, d) * 86400 + h * 3600 + mi * 60 + se)


class Lib:
    """translated definitions: name -> (kind, params, ast)"""

    def __init__(self):
        self.defs = collections.OrderedDict()
        self.units = set(EXTERNAL_UNITS)

    def load(self, rel, wanted):
        path = os.path.join(MODS, rel)
        found = {}
        for kind, name, params, body in nbtexpr.definitions(path):
            if name in wanted:
                found[name] = (kind, params, body)
        for name in wanted:
            if name not in found:
                raise Unsupported("%s: definition of %s not found (single-line `fn/let/unit … = …` expected)" % (rel, name))
            kind, params, body = found[name]
            if kind == "unit":
                self.units.add(name)
                ast = nbtexpr.parse_expr(body) if body else ("num", Fraction(1))
            else:
                ast = nbtexpr.parse_expr(body)
            self.defs[name] = (kind, params, ast, rel)

    # ---- emission
    def emit(self, name, target):
        kind, params, ast, rel = self.defs[name]
        ty = "Q" if target == "Q" else "R"
        body = self.term(ast, set(params), target)
        ps = "".join(" (%s : %s)" % (p, ty) for p in params)
        return "(* %s: %s *)\nDefinition %s%s : %s := %s.\n" % (rel, name, coq_name(name), ps, ty, body)

    def num(self, q, target):
        if target == "Q":
            return "(%d # %d)" % (q.numerator, q.denominator) if q >= 0 else "(- (%d # %d))" % (-q.numerator, q.denominator)
        if q.denominator == 1:
            return "%d" % q.numerator if q >= 0 else "(- %d)" % -q.numerator
        return "(%d / %d)" % (q.numerator, q.denominator)

    def is_unit(self, a):
        return a[0] == "id" and a[1] in self.units

    def term(self, a, params, target):
        t = lambda x: self.term(x, params, target)
        k = a[0]
        if k == "num":
            return self.num(a[1], target)
        if k == "id":
            n = a[1]
            if n in params:
                return n
            if n in EXTERNAL_UNITS:
                return EXTERNAL_UNITS[n] if target == "Q" else "1"
            if n in self.defs and not self.defs[n][1]:
                return coq_name(n)
            raise Unsupported("identifier %r" % n)
        if k == "neg":
            return "(- %s)" % t(a[1])
        if k == "bin":
            op, x, y = a[1], a[2], a[3]
            if op == "^":
                if x == ("id", "e") and target == "R":
                    return "(exp %s)" % t(y)
                if y[0] == "num" and y[1].denominator == 1 and y[1] >= 0:
                    return "(%s ^ %d)" % (t(x), y[1].numerator)
                if target == "R" and y == ("bin", "/", ("num", Fraction(1)), ("num", Fraction(2))):
                    return "(sqrt %s)" % t(x)          # x^(1/2), the definition of core::functions::sqrt
                if target == "R" and y[0] == "bin" and y[1] == "/" and y[2][0] == "num" and y[3][0] == "num":
                    return "(Rpower %s %s)" % (t(x), t(y))       # other constant rational exponents
                raise Unsupported("power %r" % (a,))
            return "(%s %s %s)" % (t(x), op, t(y))
        if k == "if" and target == "R" and a[1][0] == "cmp" and a[1][1] in ("<", ">"):
            c = a[1]
            lo, hi = (c[2], c[3]) if c[1] == "<" else (c[3], c[2])
            return "(if Rlt_dec %s %s then %s else %s)" % (t(lo), t(hi), t(a[2]), t(a[3]))
        if k == "conv":
            x, y = a[1], a[2]
            if self.is_unit(y):
                return t(x)                       # magnitudes in the base unit: a conversion is the identity
            if y[0] == "id" and y[1] in self.defs and len(self.defs[y[1]][1]) == 1:
                return "(%s %s)" % (coq_name(y[1]), t(x))
            raise Unsupported("conversion target %r" % (y,))
        if k == "call":
            f, args = a[1], a[2]
            if f == "value_of" and len(args) == 1:
                x = args[0]
                if x[0] == "conv" and self.is_unit(x[2]):
                    return "(%s / %s)" % (t(x[1]), t(x[2]))
                if x[0] == "call" and x[1] == "floor_in" and len(x[2]) == 2 and self.is_unit(x[2][0]):
                    return "(q_floor (%s / %s))" % (t(x[2][1]), t(x[2][0]))
                raise Unsupported("value_of of %r" % (x,))
            if f == "floor" and len(args) == 1 and target == "Q":
                return "(q_floor %s)" % t(args[0])
            if f == "floor_in" and len(args) == 2 and target == "Q":
                return "(nbt_floor_in %s %s)" % (t(args[0]), t(args[1]))
            if f == "datetime" and len(args) == 1 and args[0][0] == "str":
                return self.num(datetime_literal(args[0][1]), target)
            if f in FFI and target == "Q":
                return "(%s %s)" % (FFI[f], " ".join(t(x) for x in args))
            if f in R_BUILTINS and target == "R":
                return "(%s %s)" % (R_BUILTINS[f], " ".join(t(x) for x in args))
            if f in self.defs and len(self.defs[f][1]) == len(args):
                return "(%s %s)" % (coq_name(f), " ".join(t(x) for x in args))
            raise Unsupported("call of %r" % f)
        raise Unsupported("node %r" % (a,))

    # ---- evaluation of the same trees (exact=True: Fractions; else floats)
    def ev(self, a, env, exact):
        e = lambda x: self.ev(x, env, exact)
        k = a[0]
        if k == "num":
            return a[1] if exact else float(a[1])
        if k == "id":
            n = a[1]
            if n in env:
                return env[n]
            if n in EXTERNAL_UNITS:
                return Fraction(1) if exact else 1.0
            if n == "e" and not exact:
                return math.e
            if n in self.defs and not self.defs[n][1]:
                return self.ev(self.defs[n][2], {}, exact)
            raise Unsupported("identifier %r" % n)
        if k == "neg":
            return -e(a[1])
        if k == "bin":
            op, x, y = a[1], e(a[2]), e(a[3])
            if op == "+":
                return x + y
            if op == "-":
                return x - y
            if op == "*":
                return x * y
            if op == "/":
                return x / y
            if op == "^":
                return x ** y
        if k == "if":
            c = a[1]
            l, r = e(c[2]), e(c[3])
            holds = {"<": l < r, ">": l > r, "<=": l <= r, ">=": l >= r}[c[1]]
            return e(a[2]) if holds else e(a[3])
        if k == "conv":
            if self.is_unit(a[2]):
                return e(a[1])
            return self.call(a[2][1], [e(a[1])], exact)
        if k == "call":
            f, args = a[1], a[2]
            if f == "value_of":
                x = args[0]
                if x[0] == "conv":
                    return e(x[1]) / e(x[2])
                return self.floor(e(x[2][1]) / e(x[2][0]), exact)
            if f == "floor":
                return self.floor(e(args[0]), exact)
            if f == "floor_in":
                b, v = e(args[0]), e(args[1])
                return self.floor(v / b, exact) * b
            if f == "datetime":
                d = datetime_literal(args[0][1])
                return d if exact else float(d)
            if f == "_unixtime_µs":
                return self.trunc(e(args[0]) * 1000000, exact)
            if f == "_from_unixtime_µs":
                v = e(args[0])
                r = math.floor(abs(v) + Fraction(1, 2)) if exact else math.floor(abs(v) + 0.5)     # f64::round
                r = r if v >= 0 else -r
                return (Fraction(r) if exact else float(r)) / 1000000
            if f in R_BUILTINS:
                return getattr(math, f)(*[e(x) for x in args]) if f != "ln" else math.log(e(args[0]))
            return self.call(f, [e(x) for x in args], exact)
        raise Unsupported("node %r" % (a,))

    @staticmethod
    def floor(x, exact):
        return Fraction(math.floor(x)) if exact else float(math.floor(x))

    @staticmethod
    def trunc(x, exact):
        return Fraction(math.trunc(x)) if exact else float(math.trunc(x))

    def call(self, f, vals, exact):
        kind, params, ast, _ = self.defs[f]
        return self.ev(ast, dict(zip(params, vals)), exact)


HEADER = "(* GENERATED by tools/props/c23.py from numbat/modules — do not edit; rewritten on every check run. *)\n"


def translate():
    lib = Lib()
    for rel, wanted in Q_SOURCES + R_SOURCES:
        lib.load(rel, wanted)
    q = [HEADER, "From Coq Require Import QArith Qround ZArith.\nFrom NV Require Import Stdlib.Model.\nLocal Open Scope Q_scope.\n"]
    for rel, wanted in Q_SOURCES:
        for n in wanted:
            q.append(lib.emit(n, "Q"))
    r = [HEADER, "From Coq Require Import Reals.\nLocal Open Scope R_scope.\n"]
    for rel, wanted in R_SOURCES:
        for n in wanted:
            r.append(lib.emit(n, "R"))
    return lib, "\n".join(q), "\n".join(r)


def fix_assumptions(chk, module, theorems, allowed):
    res, out = common.print_assumptions(module, theorems)
    if res is None:
        return False
    per, cur = {}, None
    for line in out.splitlines():
        if line.startswith("@@THM "):
            cur = line[6:].strip()
            per[cur] = []
        elif cur is not None:
            m = re.match(r"^([A-Za-z_][\w.']*)\s*(:|$)", line)
            if m and m.group(1) not in ("Axioms", "Closed"):
                per[cur].append(m.group(1))
    ok = True
    new = []
    for name, good, ax in chk.obligations:
        if name in per:
            good = all(a in allowed for a in per[name])
            ax = per[name]
            ok = ok and good
        new.append((name, good, ax))
    chk.obligations[:] = new
    return ok


def write_if_changed(path, content):
    os.makedirs(os.path.dirname(path), exist_ok=True)
    if not os.path.exists(path) or open(path).read() != content:
        open(path, "w").write(content)
        return True
    return False


# ------------------------------------------------------------------ cases
def fl(x):
    return repr(float(x))


def q_of_bits(out):
    """Q:<bits>:<unit> -> (float, unit)"""
    if not out.startswith("Q:"):
        return None
    _, b, u = out.split(":", 2)
    return common_float(int(b, 16)), u


def common_float(bits):
    import struct
    return struct.unpack("<d", struct.pack("<Q", bits))[0]


def close(a, b, rel=1e-9, abs_=1e-12):
    if a is None or b is None:
        return False
    if math.isnan(a) or math.isnan(b):
        return math.isnan(a) and math.isnan(b)
    if math.isinf(a) or math.isinf(b):
        return a == b
    return abs(a - b) <= abs_ + rel * max(abs(a), abs(b))


# supported instants: jiff Timestamp -377705023201 s ..= 253402207200 s (years -9999 .. 9999); the Julian epoch
# (-4713-11-24 12:00 UTC) is at -210866846400 s, so about a quarter of the range has NEGATIVE Julian dates
TS_MIN_S, TS_MAX_S, JULIAN_EPOCH_S = -377705023201, 253402207200, -210866846400


def rand_instant_us(rng):
    """an instant as whole microseconds since the Unix epoch, exactly representable as f64, with a sub-second part
    wherever the magnitude allows it: uniform over the whole supported range, around the Unix and Julian epochs
    (both signs), and near the ends of the range"""
    r = rng.random()
    if r < 0.35:
        sec = rng.randrange(TS_MIN_S + 86400, TS_MAX_S - 86400)
    elif r < 0.55:
        sec = rng.randrange(-3 * 10 ** 9, 5 * 10 ** 9)                     # 1875 .. 2128, before and after 1970
    elif r < 0.7:
        sec = rng.choice([-1, 1]) * rng.randrange(0, 10 ** 5)              # hours around 1970
    elif r < 0.85:
        sec = JULIAN_EPOCH_S + rng.choice([-1, 1]) * rng.randrange(0, 10 ** rng.randrange(1, 11))
    else:
        sec = rng.choice([TS_MIN_S + 86400 + rng.randrange(10 ** 6), TS_MAX_S - 86400 - rng.randrange(10 ** 6)])
    us = sec * 10 ** 6 + rng.randrange(0, 10 ** 6)
    return int(float(us))                                                  # nearest f64-representable integer


def rand_julian_days(rng):
    """Julian dates over the supported range (about -1.93e6 .. 5.37e6 days), negative and fractional ones included"""
    r = rng.random()
    if r < 0.4:
        return rng.uniform(-1.9e6, 5.3e6)
    if r < 0.7:
        return rng.choice([-1, 1]) * rng.uniform(0, 10 ** rng.randrange(0, 7))
    if r < 0.85:
        return -rng.randrange(1, 10 ** 6) - rng.randrange(1, 100000) / 100000.0   # e.g. -1234.56789
    return float(rng.randrange(-10 ** 6, 3 * 10 ** 6))


def gen_datetime_oracle_cases(rng, n):
    """(pair, source, kind, expected, tolerance): both directions of every date-time pair of the library, on
    instants / timestamps / Julian dates from the whole supported range"""
    cs = []
    for _ in range(n):
        jd = rand_julian_days(rng)
        cs.append(("julian_date∘from_julian_date", "from_julian_date(%s days) -> julian_date" % fl(jd), "Q", jd * 86400.0, 1e-3))
        us = rand_instant_us(rng)
        inst = "from_unixtime_µs(%d)" % us
        cs.append(("from_julian_date∘julian_date", "from_julian_date(julian_date(%s))" % inst, "D", us * 1000, 10 ** 6))
        # unixtime() is a number of seconds in f64: exact back to the microsecond below 2^50 µs, else within its ulp
        cs.append(("from_unixtime∘unixtime", "from_unixtime(unixtime(%s))" % inst, "D", us * 1000,
                   0 if abs(us) < 2 ** 50 else int(abs(us) * 1000 * 2.0 ** -50)))
        # timestamps with a fractional part, both signs (from_unixtime keeps whole microseconds, rounding)
        x = rng.choice([-1, 1]) * (rng.randrange(0, 10 ** rng.randrange(1, 11)) + rng.randrange(0, 10 ** 6) / 1e6)
        cs.append(("unixtime∘from_unixtime", "unixtime(from_unixtime(%s unix_s))" % fl(x), "Q", x, 0.5e-6 + abs(x) * 4e-16))
        k = rng.choice([-1, 1]) * rng.randrange(0, 10 ** rng.randrange(1, 12))
        f = rng.choice(["s", "ms", "µs"])
        cs.append(("unixtime_%s∘from_unixtime_%s" % (f, f), "unixtime_%s(from_unixtime_%s(%d))" % (f, f, k), "Q", float(k), 0.0))
        # date-time ± a duration with a sub-second part of more than a second, both signs, then the difference
        d = rng.choice([-1, 1]) * (rng.randrange(1, 10 ** rng.randrange(1, 8)) + rng.randrange(1, 10 ** 6) / 1e6)
        cs.append(("(t + d) - t", "((%s + (%s s)) - %s) -> s" % (inst, fl(d), inst), "Q", d, 1e-9 + abs(d) * 1e-15))
    return cs


def gen_model_cases(rng, lib, n):
    """(kind, name, source text, python-argument) for model-vs-implementation comparison"""
    cs = []
    for _ in range(n):
        x = rng.choice([rng.uniform(-500, 500), rng.uniform(-1e4, 1e6), float(rng.randrange(-300, 1000)), rng.uniform(0, 1)])
        cs.append(("scalar->K", "from_celsius", "from_celsius(%s)" % fl(x), x))
        cs.append(("scalar->K", "from_fahrenheit", "from_fahrenheit(%s)" % fl(x), x))
        t = rng.choice([rng.uniform(0, 1000), rng.uniform(0, 1e6), float(rng.randrange(0, 5000))])
        cs.append(("K->scalar", "°C", "°C(%s K)" % fl(t), t))
        cs.append(("K->scalar", "°F", "°F(%s K)" % fl(t), t))
        us = rand_instant_us(rng)
        inst = "from_unixtime_µs(%d)" % us
        tq = Fraction(us, 10 ** 6)
        cs.append(("dt->s", "julian_date", "julian_date(%s)" % inst, tq))
        cs.append(("dt->unix_s", "unixtime", "unixtime(%s)" % inst, tq))
        for f in ("unixtime_s", "unixtime_ms", "unixtime_µs"):
            cs.append(("dt->scalar", f, "%s(%s)" % (f, inst), tq))
        jd = rand_julian_days(rng)
        cs.append(("days->dt", "from_julian_date", "from_julian_date(%s days)" % fl(jd), jd * 86400.0))
        s = rng.randrange(-10 ** 10, 10 ** 10)
        cs.append(("scalar->dt", "from_unixtime_s", "from_unixtime_s(%d)" % s, s))
        cs.append(("scalar->dt", "from_unixtime_ms", "from_unixtime_ms(%d)" % (s * 1000 + rng.randrange(1000)), s * 1000 + 0))
        cs[-1] = (cs[-1][0], cs[-1][1], cs[-1][2], int(re.search(r"\((-?\d+)\)", cs[-1][2]).group(1)))
        x = rng.choice([rng.uniform(0.05, 5), rng.uniform(-5, -0.05)])
        for f in ("cot", "coth", "csch", "acot", "acsch"):
            cs.append(("scalar", f, "%s(%s)" % (f, fl(x)), x))
        cs.append(("scalar", "sech", "sech(%s)" % fl(x), x))
        y = rng.choice([rng.uniform(1.001, 50), rng.uniform(-50, -1.001)])
        cs.append(("scalar", "acoth", "acoth(%s)" % fl(y), y))
        cs.append(("scalar", "arcsecant", "arcsecant(%s)" % fl(y), y))
        cs.append(("scalar", "acsc", "acsc(%s)" % fl(y), y))
        for f in ("secant", "csc", "cosecant"):
            cs.append(("scalar", f, "%s(%s)" % (f, fl(x)), x))
        w = rng.uniform(0, 1e6)
        cs.append(("scalar", "sqrt", "sqrt(%s)" % fl(w), w))
        cs.append(("scalar", "sqr", "sqr(%s)" % fl(x), x))
        v = rng.choice([-1, 1]) * rng.uniform(1e-3, 1e6)
        cs.append(("scalar", "cbrt", "cbrt(%s)" % fl(v), v))
        z = rng.uniform(0.01, 1.0)
        cs.append(("scalar", "asech", "asech(%s)" % fl(z), z))
    return cs


def model_value(lib, kind, name, arg):
    """float prediction from the translated tree"""
    if kind in ("dt->s", "dt->unix_s", "dt->scalar"):
        return float(lib.call(name, [arg], True))            # exact rational evaluation, then one rounding
    if kind == "days->dt":
        return lib.call(name, [arg], False)
    if kind == "scalar->dt":
        return float(lib.call(name, [Fraction(arg)], True))
    return lib.call(name, [arg], False)


PAIRS = [
    # (name, forward template, domain, tolerance (rel, abs))
    ("celsius", "°C(from_celsius({x}))", (-273.0, 5000.0), (1e-9, 1e-9)),
    ("celsius-rev", "from_celsius(°C({x} K)) / K", (0.0, 5000.0), (1e-9, 1e-9)),
    ("fahrenheit", "°F(from_fahrenheit({x}))", (-459.0, 5000.0), (1e-9, 1e-9)),
    ("fahrenheit-rev", "from_fahrenheit(°F({x} K)) / K", (0.0, 5000.0), (1e-9, 1e-9)),
    ("celsius-syntax", "({x} °C) -> °C", (-273.0, 5000.0), (1e-9, 1e-9)),
    ("celsius-alias", "degree_celsius(from_celsius({x})) + 0 × celsius(from_celsius({x}))", (-273.0, 5000.0), (1e-9, 1e-9)),
    ("fahrenheit-alias", "degree_fahrenheit(from_fahrenheit({x})) + 0 × fahrenheit(from_fahrenheit({x}))", (-459.0, 5000.0), (1e-9, 1e-9)),
    ("reverse∘reverse", "sum(reverse(reverse([{x}, 1, 2]))) - 3 + 0 × head(reverse(reverse([{x}, 7])))", (-1e6, 1e6), (1e-12, 1e-9)),
    ("fahrenheit-syntax", "({x} °F) -> °F", (-459.0, 5000.0), (1e-9, 1e-9)),
    ("sin/asin", "asin(sin({x}))", (-1.5, 1.5), (1e-9, 1e-9)),
    ("asin/sin", "sin(asin({x}))", (-1.0, 1.0), (1e-9, 1e-12)),
    ("cos/acos", "acos(cos({x}))", (0.05, 3.09), (1e-8, 1e-9)),
    ("tan/atan", "atan(tan({x}))", (-1.5, 1.5), (1e-9, 1e-9)),
    ("atan/tan", "tan(atan({x}))", (-1e6, 1e6), (1e-9, 1e-12)),
    ("sinh/asinh", "asinh(sinh({x}))", (-20.0, 20.0), (1e-9, 1e-12)),
    ("cosh/acosh", "acosh(cosh({x}))", (0.5, 20.0), (1e-9, 1e-9)),
    ("tanh/atanh", "atanh(tanh({x}))", (-5.0, 5.0), (1e-7, 1e-9)),
    ("exp/ln", "ln(exp({x}))", (-700.0, 700.0), (1e-9, 1e-12)),
    ("ln/exp", "exp(ln({x}))", (1e-300, 1e300), (1e-9, 0.0)),
    ("log10", "log10(10^{x})", (-300.0, 300.0), (1e-9, 1e-12)),
    ("log2", "log2(2^{x})", (-1000.0, 1000.0), (1e-9, 1e-12)),
    ("sqrt/sqr", "sqrt(sqr({x}))", (0.0, 1e150), (1e-12, 0.0)),
    ("sqr/sqrt", "sqr(sqrt({x}))", (0.0, 1e300), (1e-12, 0.0)),
    ("cbrt", "cbrt(({x})^3)", (-1e100, 1e100), (1e-12, 0.0)),
    ("cot/acot", "cot(acot({x}))", (0.01, 1e6), (1e-9, 0.0)),
    ("secant/arcsecant", "secant(arcsecant({x}))", (1.0, 1e6), (1e-9, 0.0)),
    ("csc/acsc", "csc(acsc({x}))", (1.0, 1e6), (1e-9, 0.0)),
    ("coth/acoth", "coth(acoth({x}))", (1.0001, 40.0), (1e-7, 0.0)),
    ("acoth/coth", "acoth(coth({x}))", (0.05, 6.0), (1e-9, 0.0)),   # ill-conditioned beyond: coth x - 1 < 1e-5
    ("sech/asech", "sech(asech({x}))", (0.001, 1.0), (1e-9, 0.0)),
    ("csch/acsch", "csch(acsch({x}))", (0.001, 1000.0), (1e-9, 0.0)),
]


def gen_oracle_cases(rng, n):
    cs = []
    for _ in range(n):
        for name, tmpl, (lo, hi), tol in PAIRS:
            if lo > 0 and hi / lo > 1e6:
                x = math.exp(rng.uniform(math.log(lo), math.log(hi)))
            elif lo < 0 < hi and hi > 1e5:
                x = rng.choice([-1, 1]) * math.exp(rng.uniform(math.log(1e-6), math.log(hi)))
            else:
                x = rng.uniform(lo, hi)
            cs.append((name, tmpl.format(x=fl(x)), x, tol))
    return cs


UNIT_FAMILIES = [
    ("Length", ["mile", "yard", "foot", "inch", "m", "cm", "km", "mm"]),
    ("Time", ["week", "day", "hour", "minute", "second", "ms"]),
    ("Mass", ["pound", "ounce", "kg", "g", "stone"]),
    ("Angle", ["degree", "arcminute", "arcsecond", "radian"]),
]


def gen_mixed_cases(rng, n):
    cs = []
    for _ in range(n):
        fam, us = rng.choice(UNIT_FAMILIES)
        k = rng.randrange(1, min(5, len(us)) + 1)
        units = [rng.choice(us) for _ in range(k)] if rng.random() < 0.2 else rng.sample(us, k)
        v = rng.choice([rng.uniform(0, 1e4), rng.uniform(-1e3, 0), float(rng.randrange(0, 100000)), 0.0,
                        rng.randrange(1, 1000) / rng.choice([2, 3, 7, 12, 60])])
        vu = rng.choice(us)
        cs.append((units, v, vu))
    return cs


def mixed_check(units, v, vu, out, sizes):
    """oracle for unit_list: one part per distinct unit, descending; parts add up; all but the last whole"""
    if not out.startswith("L:["):
        return "unit_list returned %s" % out
    items = out[3:-1].split(",") if out != "L:[]" else []
    parts = []
    for it in items:
        q = q_of_bits(it)
        if q is None:
            return "non-quantity part %r" % it
        parts.append(q)
    clean = sorted(set(units), key=lambda u: -sizes[u])
    if len(parts) != len(clean):
        return "%d parts for %d distinct units" % (len(parts), len(clean))
    total = 0.0
    for i, ((mag, unit), u) in enumerate(zip(parts, clean)):
        if i < len(parts) - 1 and mag != math.trunc(mag):
            return "part %d (%r %s) is not a whole number" % (i, mag, unit)
        total += mag * sizes[u]
    want = v * sizes[vu]
    if not close(total, want, 1e-9, 1e-9 * sizes[clean[-1]]):
        return "parts add up to %r base units, the value is %r" % (total, want)
    return None


def coq_q(x):
    x = Fraction(x)
    return "(Qmake (%d)%%Z %d%%positive)" % (x.numerator, x.denominator)


def run(chk):
    binary, _ = common.build_harness()
    quick = chk.tier == "quick"
    gen_dir = os.path.join(common.COQ, "theories", "Gen")
    translator_error = None
    lib = None
    try:
        lib, qsrc, rsrc = translate()
        write_if_changed(os.path.join(gen_dir, "NbtFunsQ.v"), qsrc)
        write_if_changed(os.path.join(gen_dir, "NbtFunsR.v"), rsrc)
    except (Unsupported, OSError) as e:
        translator_error = "translator: %s" % e
    proved = False
    if translator_error is None:
        built = chk.prove("Props.C23", THEOREMS,
                          ["theories/Props/C23.vo", "theories/Stdlib/Exec.vo"], allowed=ALLOWED_AXIOMS + ["Axioms"])
        proved = built and fix_assumptions(chk, "Props.C23", THEOREMS, set(ALLOWED_AXIOMS))
    else:
        for t in THEOREMS:
            chk.obligations.append((t, False, ["<translator failed>"]))
        chk.proof_failure = translator_error
    chk.trusted += [
        "translator tools/props/c23.py + nbtexpr.py: .nbt arithmetic fragment -> Gen/NbtFunsQ.v, Gen/NbtFunsR.v (regenerated every run)",
        "quantities = magnitude in the base unit; DateTime = rational seconds since the Unix epoch; FFI _unixtime_µs/_from_unixtime_µs "
        "modelled as truncation (to) / rounding (from) to whole microseconds without range limits (Stdlib/Model.v)",
        "_mixed_unit_list and _clean_units (unique, sort descending) are hand ports (Stdlib/Model.v), compared with unit_list() on raw unit lists",
        "real-number theorems use the stdlib axioms listed per theorem",
    ]

    mismatches = []
    n_model = n_q = n_mixed_model = boundary_flips = 0
    model_cases = []
    if lib is not None:
        model_cases = gen_model_cases(chk.rng, lib, 35 if quick else 300)
    oracle_cases = gen_oracle_cases(chk.rng, 25 if quick else 200)
    corpus = json.load(open(os.path.join(common.VERIF, "corpus", "c23.json")))
    for c in corpus:
        if "x" in c:
            oracle_cases.insert(0, (c["pair"], c["source"], c["x"], tuple(c["tol"])))
    mixed_cases = gen_mixed_cases(chk.rng, 100 if quick else 800)
    # the documented wrappers of unit_list (units::mixed)
    WRAPPERS = [("DMS", ["degree", "arcminute", "arcsecond"], "degree"), ("DM", ["degree", "arcminute"], "degree"),
                ("feet_and_inches", ["foot", "inch"], "foot"), ("pounds_and_ounces", ["pound", "ounce"], "pound")]
    wrapper_cases = []
    for _ in range(40 if quick else 300):
        fn, us, vu = chk.rng.choice(WRAPPERS)
        v = chk.rng.choice([chk.rng.uniform(0, 400), float(chk.rng.randrange(0, 400)), chk.rng.randrange(1, 10 ** 5) / 3600.0,
                            -chk.rng.uniform(0, 90), chk.rng.randrange(1, 1000) / 12.0])
        wrapper_cases.append((fn, us, v, vu))
    dt_cases = gen_datetime_oracle_cases(chk.rng, 60 if quick else 600)
    for c in corpus:
        if c.get("kind") in ("Q", "D"):
            dt_cases.insert(0, (c["pair"], c["source"], c["kind"], c["expected"], c["tol"]))

    # unit sizes in base units, measured on the implementation
    all_units = sorted({u for _, us in UNIT_FAMILIES for u in us})
    size_out = common.run_harness(binary, "eval", ["value_of(1 %s -> %s)" % (u, fam_base(u)) for u in all_units], shards=1)
    sizes = {u: q_of_bits(o)[0] for u, o in zip(all_units, size_out)}

    lines = [c[2] for c in model_cases] + [c[1] for c in oracle_cases] + \
            ["unit_list([%s], %s %s)" % (", ".join(us), fl(v), vu) for us, v, vu in mixed_cases] + [c[1] for c in dt_cases] + \
            ["%s(%s %s)" % (fn, fl(v), vu) for fn, us, v, vu in wrapper_cases]
    outs = common.run_harness(binary, "eval", lines, timeout=3000)
    o_wrap = outs[len(lines) - len(wrapper_cases):]
    o_dt = outs[len(model_cases) + len(oracle_cases) + len(mixed_cases):len(lines) - len(wrapper_cases)]
    o_model = outs[:len(model_cases)]
    o_oracle = outs[len(model_cases):len(model_cases) + len(oracle_cases)]
    o_mixed = outs[len(model_cases) + len(oracle_cases):len(model_cases) + len(oracle_cases) + len(mixed_cases)]

    # (1) implementation vs translated trees
    for (kind, name, src, arg), o in zip(model_cases, o_model):
        n_model += 1
        try:
            want = model_value(lib, kind, name, arg)
        except (ValueError, ZeroDivisionError, OverflowError):
            continue
        if kind.endswith("->dt"):
            got = float(int(o.split(":")[1])) / 1e9 if o.startswith("D:") else None
            ok = got is not None and abs(got - want) <= 1e-5 + 1e-12 * abs(want)
        else:
            q = q_of_bits(o)
            got = q[0] if q else None
            ok = close(got, want, 1e-9, 1e-9)
        if not ok:
            mismatches.append({"function": name, "source": src, "implementation": o, "translated_tree_gives": want})

    # (2) Gallina Q definitions vs exact evaluation of the same trees (vm_compute)
    coq_bad = {}
    if lib is not None and proved:
        items = []
        for kind, name, src, arg in model_cases:
            if kind in ("scalar->K", "K->scalar", "dt->s", "dt->unix_s", "dt->scalar", "scalar->dt"):
                a = Fraction(arg)
                want = lib.call(name, [a], True)
                items.append(("show_Q (%s %s)" % (coq_name(name), coq_q(a)), "%d/%d" % (want.numerator, want.denominator)))
        n_q = len(items)
        coq_bad = common.coq_mismatches(["Stdlib.Model", "Gen.NbtFunsQ", "Stdlib.Exec"], items, "c23", shard_size=150, timeout=3000, prelude="From Coq Require Import QArith.")
        # hand-ported mixed-unit list against the implementation: the model runs on the exact rationals of
        # the f64 inputs; parts are compared with a tolerance, and a difference of a whole number of units
        # between neighbouring parts (truncation at a float boundary) is counted, not reported
        mterms, mclean = [], []
        for (us, v, vu), o in zip(mixed_cases, o_mixed):
            clean = sorted(set(us), key=lambda u: -sizes[u])
            mclean.append(clean)
            mterms.append(("show_mixed (unit_list [%s]%%list %s)" % (
                "; ".join(coq_q(Fraction(sizes[u])) for u in us), coq_q(Fraction(v) * Fraction(sizes[vu]))), "@"))
        mstr = common.coq_mismatches(["Stdlib.Model", "Stdlib.Exec"], mterms, "c23m", shard_size=100, timeout=3000, prelude="From Coq Require Import QArith.")
        for i, ((us, v, vu), o) in enumerate(zip(mixed_cases, o_mixed)):
            n_mixed_model += 1
            ms = mstr.get(i, "@")
            if ms == "E" or not o.startswith("L:["):
                if not (ms == "E" and o.startswith("E:")):
                    mismatches.append({"function": "unit_list", "source": lines[len(model_cases) + len(oracle_cases) + i],
                                       "implementation": o, "model": ms})
                continue
            want = [float(Fraction(x)) for x in ms.split(",")] if ms else []
            got = [q_of_bits(it) for it in (o[3:-1].split(",") if o != "L:[]" else [])]
            if len(want) != len(got) or any(g is None for g in got):
                mismatches.append({"function": "unit_list", "source": lines[len(model_cases) + len(oracle_cases) + i],
                                   "implementation": o, "model": ms})
                continue
            gotb = [g[0] * sizes[u] for g, u in zip(got, mclean[i])]
            scale = max([abs(x) for x in want] + [1e-300])
            if all(abs(a - b) <= 1e-9 * scale + 1e-12 for a, b in zip(gotb, want)):
                continue
            if abs(sum(gotb) - sum(want)) <= 1e-9 * scale + 1e-12 and all(
                    abs((a - b) / sizes[u] - round((a - b) / sizes[u])) < 1e-6 for a, b, u in zip(gotb[:-1], want[:-1], mclean[i])):
                boundary_flips += 1
                continue
            mismatches.append({"function": "unit_list", "source": lines[len(model_cases) + len(oracle_cases) + i],
                               "implementation": o, "model": ms})

    # (3) round-trip oracle on the implementation
    fails = []
    per_pair = collections.Counter()
    for (name, src, x, tol), o in zip(oracle_cases, o_oracle):
        per_pair[name] += 1
        q = q_of_bits(o)
        if q is None or not close(q[0], x, tol[0], tol[1]):
            fails.append({"pair": name, "source": src, "x": x, "implementation": o,
                          "detail": "round trip of %r gives %s" % (x, o)})
    for (us, v, vu), o in zip(mixed_cases, o_mixed):
        why = mixed_check(us, v, vu, o, sizes)
        if why:
            fails.append({"pair": "unit_list", "source": "unit_list([%s], %s %s)" % (", ".join(us), fl(v), vu),
                          "implementation": o, "detail": why})

    for (fn, us, v, vu), o in zip(wrapper_cases, o_wrap):
        per_pair[fn] += 1
        why = mixed_check(us, v, vu, o, sizes)
        if why:
            fails.append({"pair": fn, "source": "%s(%s %s)" % (fn, fl(v), vu), "implementation": o, "detail": why})
    for (name, src, kind, want, tol), o in zip(dt_cases, o_dt):
        per_pair[name] += 1
        if kind == "Q":
            q = q_of_bits(o)
            ok = q is not None and abs(q[0] - want) <= tol
        else:
            ok = o.startswith("D:") and abs(int(o.split(":")[1]) - want) <= tol
        if o.startswith("E:runtime:DateTime out of range") or o.startswith("E:runtime:Exceeded"):
            continue            # at the very ends of the range an intermediate value may leave it: an error is fine
        if not ok:
            fails.append({"pair": name, "source": src, "x": want, "implementation": o,
                          "detail": "expected %s %r (tolerance %r), got %s" % (kind, want, tol, o)})

    known = [f for f in common.load_known() if f.get("property") == "C23" and f.get("status") == "open"]
    reported = 0
    seen = set()
    for f in fails:
        k = next((kf for kf in known if kf.get("matcher", {}).get("source") == f["source"]), None)
        if k:
            chk.known(k["id"], "%s: %s" % (k["id"], f["detail"]))
            continue
        if f["pair"] in seen or reported >= 3:
            continue
        seen.add(f["pair"])
        f = dict(f)
        f["kind"] = "inverse pair does not round-trip on the implementation"
        f["replay"] = "echo '%s' | harness/target/debug/nbverif eval" % f["source"]
        chk.violation(f)
        reported += 1
    if not reported and (not proved or mismatches or coq_bad):
        what = translator_error or (
            "Props/C23.v: " + getattr(chk, "proof_failure", "?") if not proved else
            "correspondence translated trees vs implementation" if mismatches else
            "correspondence Gen/NbtFunsQ.v (vm_compute) vs exact evaluation of the translated trees")
        chk.violation({
            "kind": "proof, translator or correspondence no longer checks",
            "theorem_or_correspondence": what,
            "mismatching_cases": len(mismatches) + len(coq_bad),
            "first_case": mismatches[0] if mismatches else None,
            "oracle": "round-trip oracle found no failing input among %d cases" % (len(oracle_cases) + len(mixed_cases)),
        }, found_input=False)

    distinct = len({c[1] for c in dt_cases}) + len({(c[0], c[1]) for c in oracle_cases}) + len({(tuple(u), v, vu) for u, v, vu in mixed_cases}) + \
        len({c[2] for c in model_cases})
    chk.cov.update({
        "evaluations": len(lines),
        "distinct_nontrivial": distinct,
        "rule": "model cases: every translated function on seeded random arguments (implementation vs translated tree, and Gallina Q "
                "definition by vm_compute vs exact tree evaluation); oracle cases: every documented inverse pair on random arguments "
                "from its domain; date-time pairs (Unix time, Julian date) in both directions on instants over the whole supported year range "
                "(before 1970, before the Julian epoch, range ends), negative and fractional timestamps / Julian dates; mixed-unit lists: random sub-lists of same-dimension prelude units (with duplicates) x random values; "
                "distinct = distinct source texts; all are non-trivial (no constant inputs)",
        "exhaustive": False,
        "translated_functions": [] if lib is None else list(lib.defs),
        "model_vs_implementation_cases": n_model, "model_vs_implementation_mismatches": len(mismatches),
        "coq_q_cases": n_q, "coq_q_mismatches": len(coq_bad),
        "oracle_cases_per_pair": dict(per_pair), "mixed_unit_cases": len(mixed_cases), "datetime_pair_cases": len(dt_cases),
        "mixed_model_cases": n_mixed_model, "mixed_float_boundary_flips_tolerated": boundary_flips,
        "oracle_failures": len(fails),
        "samples": [{"source": lines[i], "implementation": outs[i]} for i in (0, len(model_cases), len(lines) - 1) if i < len(lines)],
    })
    chk.assumptions += ["f64 rounding is outside the proofs: round trips are checked with the tolerances listed in tools/props/c23.py PAIRS",
                        "FFI math functions are libm's; only the oracle exercises them"]


def fam_base(u):
    for fam, us in UNIT_FAMILIES:
        if u in us:
            return {"Length": "m", "Time": "s", "Mass": "kg", "Angle": "radian"}[fam]


def replay(path):
    r = json.load(open(path))
    if "source" not in r:
        print(json.dumps(r, indent=1, ensure_ascii=False))
        return 0
    binary, _ = common.build_harness()
    o = common.run_harness(binary, "eval", [r["source"]], shards=1)[0]
    print("source:", r["source"])
    print("implementation:", o)
    return 1
