"""C02 — static checking accepts exactly the dimensionally consistent programs.

proof:  coq/theories/Props/C02.v  (THEOREMS below) about the model Dim/Model.v + Dim/Infer.v.
tie:    translator  Gen/PreludeDims.v (dimension registry, name counter and the environment
        entries of the identifiers used, dumped from the running implementation) and
        correspondence — generated multi-statement programs, their mis-dimensioned variants
        and two-input sessions run through the real Context (harness `dim`, hook
        numbat::verif::dim) and through the model (vm_compute of Dim.Exec.show_run): accept /
        reject, TypeCheckError variant, raw type scheme of every statement must agree.
oracle: tools/props/dimlib.py `analyse` — ordinary dimensional analysis written independently
        of both (linear equations over Q for generic functions), plus the generator's
        by-construction expectation; compared on the real implementation: accept/reject,
        dimension of every definition/expression, and the whole-input clause (a rejected input
        prints nothing, defines nothing; a later input cannot see its names).
"""
import collections
import json
import math
import os
import sys
import time

sys.path.insert(0, os.path.dirname(os.path.abspath(__file__)))
import common  # noqa: E402
import dimlib as D  # noqa: E402

MANIFEST = dict(
    category="proof",
    text="proof (partial). Machine-checked (Coq, closed under the global context) over the executable model of "
         "numbat's type checker (Dim/Model.v, Dim/Infer.v): C02_solver_sound — for every constraint set, a "
         "substitution returned by ConstraintSolver::solve (unification + Gaussian elimination over exponents) "
         "satisfies every Equal / IsDType / EqualScalar constraint under every well-sorted valuation that is an "
         "instance of it; C02_whole_input / C02_whole_input_accepted — a statement that fails to check after a checked "
         "prefix rejects the whole input, leaves the pre-input checker state and never enters the run stage; "
         "C02_accept_sound / C02_accept_sound_annotated — for every expression form of the elaborator model (literals incl. the "
         "polymorphic 0, identifiers, units, unary and binary operators with constant exponents, comparisons, if, calls "
         "of monomorphic and of generic (quantified, Dim-bounded) functions and values with instantiation by fresh "
         "variables, list literals) over well-formed environments: acceptance plus a "
         "solver solution imply, in every well-sorted instance of the solution, the declarative dimensional analysis "
         "has_ty of Dim/Sem.v at exactly the meaning of the inferred (and of the reported) type, and for annotated "
         "definitions that the annotation denotes the derived dimension; C02_canonical_form — every factor list produced by "
         "try_canonicalize is strictly sorted with non-zero exponents and canonicalisation is idempotent; "
         "C02_decides_partial / C02_reject_complete_partial / C02_accept_exact_partial — 'exactly' on the monomorphic "
         "arithmetic fragment (non-zero literals, names, unary minus, + - -> * / ^ over an environment of monomorphic "
         "variable-free dimension types): the elaborator accepts iff ordinary dimensional analysis (danalyse) succeeds, "
         "with exactly that dimension as the type, so a rejected expression is dimensionally inconsistent. NOT proved: "
         "that a function DEFINITION adds a well-formed generalised scheme to the environment (env_ok preserved by "
         "generalisation); reject-completeness beyond the monomorphic fragment (needs principal types); solver "
         "termination/mgu; idempotence of the returned substitution. Those clauses rest on the ties: accept/reject, the "
         "TypeCheckError variant and the raw type scheme of every statement are compared between model and "
         "implementation on generated multi-statement programs, mis-dimensioned variants and two-input sessions; an "
         "independent dimensional analysis in Python gives the expected verdict and dimensions on the implementation; "
         "the whole-input clause is also checked on the implementation by print capture, a definition census and a "
         "follow-up input that must not see the rejected input's names.",
    design_ref="DESIGN.md §6 C02; design/dim.md",
    note="Trusted: Coq kernel + vm_compute; the hand-written model Dim/Model.v + Dim/Infer.v (validated by the "
         "correspondence, not proved against Rust); hook numbat::verif::dim; translator Gen/PreludeDims.v; the "
         "Python oracle tools/props/dimlib.py analyse. Function values, structs, string interpolation, DateTime "
         "and decorators are outside the model (MODEL-UNSUPPORTED cases are counted, not compared).",
    technique="Coq proof about an executable model + model/implementation correspondence by vm_compute + "
              "independent dimensional-analysis oracle on generated programs",
)

THEOREMS = ["C02_solver_sound", "C02_accept_sound", "C02_accept_sound_annotated", "C02_canonical_form",
            "C02_whole_input", "C02_whole_input_accepted", "C02_decides_partial", "C02_reject_complete_partial",
            "C02_accept_exact_partial"]
ALLOWED_AXIOMS = []
IMPORTS = ["Dim.Model", "Dim.Infer", "Dim.Exec", "Gen.PreludeDims"]
VO = ["theories/Props/C02.vo", "theories/Dim/Exec.vo", "theories/Gen/PreludeDims.vo"]


# ------------------------------------------------------------------ text helpers
def src_text(inputs):
    return "\n--- next input of the same session ---\n".join(
        "\n".join(D.src_stmt(s) for s in stmts) for stmts in inputs)


def parse_extra(extra):
    d = {}
    for kv in extra.split(";"):
        k, _, v = kv.partition("=")
        d[k] = v
    return d


def split_line(line):
    """harness line -> [(tc, extra dict)] per input (crashes/timeouts: one pseudo input)"""
    if line is None or line.startswith("@@") or "\t" not in line:
        return [("other|" + (line or "@@NONE")[:40], {"prints": "0", "rt": "CRASH", "defs": "same", "out": ""})]
    tcs, extras = line.split("\t", 1)
    return list(zip(tcs.split("&"), [parse_extra(x) for x in extras.split("&")]))


# ------------------------------------------------------------------ the oracle on one case
def oracle(inputs, line, stats=None):
    """compare the implementation's line with the independent analysis.
    Returns a list of failures: dict(input, clause, expected, observed)."""
    fails = []
    an = D.analyse(inputs)
    obs = split_line(line)
    if len(obs) != len(inputs):
        return [dict(input=0, clause="harness", expected="%d inputs" % len(inputs), observed=str(line)[:200])]
    for i, (a, (tc, ex)) in enumerate(zip(an, obs)):
        k, body = D.split_tc(tc)
        v = a["verdict"]
        if stats is not None:
            stats["verdict"][v] += 1
        # (c) whole-input clause, for anything that was not run to completion by the type checker
        if k in ("err", "other") and (ex.get("prints") != "0" or ex.get("defs") != "same"):
            fails.append(dict(input=i, clause="whole-input",
                              expected="a rejected input prints nothing and defines nothing",
                              observed="%s prints=%s defs=%s" % (tc, ex.get("prints"), ex.get("defs"))))
        if v == "unsupported":
            break
        if v == "accept":
            if k != "ok":
                fails.append(dict(input=i, clause="accept",
                                  expected="accepted (dimensionally consistent by independent analysis)",
                                  observed=tc + " " + ex.get("out", "")[:160]))
                break
            if body == ["?"]:
                if stats is not None:
                    stats["runtime_error"][ex.get("rt", "?")] += 1
                break
            if len(body) != len(inputs[i]):
                fails.append(dict(input=i, clause="type", expected="%d statements" % len(inputs[i]), observed=tc))
                break
            for st, ty, it in zip(inputs[i], a["types"], body):
                if ty is None:
                    continue
                kind, ity = D.stmt_impl_type(it)
                closed = D.type_is_closed(ty)
                if stats is not None:
                    stats["compared"]["mono" if closed else ("poly-fn" if ty[0] == "F" else "poly")] += 1
                if ity is None or D.canon_type(ty) != D.canon_type(ity):
                    fails.append(dict(input=i, clause="type",
                                      expected="`%s` has type %s" % (D.src_stmt(st), show_type(ty)),
                                      observed=it))
            if fails:
                break
            continue
        # the analysis says this input must be rejected
        if v == "reject" and k != "err":
            fails.append(dict(input=i, clause="reject",
                              expected="type error (statement %d: %s)" % (a["at"], a["why"]), observed=tc))
        elif v == "unknown-ident" and tc != "err|UnknownIdentifier":
            fails.append(dict(input=i, clause="whole-input" if i > 0 else "reject",
                              expected="err|UnknownIdentifier (%s is not defined%s)" % (
                                  a["why"], "; the input that defined it was rejected" if i > 0 else ""),
                              observed=tc))
        elif v == "unknown-dim" and k != "err":
            fails.append(dict(input=i, clause="whole-input" if i > 0 else "reject",
                              expected="type error (%s is not defined)" % a["why"], observed=tc))
        if k == "ok":
            break      # the implementation's session state now differs from the analysis
    return fails


def show_type(t):
    if t[0] == "F":
        return "fn(%s) -> %s" % (", ".join(show_type(p) for p in t[1]), show_type(t[2]))
    return D.tshow(t)


# ------------------------------------------------------------------ shrinking
EXPR_SLOTS = {"expr": [1], "let": [3], "unit": [3]}


def expr_variants(e):
    """expressions obtained from e by replacing one node with one of its children"""
    k = e[0]
    if k == "un":
        yield e[2]
        for v in expr_variants(e[2]):
            yield ("un", e[1], v)
    elif k == "bin":
        yield e[2]
        yield e[3]
        for i in (2, 3):
            for v in expr_variants(e[i]):
                yield D._set(e, i, v)
    elif k == "if":
        yield e[2]
        yield e[3]
        for i in (1, 2, 3):
            for v in expr_variants(e[i]):
                yield D._set(e, i, v)
    elif k == "call":
        for i, a in enumerate(e[2]):
            yield a
        for i, a in enumerate(e[2]):
            for v in expr_variants(a):
                yield D._set(e, (2, i), v)
    elif k == "list":
        if len(e[1]) > 1:
            for i in range(len(e[1])):
                yield ("list", list(e[1][:i]) + list(e[1][i + 1:]))
        for i, a in enumerate(e[1]):
            for v in expr_variants(a):
                yield D._set(e, (1, i), v)


def stmt_variants(st):
    k = st[0]
    if k in EXPR_SLOTS:
        for i in EXPR_SLOTS[k]:
            for v in expr_variants(st[i]):
                yield D._set(st, i, v)
    elif k == "proc":
        for i, a in enumerate(st[2]):
            for v in expr_variants(a):
                yield D._set(st, (2, i), v)
    elif k == "fn":
        if st[5]:
            yield D._set(st, 5, [])
        for v in expr_variants(st[6]):
            yield D._set(st, 6, v)


def shrink_case(binary, inputs, which, clause, budget=70):
    """smaller session that still fails the oracle in input `which` with the same clause"""
    def fails_with(cand_inputs):
        try:
            line = common.run_harness(binary, "dim", [D.harness_line(cand_inputs)], shards=1, timeout=120)[0]
            return any(f["input"] == which and f["clause"] == clause for f in oracle(cand_inputs, line))
        except Exception:
            return False

    inputs = [list(x) for x in inputs]
    for i in range(len(inputs)):
        def pred(cand, i=i):
            c = list(inputs)
            c[i] = cand
            return fails_with(c)
        if len(inputs[i]) > 1:
            inputs[i] = common.shrink_list(inputs[i], pred, max_rounds=40)
    used = 0
    progress = True
    while progress and used < budget:
        progress = False
        for i in range(len(inputs)):
            for n, st in enumerate(inputs[i]):
                for v in stmt_variants(st):
                    if used >= budget:
                        break
                    used += 1
                    c = [list(x) for x in inputs]
                    c[i][n] = v
                    if fails_with(c):
                        inputs = c
                        progress = True
                        break
                if progress:
                    break
            if progress:
                break
    return inputs


# ------------------------------------------------------------------ evaluation of a stream
def new_stats():
    return dict(verdict=collections.Counter(), runtime_error=collections.Counter(), compared=collections.Counter())


def check_expectations(cases):
    """the generator's by-construction expectation against the independent analysis: a
    disagreement is a defect of the checking machinery, never of numbat"""
    for c in cases:
        if c["kind"] == "corpus":
            continue
        an = D.analyse(c["inputs"])
        for i, e in enumerate(c.get("expect", [])):
            if e == "reject" and an[i]["verdict"] == "accept" and D.has_zero_exponent(c["inputs"][i]):
                # the perturbed operand sits under a zero exponent: the analysis decides (also for the
                # follow-up inputs of the session, whose expectation assumed a rejected first input)
                for j in range(i, len(c["expect"])):
                    c["expect"][j] = None
                break
            if e is not None and an[i]["verdict"] != e:
                raise common.Broken("generator expects %s, analysis says %s (%s) for:\n%s" % (
                    e, an[i]["verdict"], an[i]["why"], src_text(c["inputs"])))
        for i, tys in enumerate(c.get("types", [])):
            for st, gt, at in zip(c["inputs"][i], tys, an[i]["types"]):
                if gt is not None and (at is None or D.canon_type(gt) != D.canon_type(at)):
                    raise common.Broken("generator built `%s` with type %s, analysis computes %s" % (
                        D.src_stmt(st), show_type(gt), at and show_type(at)))


def run_stream(binary, cases, stats):
    lines = [D.harness_line(c["inputs"]) for c in cases]
    impl = common.run_harness(binary, "dim", lines, timeout=600)
    failures = []
    for n, c in enumerate(cases):
        fs = oracle(c["inputs"], impl[n], stats)
        if fs:
            failures.append((n, fs))
    return impl, failures


def known_match(known, text):
    for f in known:
        if f.get("property") == "C02" and f.get("status") == "open" and \
                (f.get("matcher") or {}).get("input") == text:
            return f
    return None


def report_failures(chk, binary, cases, impl, failures, known, limit=3):
    reported = 0
    for n, fs in failures:
        if reported >= limit:
            break
        f0 = fs[0]
        c = cases[n]
        small = shrink_case(binary, c["inputs"], f0["input"], f0["clause"])
        line = common.run_harness(binary, "dim", [D.harness_line(small)], shards=1, timeout=120)[0]
        fs2 = [f for f in oracle(small, line) if f["clause"] == f0["clause"]] or fs
        text = src_text(small)
        kf = known_match(known, text) or known_match(known, src_text(c["inputs"]))
        if kf:
            chk.known(kf["id"], "%s: %s" % (kf["id"], fs2[0]["observed"]))
            continue
        chk.violation({
            "kind": {"accept": "a dimensionally consistent input is rejected",
                     "reject": "an input that requires two different dimensions to be equal is accepted",
                     "type": "the reported type differs from the dimension given by dimensional analysis",
                     "whole-input": "a rejected input was not rejected as a whole",
                     }.get(f0["clause"], f0["clause"]),
            "clause": f0["clause"],
            "inputs": text,
            "inputs_ast": D.to_json(small),
            "expected": fs2[0]["expected"],
            "observed": fs2[0]["observed"],
            "implementation_line": line,
            "original_case": {"kind": c["kind"], "why": c.get("why"), "inputs": src_text(c["inputs"])},
            "replay": "./check C02 --replay <this file>   (or: printf '<statements joined by \\x1f, inputs by "
                      "\\x1e>' | harness/target/debug/nbverif dim)",
        })
        reported += 1
    return reported


def soup_check(chk, binary, soups):
    impl = common.run_harness(binary, "dim", soups, timeout=600)
    hist = collections.Counter()
    bad = 0
    for s, line in zip(soups, impl):
        for tc, ex in split_line(line):
            k = tc.split("|")[0]
            hist[tc if k != "ok" else "ok"] += 1
            crashed = "PANIC" in tc or tc.startswith("other|@@")
            if k in ("err", "other") and (ex.get("prints") != "0" or ex.get("defs") != "same"):
                bad += 1
                if bad <= 2:
                    chk.violation({
                        "kind": "a rejected input was not rejected as a whole" + (" (crash)" if crashed else ""),
                        "clause": "whole-input", "lines": s.split("\x1f"), "inputs": s.replace("\x1f", "\n"),
                        "expected": "prints=0 and defs=same", "observed": str(line)[:300],
                        "replay": "./check C02 --replay <this file>"})
    return impl, hist, bad


# ------------------------------------------------------------------ the check
def struct_stream(chk, binary, n):
    """struct definitions, instantiation, field access, generic structs, lists of structs: expected
    verdict and dimensions by construction (dimlib.struct_templates)"""
    ts = []
    for k in range(n):
        ts += D.struct_templates(chk.rng, k)
    lines = [t["source"].replace("\n", "\x1f") for t in ts]
    out = common.run_harness(binary, "dim", lines, timeout=600)
    bad = 0
    stats = collections.Counter()
    for t, o in zip(ts, out):
        tc = (o or "").split("\t")[0]
        extra = (o or "\t").split("\t")[1] if o and "\t" in o else ""
        why = None
        if t["expect"] == "accept":
            if not tc.startswith("ok|"):
                why = "a dimensionally consistent input is rejected"
            else:
                got = {}
                for st in tc[3:].split("#"):
                    p = st.split("|")
                    if p[0] == "let":
                        got[p[1]] = p[2]
                for name, want in t["lets"].items():
                    if got.get(name) != "Q0[]:" + want:
                        why = "inferred type of %s is %s, dimensional analysis gives %s" % (name, got.get(name), want)
        else:
            if not tc.startswith("err|"):
                why = "an input that equates different dimensions is not rejected with a type error"
            elif "prints=0" not in extra or "defs=same" not in extra:
                why = "a rejected input printed or defined something"
        stats[t["expect"] + ("" if why is None else " FAILED")] += 1
        if why and bad < 2:
            chk.violation({"kind": why, "inputs": t["source"], "expected": t["expect"], "observed": tc,
                           "family": "struct template",
                           "replay": "printf '<input, lines joined by \\x1f>' | harness/target/debug/nbverif dim"})
        if why:
            bad += 1
    chk.cov["struct_templates"] = dict(stats)
    return bad


def run(chk):
    T = {}
    t0 = time.time()
    binary, _ = common.build_harness()
    rej = D.prelude_rejected(binary)
    if rej is not None:
        if not rej.startswith("err|"):
            raise common.Broken("the prelude does not load: " + rej[:600])
        # the prelude is itself an input of the property: all its names are defined, it is dimensionally
        # consistent (physics; accepted by the unchanged implementation) and it is rejected with a type error
        chk.violation({
            "kind": "a dimensionally consistent input is rejected",
            "clause": "accept",
            "inputs": "use prelude",
            "expected": "accepted: the prelude (numbat/modules/**) is dimensionally consistent",
            "observed": rej.replace("\\n", "\n"),
            "replay": "printf 'sqrt\\n' | harness/target/debug/nbverif dim-env   (prints `prelude-rejected …`)",
        })
        chk.notes.append("prelude rejected by the type checker; nothing else could be run")
        chk.cov.update({"evaluations": 1, "distinct_nontrivial": 1, "oracle_failures": 1,
                        "rule": "the prelude itself was rejected; generated stream not run",
                        "samples": [{"source": "use prelude", "implementation": rej[:400]}]})
        return
    info = D.translate_prelude(binary)
    stale = D.check_tables(info)
    if stale:
        raise common.Broken("the oracle's unit/dimension tables no longer describe the prelude: " + "; ".join(stale))
    T["build_harness_translate_s"] = round(time.time() - t0, 1)

    t0 = time.time()
    if os.path.exists(os.path.join(common.COQ, "theories", "Props", "C02.v")):
        proved = chk.prove("Props.C02", THEOREMS, VO, allowed=ALLOWED_AXIOMS)
    else:
        ok, log = common.build_coq(VO[1:])
        if not ok:
            raise common.Broken("model does not build: " + log[-1500:])
        chk.checker_cmd = "make -C coq -j%d %s  (coqc 8.16.1, full .vo build)" % (common.NPROC, " ".join(VO[1:]))
        chk.obligations.append(("build of Dim/Exec.vo against the regenerated Gen/PreludeDims.vo", True, []))
        chk.notes.append("Props/C02.v missing: theorems %s not checked in this run" % ", ".join(THEOREMS))
        proved = True
    T["coq_build_s"] = round(time.time() - t0, 1)

    chk.trusted += [
        "model Dim/Model.v + Dim/Infer.v: hand-written port of numbat/src/typechecker (elaboration, constraints, "
        "substitution, generalisation, dimension registry); validated by the correspondence, not proved against Rust",
        "hook numbat::verif::dim (cfg feature verif): raw type scheme of every checked statement, registry dump",
        "translator tools/props/dimlib.py translate_prelude -> Gen/PreludeDims.v (regenerated from the running implementation)",
        "correspondence: coqc vm_compute of Dim.Exec.show_run / show_run2 vs harness/src/dim.rs on the same programs",
        "python oracle tools/props/dimlib.py analyse (independent dimensional analysis; its unit/dimension tables "
        "are hand-written and cross-checked against the implementation's dump on every run)",
    ]
    chk.assumptions += [
        "numeric literals in generated programs are decimals (also in scientific notation, down to subnormal and up to "
        "huge finite magnitudes) that are non-zero and finite as f64 exactly when they are non-zero as decimals",
        "generated names (va*, fa*, pa*, pb*, uu*, bb*, DimA*, DimB*, DA..DD) do not clash with prelude identifiers",
        "exponents on dimensionful bases are constant expressions of literals (the property's guard)",
    ]

    quick = chk.tier == "quick"
    nprog = 415 if quick else 4150
    known = common.load_known()

    # ---- cases: corpus first, then the generated stream
    t0 = time.time()
    cases = []
    for c in json.load(open(os.path.join(common.VERIF, "corpus", "c02.json"))):
        cases.append(dict(inputs=[list(x) for x in D.from_json(c["inputs"])], kind="corpus", why=c.get("why", "")))
    ncorpus = len(cases)
    cases += D.gen_cases(chk.rng, nprog)
    cases += D.gen_literal_cases(chk.rng, 90 if quick else 900)
    check_expectations(cases)
    soups = [D.gen_soup(chk.rng) for _ in range(max(20, len(cases) // 9))]
    T["generate_s"] = round(time.time() - t0, 1)

    # ---- implementation + oracle
    t0 = time.time()
    stats = new_stats()
    impl, failures = run_stream(binary, cases, stats)
    soup_impl, soup_hist, soup_bad = soup_check(chk, binary, soups)
    T["implementation_oracle_s"] = round(time.time() - t0, 1)

    # ---- model
    t0 = time.time()
    idx = [n for n, line in enumerate(impl) if line and "\t" in line and "ok|?" not in line.split("\t")[0]]
    items = [(D.coq_case(cases[n]["inputs"]), impl[n].split("\t")[0]) for n in idx]
    # shards of at most 250 cases: a shard must finish within its time-out also on a heavily loaded machine
    shard = min(250, max(20, int(math.ceil(len(items) / float(common.NPROC)))))
    raw_bad = common.coq_mismatches(IMPORTS, items, "c02", shard_size=shard,
                                    timeout=900 if chk.tier == "quick" else 3000)
    unsupported = {idx[k]: m for k, m in raw_bad.items() if "MODEL-UNSUPPORTED" in m}
    bad = {idx[k]: m for k, m in raw_bad.items() if "MODEL-UNSUPPORTED" not in m}
    T["model_s"] = round(time.time() - t0, 1)
    if bad:
        os.makedirs(common.WORK, exist_ok=True)
        with open(os.path.join(common.WORK, "c02-mismatches.txt"), "w") as f:
            for n in sorted(bad)[:50]:
                f.write("case %d (%s: %s)\n%s\nmodel: %s\nimpl : %s\n\n" % (
                    n, cases[n]["kind"], cases[n].get("why"), src_text(cases[n]["inputs"]), bad[n],
                    impl[n].split("\t")[0]))

    # ---- structs (outside the model and the tuple AST): by-construction templates on the implementation
    struct_fail = struct_stream(chk, binary, 30 if chk.tier == "quick" else 400)

    # ---- decision
    t0 = time.time()
    found = report_failures(chk, binary, cases, impl, failures, known)
    extra_eval = 0
    if not failures and not soup_bad and (bad or not proved):
        # the proof or the correspondence broke: search harder for a failing input of the property
        more = D.gen_cases(chk.rng, nprog)
        check_expectations(more)
        st2 = new_stats()
        impl2, failures2 = run_stream(binary, more, st2)
        extra_eval = len(more)
        found = report_failures(chk, binary, more, impl2, failures2, known)
        if not failures2:
            n = min(bad) if bad else None
            chk.violation({
                "kind": "proof or correspondence no longer checks",
                "theorem_or_correspondence": (
                    "correspondence Dim.Infer/Dim.Exec (show_run) vs numbat type checker: accept/reject, error "
                    "variant, raw type scheme of every statement" if bad
                    else "Props/C02.v: " + getattr(chk, "proof_failure", "?")),
                "mismatching_cases": len(bad),
                "first_case": None if n is None else {
                    "inputs": src_text(cases[n]["inputs"]), "inputs_ast": D.to_json(cases[n]["inputs"]),
                    "kind": cases[n]["kind"], "why": cases[n].get("why"),
                    "implementation": impl[n].split("\t")[0], "model": bad[n]},
                "searched": "%d further generated cases through the oracle, none fails" % len(more),
            }, found_input=False)
    T["decision_shrink_s"] = round(time.time() - t0, 1)

    # ---- evidence
    kinds = collections.Counter()
    errs = collections.Counter()
    outcome = collections.Counter()
    casekinds = collections.Counter(c["kind"] for c in cases)
    nontrivial = set()
    for n, c in enumerate(cases):
        for stmts in c["inputs"]:
            for st in stmts:
                kinds[st[0] if st[0] != "proc" else st[1]] += 1
        obs = split_line(impl[n])
        rejected = False
        for tc, ex in obs:
            k = tc.split("|")[0]
            outcome["accepted" if k == "ok" else ("rejected-by-type" if k == "err" else "other")] += 1
            if k == "err":
                errs[tc[4:]] += 1
                rejected = True
        if rejected or any(st[0] == "fn" for stmts in c["inputs"] for st in stmts):
            nontrivial.add(impl[n].split("\t")[0])

    def sample(n):
        an = D.analyse(cases[n]["inputs"])
        return {"kind": cases[n]["kind"], "why": cases[n].get("why"), "source": src_text(cases[n]["inputs"]),
                "implementation": impl[n], "expected": [a["verdict"] for a in an]}
    picks = [ncorpus, ncorpus + 1]
    picks.append(next((n for n, c in enumerate(cases) if c["kind"] == "session" and c["expect"][0] == "reject"),
                      len(cases) - 1))
    chk.cov.update({
        "evaluations": len(cases) + len(soups) + extra_eval,
        "distinct_nontrivial": len(nontrivial),
        "rule": "corpus/c02.json, then seeded typed generation: well-dimensioned programs of 3-10 statements "
                "(dimensions known by construction), 1-2 mis-dimensioned variants of each (operand unit swapped in "
                "+ - comparison -> if-branches list / argument lists, annotation or return annotation changed, call "
                "arguments permuted, alternative dimension expression changed) and two-input sessions; a family of literals "
                "of special magnitude (spellings of zero, subnormal, smallest normal, scientific notation, huge finite) as "
                "operand of a sum / comparison, annotated value, argument, conditional branch and list element next to a "
                "dimensionful quantity (accepted iff the literal is exactly zero); plus a "
                "malformed token-soup stream run on the implementation only. Non-trivial = the case contains a "
                "function definition or an input rejected by the type checker; distinct = distinct implementation "
                "observation strings (verdict + raw type scheme of every statement) among those",
        "exhaustive": False,
        "structured_cases": len(cases),
        "case_kinds": dict(casekinds),
        "malformed_cases": len(soups),
        "malformed_outcomes": dict(soup_hist.most_common(12)),
        "inputs_by_outcome": dict(outcome),
        "oracle_verdicts": dict(stats["verdict"]),
        "statement_kinds": dict(kinds),
        "error_variants": dict(errs),
        "types_compared_with_oracle": dict(stats["compared"]),
        "polymorphic_definitions_compared": stats["compared"]["poly-fn"] + stats["compared"]["poly"],
        "runtime_errors_in_accepted_inputs(not compared with model)": dict(stats["runtime_error"]),
        "model_compared_cases": len(items),
        "model_unsupported": len(unsupported),
        "model_mismatches": len(bad),
        "oracle_failures": len(failures) + soup_bad + struct_fail,
        "phase_wall_s": T,
        "samples": [sample(n) for n in picks],
    })


# ------------------------------------------------------------------ replay
def replay(path):
    r = json.load(open(path))
    binary, _ = common.build_harness()
    if "lines" in r:
        line = common.run_harness(binary, "dim", ["\x1f".join(r["lines"])], shards=1, timeout=120)[0]
        print("implementation:", line)
        bad = any(tc.split("|")[0] in ("err", "other") and (ex.get("prints") != "0" or ex.get("defs") != "same")
                  for tc, ex in split_line(line))
        print("still fails" if bad else "no longer fails")
        return 1 if bad else 0
    ast = r.get("inputs_ast") or (r.get("first_case") or {}).get("inputs_ast")
    if ast is None:
        print(json.dumps(r, indent=1))
        return 0
    inputs = [list(x) for x in D.from_json(ast)]
    line = common.run_harness(binary, "dim", [D.harness_line(inputs)], shards=1, timeout=120)[0]
    print(src_text(inputs))
    print("implementation:", line)
    fs = oracle(inputs, line)
    for f in fs:
        print("FAILS %s: expected %s; observed %s" % (f["clause"], f["expected"], f["observed"]))
    if not fs:
        print("agrees with the dimensional analysis")
    return 1 if fs else 0
