"""C21 — assertions decide exactly their documented predicate.

proof:  coq/theories/Props/C21.v (C21_assert, C21_eq2, C21_eq2_other, C21_eq2_exact, C21_eq3_exact,
        C21_eq3_struct, C21_abort) over Qty/Assert.v (port of ffi/procedures.rs assert / assert_eq)
tie:    programs of assertions and marker prints through Context::interpret (real type checker,
        compiler, VM, FFI): outcome kind and captured prints vs the model (vm_compute); generated unit table
oracle: the documented predicate evaluated by exact arithmetic from the unit definitions (and by the f64
        replica of the conversion where the operands are equal up to rounding), first failing assertion
        aborts the input
"""
import collections
import json
import math
import os
from fractions import Fraction

import common
from props import qtylib
from props.qtylib import F, Obs

MANIFEST = dict(
    category="proof",
    text="Machine-checked proof (Coq) over the model of ffi/procedures.rs assert/assert_eq and of Break aborting the "
         "input: assert(c) succeeds iff c (C21_assert); assert_eq(a,b) on quantities succeeds iff a converts to b's "
         "unit and equals b there, on other values iff they are equal (C21_eq2, C21_eq2_other), which at the exact "
         "level is equality of the physical quantities (C21_eq2_exact); assert_eq(a,b,eps) succeeds iff |a-b| <= eps "
         "as physical quantities (C21_eq3_exact) and, for any number type, only if the final partial_cmp answers "
         "Less or Equal — so never with a NaN (C21_eq3_struct); after a failing assertion no later statement of the "
         "input runs (C21_abort, for every program). All closed under the global context. The VM/FFI dispatch and "
         "the roll-back of the Context are covered by the correspondence through Context::interpret only.",
    design_ref="DESIGN.md §6 C21; design/qty.md",
    note="Trusted: Coq kernel + vm_compute; Qty/Assert.v hand port; hook dump/translator; lists and NaN operands are "
         "checked by the oracle only (not in the exact model).",
    technique="Coq proof + generated assertion programs through the real interpreter",
)

THEOREMS = ["C21_assert", "C21_eq2", "C21_eq2_other", "C21_eq2_list_length", "C21_eq2_exact", "C21_eq3_exact", "C21_eq3_struct", "C21_abort"]


def lit(v):
    s = repr(float(v))
    return "(%s)" % s if s.startswith("-") else s


class Q:
    def __init__(self, tbl, rng, v, u):
        self.v, self.u = float(v), u
        self.src = "(%s * %s)" % (lit(v), qtylib.spell_unit(tbl, u, rng))
        self.den = Fraction(self.v) * tbl.scale(u)

    def coq(self, tbl):
        return tbl.coq_q(qtylib.f2bits(self.v), self.u)


def run(chk):
    binary, tbl = qtylib.session()
    proved = chk.prove("Props.C21", THEOREMS, ["theories/Props/C21.vo", "theories/Qty/Prelude.vo", "theories/Qty/DisplayExec.vo", "theories/Qty/PreludeF.vo"],
                       extra_obligations=["Qty.Prelude.prelude_wf", "Qty.Prelude.prelude_exact_int",
                                          "Qty.Prelude.prelude_exact_pos"])
    chk.trusted += [
        "model Qty/Assert.v: p_assert, p_assert_eq2, p_assert_eq3, run_prog (ffi/procedures.rs; Break => the input ends)",
        "correspondence through Context::interpret: outcome kind (AssertFailed / AssertEq2Failed / AssertEq3Failed / ok) and captured prints",
        "Gen/PreludeUnits.v generated from the hook dump on every run",
    ]
    quick = chk.tier == "quick"
    rng = chk.rng
    groups = [g for g in qtylib.dim_groups(tbl, exact_only=True).values() if len(g) >= 2]

    def unit_in(g):
        while True:
            u = qtylib.one_factor(tbl, rng, rng.choice(g), 0.3)
            if qtylib.spell_unit(tbl, u) is not None:
                return u

    def gen_assert():
        """returns (source, coq stmt or None, expected success: True/False, kind, judged_by)"""
        k = rng.choice(["assert", "eq2-far", "eq2-same", "eq2-tie", "eq3", "eq3", "eq3-boundary", "other", "nan", "list", "list", "list"])
        g = rng.choice(groups)
        if k == "assert":
            if rng.random() < 0.4:
                b = rng.random() < 0.5
                return "assert(%s)" % ("true" if b else "false"), "SAssert (VB %s)" % ("true" if b else "false"), b, "assert", "exact"
            a, b = Q(tbl, rng, rng.uniform(1, 100), unit_in(g)), Q(tbl, rng, rng.uniform(1, 100), unit_in(g))
            if qtylib.rel_close(a.den, b.den, 1e-9):
                return gen_assert()
            c = a.den < b.den
            return "assert(%s < %s)" % (a.src, b.src), "SAssert (VB %s)" % ("true" if c else "false"), c, "assert", "exact"
        if k == "eq2-far":
            a, b = Q(tbl, rng, rng.uniform(1, 100), unit_in(g)), Q(tbl, rng, rng.uniform(1, 100), unit_in(g))
            if qtylib.rel_close(a.den, b.den, 1e-6):
                return gen_assert()
            return ("assert_eq(%s, %s)" % (a.src, b.src), "SAssertEq2 (VQ %s) (VQ %s)" % (a.coq(tbl), b.coq(tbl)),
                    False, "eq2", "exact")
        if k == "eq2-same":
            u = unit_in(g)
            v = rng.choice([1.0, 2.5, 0.0, -7.0, 1e-9, 12345.678])
            a, b = Q(tbl, rng, v, u), Q(tbl, rng, v, u)
            return ("assert_eq(%s, %s)" % (a.src, b.src), "SAssertEq2 (VQ %s) (VQ %s)" % (a.coq(tbl), b.coq(tbl)),
                    True, "eq2", "exact")
        if k == "eq2-tie":
            # b is a's value converted (in f64, by the replica) into another unit: equal up to rounding
            ua, ub = unit_in(g), unit_in(g)
            va = rng.choice([1.0, 12.0, 40.5, 3.0, 100.0])
            vb = qtylib.replica_convert(tbl, va, ua, ub)
            if not math.isfinite(vb):
                return gen_assert()
            a, b = Q(tbl, rng, va, ua), Q(tbl, rng, vb, ub)
            ok = qtylib.replica_convert(tbl, va, ua, ub) == vb if ua != ub else va == vb
            return "assert_eq(%s, %s)" % (a.src, b.src), None, ok, "eq2", "replica"
        if k in ("eq3", "eq3-boundary"):
            a = Q(tbl, rng, rng.uniform(1, 100), unit_in(g))
            ue, ub = unit_in(g), unit_in(g)
            ratio = rng.choice([0.0, 0.3, 0.9, 1.1, 3.0, 50.0]) if k == "eq3" else rng.choice([0.999999, 1.000001])
            epsden = a.den * Fraction(rng.choice([1e-6, 1e-3, 0.2]))
            sign = rng.choice([1, -1])
            bden = a.den + sign * Fraction(ratio) * epsden
            vb = float(bden / tbl.scale(ub))
            ve = float(epsden / tbl.scale(ue))
            b, e = Q(tbl, rng, vb, ub), Q(tbl, rng, ve, ue)
            diff = abs(a.den - b.den)
            if e.den == 0 or (k == "eq3" and Fraction(0.95) < diff / e.den < Fraction(1.05)):
                return gen_assert()
            ok = diff <= e.den
            src = "assert_eq(%s, %s, %s)" % (a.src, b.src, e.src)
            if k == "eq3-boundary":
                return src, None, None, "eq3", "not judged (within 1e-6 of the tolerance: rounding decides)"
            return src, "SAssertEq3 %s %s %s" % (a.coq(tbl), b.coq(tbl), e.coq(tbl)), ok, "eq3", "exact"
        if k == "other":
            kind = rng.choice(["str", "bool"])
            if kind == "str":
                x, y = rng.choice(["abc", "", "m", "1 m"]), rng.choice(["abc", "abd", "", "1 m"])
                return ('assert_eq("%s", "%s")' % (x, y), 'SAssertEq2 (VS "%s") (VS "%s")' % (x, y), x == y, "eq2-other", "exact")
            x, y = rng.random() < 0.5, rng.random() < 0.5
            t = lambda b: "true" if b else "false"
            return ("assert_eq(%s, %s)" % (t(x), t(y)), "SAssertEq2 (VB %s) (VB %s)" % (t(x), t(y)), x == y, "eq2-other", "exact")
        if k == "nan":
            u = unit_in(g)
            s = qtylib.spell_unit(tbl, u)
            form = rng.choice(["eq2", "eq3a", "eq3e"])
            if form == "eq2":
                return "assert_eq(NaN * %s, NaN * %s)" % (s, s), None, False, "eq2-nan", "oracle"
            if form == "eq3a":
                return "assert_eq(NaN * %s, 1 * %s, 1 * %s)" % (s, s, s), None, False, "eq3-nan", "oracle"
            return "assert_eq(1 * %s, 1 * %s, NaN * %s)" % (s, s, s), None, False, "eq3-nan", "oracle"
        # lists / nested lists / struct values / strings with prefix relations (the non-quantity branch)
        u = unit_in(g)
        su = qtylib.spell_unit(tbl, u)
        form = rng.choice(["scalars", "quantities", "strings", "nested", "struct", "shared", "strprefix"])

        def q_lit(v, scalar):
            if scalar:
                return "%d" % v, "(VQ (QL (Qm %d 1) []))" % v
            return "(%d * %s)" % (v, su), "(VQ %s)" % tbl.coq_q(qtylib.f2bits(float(v)), u)

        def s_lit(v, _):
            return '"s%d"' % v, '(VS "s%d")' % v

        if form == "strprefix":
            x = rng.choice(["", "a", "ab", "abc"])
            y = rng.choice([x, x + "c", x[:-1] if x else "b"])
            return ('assert_eq("%s", "%s")' % (x, y), 'SAssertEq2 (VS "%s") (VS "%s")' % (x, y), x == y, "eq2-other", "exact")
        if form == "struct":
            a, b2 = rng.randint(1, 3), rng.randint(1, 3)
            c, d = rng.randint(1, 2), rng.randint(1, 2)
            src = "assert_eq(P { x: %d, y: %d }, P { x: %d, y: %d })" % (a, c, b2, d)
            m = 'SAssertEq2 (VL [VS "P"; VQ (QL (Qm %d 1) []); VQ (QL (Qm %d 1) [])]) (VL [VS "P"; VQ (QL (Qm %d 1) []); VQ (QL (Qm %d 1) [])])' % (a, c, b2, d)
            return src, m, (a == b2 and c == d), "eq2-struct", "exact"
        if form == "shared":
            # two views of the same storage: tail / cons of one variable
            n = rng.randint(1, 4)
            vals = [rng.choice([7, 7, 8]) for _ in range(n)]
            op = rng.choice(["tail", "cons", "same", "cons_end"])
            xs = "[" + ", ".join(str(v) for v in vals) + "]"
            lhs = {"tail": "tail(xs)", "cons": "cons(%d, xs)" % vals[0], "same": "xs", "cons_end": "cons_end(%d, tail(xs))" % vals[-1]}[op]
            lv = {"tail": vals[1:], "cons": [vals[0]] + vals, "same": vals, "cons_end": vals[1:] + [vals[-1]]}[op]
            if rng.random() < 0.5:
                src, l, r = "assert_eq(%s, xs)" % lhs, lv, vals
            else:
                src, l, r = "assert_eq(xs, %s)" % lhs, vals, lv
            ml = lambda vs: "(VL [%s])" % "; ".join("VQ (QL (Qm %d 1) [])" % v for v in vs)
            return "let xs = %s␤%s" % (xs, src), "SAssertEq2 %s %s" % (ml(l), ml(r)), l == r, "eq2-list-shared", "exact"
        if form == "nested":
            def mk(vss):
                return ("[" + ", ".join("[" + ", ".join(str(v) for v in vs) + "]" for vs in vss) + "]",
                        "(VL [%s])" % "; ".join("(VL [%s])" % "; ".join("VQ (QL (Qm %d 1) [])" % v for v in vs) for vs in vss))
            a = [[rng.randint(1, 2) for _ in range(rng.randint(1, 2))] for _ in range(rng.randint(1, 3))]
            rel = rng.choice(["equal", "inner-prefix", "outer-prefix", "differ"])
            b2 = [list(x) for x in a]
            if rel == "inner-prefix":
                b2[-1] = b2[-1] + [1]
            elif rel == "outer-prefix":
                b2 = b2 + [[1]]
            elif rel == "differ":
                b2[0] = [9] + b2[0][1:]
            if rng.random() < 0.5:
                a, b2 = b2, a
            (sa, ma), (sb, mb) = mk(a), mk(b2)
            return "assert_eq(%s, %s)" % (sa, sb), "SAssertEq2 %s %s" % (ma, mb), a == b2, "eq2-list-nested", "exact"
        lit = {"scalars": lambda v: q_lit(v, True), "quantities": lambda v: q_lit(v, False), "strings": lambda v: s_lit(v, None)}[form]
        a = [rng.randint(1, 3) for _ in range(rng.randint(0, 3))]
        rel = rng.choice(["equal", "prefix", "suffix", "differ", "empty"])
        if rel == "equal":
            b2 = list(a)
        elif rel == "prefix":
            b2 = a + [rng.randint(1, 3)]
        elif rel == "suffix":
            b2 = [rng.randint(1, 3)] + a
        elif rel == "empty":
            b2, a = [], (a or [1])
        else:
            a = a or [2]
            b2 = list(a)
            b2[rng.randrange(len(b2))] += 5
        if rng.random() < 0.5:
            a, b2 = b2, a
        if not a and not b2:
            a, b2 = [1], [1]
        la, lb = [lit(v) for v in a], [lit(v) for v in b2]
        src = "assert_eq([%s], [%s])" % (", ".join(x[0] for x in la), ", ".join(x[0] for x in lb))
        m = "SAssertEq2 (VL [%s]) (VL [%s])" % ("; ".join(x[1] for x in la), "; ".join(x[1] for x in lb))
        return src, m, a == b2, "eq2-list", "exact"

    progs = []
    for c in json.load(open(os.path.join(common.VERIF, "corpus", "c21.json"))):
        progs.append(dict(kind="corpus", src=c["src"], model=c.get("model"), expect=c["expect"], judged=["corpus"], kinds=["corpus"]))
    for _ in range(700 if quick else 6000):
        n = rng.choice([1, 1, 2, 3])
        stmts, model, prints, outcome, marker = [], [], [], "V:-", 0
        kinds, judged = [], []
        modelable, judgeable = True, True
        alive = True
        for _i in range(n):
            marker += 1
            stmts.append("print(%d)" % marker)
            model.append("SPrint %d" % marker)
            if alive:
                prints.append(str(marker))
            src, m, ok, kind, by = gen_assert()
            stmts.append(src)
            kinds.append(kind)
            judged.append(by)
            if m is None:
                modelable = False
            else:
                model.append(m)
            if ok is None:
                judgeable = False
            if alive and ok is False:
                outcome = "E:assert" if kind == "assert" else ("E:assert_eq3" if kind.startswith("eq3") else "E:assert_eq2")
                alive = False
            if alive and ok is None:
                alive = None        # unknown from here on
        marker += 1
        stmts.append("print(%d)" % marker)
        model.append("SPrint %d" % marker)
        if alive:
            prints.append(str(marker))
        if any(k == "eq2-struct" for k in kinds):
            stmts.insert(0, "struct P { x: Scalar, y: Scalar }")
        progs.append(dict(kind="generated", src="␤".join(stmts), model="[%s]" % "; ".join(model) if modelable else None,
                          expect=(outcome + "|" + ",".join(prints)) if judgeable else None, judged=judged, kinds=kinds))

    outs = common.run_harness(binary, "qty", ["S " + p["src"] for p in progs])
    failing, items, idx = [], [], []
    for n, p in enumerate(progs):
        parts = outs[n].split("\t")
        head = parts[0].split(" ")[0] if parts[0].startswith("E:") else ("V:-" if parts[0].startswith("V:") else parts[0])
        prints = [x[2:] for x in parts[1:] if x.startswith("p:")]
        p["impl"] = head + "|" + ",".join(prints)
        p["raw"] = outs[n]
        if p["expect"] is not None and p["impl"] != p["expect"]:
            failing.append((n, "implementation %s, documented predicate gives %s" % (p["impl"], p["expect"])))
        if p["model"] is not None:
            items.append(("r_prog PX_env prelude_n_exact %s" % p["model"], p["impl"]))
            idx.append(n)
    bad = qtylib.coq_mismatches(items, "c21", shard_size=60)
    mism = {idx[k]: v for k, v in bad.items()}

    for n, why in failing[:3]:
        chk.violation({"kind": "assertion does not decide its documented predicate / later statements ran",
                       "source": progs[n]["src"].replace("␤", "\n"), "implementation": progs[n]["raw"], "detail": why,
                       "judged_by": progs[n]["judged"], "replay": "./check C21 --replay <this file>",
                       "expect": progs[n]["expect"]})
    if not failing and (mism or not proved):
        n = min(mism) if mism else None
        chk.violation({"kind": "proof or correspondence no longer checks",
                       "theorem_or_correspondence": ("correspondence Qty/Assert.v vs ffi/procedures.rs through interpret" if mism
                                                     else "Props/C21.v or table lemma: " + getattr(chk, "proof_failure", "?")),
                       "mismatching_cases": len(mism),
                       "first_case": None if n is None else {"source": progs[n]["src"].replace("␤", "\n"),
                                                             "implementation": progs[n]["impl"], "model": mism[n]}},
                      found_input=False)

    kc = collections.Counter(k for p in progs for k in p["kinds"])
    oc = collections.Counter(p["impl"].split("|")[0] for p in progs)
    aborted_with_later = sum(1 for p in progs if p["impl"].startswith("E:") and p["src"].count("print(") > len(p["impl"].split("|")[1].split(",")))
    chk.cov.update({
        "evaluations": len(progs),
        "distinct_nontrivial": len({p["src"] for p in progs if len(p["kinds"]) >= 1 and p["impl"].startswith("E:")}),
        "rule": "seeded programs of 1-3 assertions separated by marker prints (assert on booleans and comparisons; assert_eq on "
                "far / identical / equal-up-to-rounding quantities in different units, strings, booleans, lists, NaN; three-argument "
                "form with the tolerance in a third unit, far from and at the tolerance); non-trivial = a failing assertion "
                "followed by statements that must not run; distinct = distinct sources",
        "exhaustive": False,
        "assertion_kinds": dict(kc), "outcomes": dict(oc),
        "programs_aborted_before_later_prints": aborted_with_later,
        "judged_by_oracle": sum(1 for p in progs if p["expect"] is not None),
        "model_evaluations": len(items), "model_mismatches": len(mism), "oracle_failures": len(failing),
        "samples": [{"source": progs[i]["src"].replace("␤", " ; "), "implementation": progs[i]["impl"]} for i in (0, len(progs) // 2, len(progs) - 1)],
    })
    chk.assumptions += ["cases within 1e-6 of the tolerance of assert_eq/3 are run but not judged (rounding decides)",
                        "equal-up-to-rounding operands of assert_eq/2 are judged by the f64 replica of the conversion, not by the exact model"]


def replay(path):
    r = json.load(open(path))
    if "source" not in r:
        print(json.dumps(r, indent=1))
        return 0
    binary, tbl = qtylib.session()
    o = common.run_harness(binary, "qty", ["S " + r["source"].replace("\n", "␤")], shards=1)[0]
    print(r["source"])
    print("implementation:", o)
    print("expected (documented predicate):", r.get("expect"))
    parts = o.split("\t")
    head = parts[0].split(" ")[0] if parts[0].startswith("E:") else "V:-"
    got = head + "|" + ",".join(x[2:] for x in parts[1:] if x.startswith("p:"))
    return 1 if r.get("expect") and got != r["expect"] else 0
