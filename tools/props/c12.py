"""C12 — addition commutes and subtraction anti-commutes, units included.

proof:  coq/theories/Props/C12.v — exact level (C12_den, C12_den_sub, C12_den3) and, for ANY number
        type given commutativity of the machine addition / x-y = -(y-x), bit-for-bit equality of
        a+b and b+a including the unit (C12_bitwise, C12_one_zero, C12_sub_bitwise)
tie:    generated unit table + correspondence on every ordered pair of same-dimension units
        (exhaustive) x magnitudes incl. zero and negatives, real `&Quantity + &Quantity`
        in both orders, three-operand sums in every order; model by vm_compute
oracle: the property on the implementation: both orders denote the same quantity (exact arithmetic
        from the definitions, tolerance), and when the unit sizes differ and not both operands are
        zero the two results have identical unit factor lists and identical f64 bits
"""
import collections
import itertools
import json
import os
from fractions import Fraction

import common
from props import qtylib
from props.qtylib import F, Obs

MANIFEST = dict(
    category="proof",
    text="Machine-checked proof (Coq) over the model of impl Add/Sub for &Quantity and Unit::smaller_unit. Exact "
         "level: a+b and b+a denote the same quantity, a-b the negation of b-a, three-operand sums agree in every "
         "order and bracketing (C12_den, C12_den_sub, C12_den3). For any number type (so for IEEE doubles), using "
         "only commutativity of the machine addition resp. x-y = -(y-x): if neither operand is zero, the units are "
         "different and differ in size, a+b and b+a are the same result — same (smaller) unit, same magnitude bit "
         "for bit; with exactly one zero operand both orders return the other operand (C12_bitwise, C12_one_zero, "
         "C12_sub_bitwise); a three-operand sum without zero operands or zero partial sum is expressed in a unit not "
         "larger than any operand's unit (C12_min_unit). All closed under the global context. The two IEEE laws are hypotheses of the "
         "structural theorems (trusted facts about f64).",
    design_ref="DESIGN.md §6 C12; design/qty.md",
    note="Trusted: Coq kernel + vm_compute; Qty/Model.v hand port of Add/Sub/smaller_unit/convert_to; f64 + is "
         "commutative and x-y = -(y-x) (IEEE-754); hook dump and translator.",
    technique="Coq proof (exact level + structural for any number type) + exhaustive unit-pair correspondence",
)

THEOREMS = ["C12_den", "C12_den_sub", "C12_den3", "C12_min_unit", "C12_bitwise", "C12_one_zero", "C12_sub_bitwise"]
REL = 1e-12
MAGS = [0.0, 1.0, -1.0, 2.5, -40.5, 1e-9, 3e7, 123456.789]


def fsize(tbl, u):
    """Unit::smaller_unit compares these f64 factors"""
    return qtylib.f_to_base_factor(tbl, u)


def neg_bits(bits):
    return qtylib.f2bits(-qtylib.bits2f(bits))


def check_pair(tbl, op, va, ua, vb, ub, r1, r2):
    """r1 = a op b, r2 = b op a (observations)"""
    if r1.kind != "Q" or r2.kind != "Q":
        return "a %s b = %s, b %s a = %s" % (op, r1.raw[:60], op, r2.raw[:60])
    if not (r1.finite() and r2.finite()):
        return None
    sign = 1 if op == "add" else -1
    d1 = Fraction(r1.value) * Fraction(qtylib.any_scale(tbl, r1.unit))
    d2 = Fraction(r2.value) * Fraction(qtylib.any_scale(tbl, r2.unit))
    mag = abs(Fraction(va) * Fraction(qtylib.any_scale(tbl, ua))) + abs(Fraction(vb) * Fraction(qtylib.any_scale(tbl, ub)))
    rel = REL if tbl.exact_unit(ua) and tbl.exact_unit(ub) else 1e-9
    if abs(d1 - sign * d2) > Fraction(rel) * mag:
        return "a %s b denotes %r, b %s a denotes %r (base units)" % (op, float(d1), op, float(d2))
    want = Fraction(va) * Fraction(qtylib.any_scale(tbl, ua)) + sign * Fraction(vb) * Fraction(qtylib.any_scale(tbl, ub))
    if abs(d1 - want) > Fraction(rel) * mag:
        return "a %s b denotes %r, exact arithmetic gives %r" % (op, float(d1), float(want))
    both_zero = va == 0.0 and vb == 0.0
    if fsize(tbl, ua) != fsize(tbl, ub) and not both_zero:
        if r1.unit != r2.unit:
            return "units of different size, but a %s b is in %s and b %s a in %s" % (
                op, qtylib.show_unit(r1.unit), op, qtylib.show_unit(r2.unit))
        b2 = r2.bits if op == "add" else neg_bits(r2.bits)
        if r1.bits != b2 and not (r1.value == 0.0 and qtylib.bits2f(b2) == 0.0):
            return "units of different size, but magnitudes differ: %r vs %r" % (r1.value, qtylib.bits2f(b2))
        if va != 0.0 and vb != 0.0:
            small = ua if fsize(tbl, ua) <= fsize(tbl, ub) else ub
            if r1.unit != small:
                return "result unit %s is not the smaller unit %s" % (qtylib.show_unit(r1.unit), qtylib.show_unit(small))
    return None


def run(chk):
    binary, tbl = qtylib.session()
    proved = chk.prove("Props.C12", THEOREMS, ["theories/Props/C12.vo", "theories/Qty/Prelude.vo", "theories/Props/C12F.vo", "theories/Qty/PreludeF.vo"],
                       extra_obligations=["Qty.Prelude.prelude_wf", "Qty.Prelude.prelude_exact_int",
                                          "Qty.Prelude.prelude_exact_pos"])
    chk.trusted += [
        "model Qty/Model.v: qaddsub (impl Add/Sub for &Quantity), smaller_unit, convert_to",
        "IEEE-754: f64 addition is commutative and x - y = -(y - x) (hypotheses of C12_bitwise / C12_sub_bitwise)",
        "Gen/PreludeUnits.v generated from the hook dump on every run",
        "correspondence: coqc vm_compute of Qty.Exec.r_add / r_sub vs real &Quantity + / - (harness qty)",
    ]
    quick = chk.tier == "quick"
    rng = chk.rng
    pairs = qtylib.ordered_pairs(tbl)
    cases = []   # dict(kind, op, va, ua, vb, ub, lines=[l1,l2])

    def pair_case(kind, op, va, ua, vb, ub):
        qa, qb = qtylib.rpn_q(qtylib.f2bits(va), ua), qtylib.rpn_q(qtylib.f2bits(vb), ub)
        cases.append(dict(kind=kind, op=op, va=va, ua=ua, vb=vb, ub=ub,
                          lines=["R %s %s %s" % (qa, qb, op), "R %s %s %s" % (qb, qa, op)]))

    for c in json.load(open(os.path.join(common.VERIF, "corpus", "c12.json"))):
        pair_case("corpus", c["op"], c["va"], qtylib.parse_unit(c["ua"]), c["vb"], qtylib.parse_unit(c["ub"]))
    for (a, b) in pairs:
        if a > b:
            continue        # unordered: both orders are run for each case
        ua, ub = [F(a)], [F(b)]
        combos = [(rng.choice(MAGS[1:]), rng.choice(MAGS[1:])), (rng.choice(MAGS), rng.choice(MAGS))]
        if not quick:
            combos += [(0.0, rng.choice(MAGS[1:])), (rng.choice(MAGS[1:]), 0.0), (0.0, 0.0)]
        for (va, vb) in combos:
            pair_case("pair", "add", va, ua, vb, ub)
            pair_case("pair", "sub", va, ua, vb, ub)
    for (a, b) in rng.sample(pairs, min(len(pairs), 600 if quick else len(pairs))):
        ua, ub = qtylib.one_factor(tbl, rng, a, 0.9), qtylib.one_factor(tbl, rng, b, 0.9)
        pair_case("pair-prefixed", rng.choice(["add", "sub"]), rng.choice(MAGS), ua, rng.choice(MAGS), ub)
    # three operands, every order and bracketing
    triples = []
    groups = [g for g in qtylib.dim_groups(tbl, exact_only=True).values() if len(g) >= 2]
    for _ in range(120 if quick else 1200):
        g = rng.choice(groups)
        us = [qtylib.one_factor(tbl, rng, rng.choice(g), 0.4) for _ in range(3)]
        vs = [rng.choice(MAGS[1:] + [0.0]) for _ in range(3)]
        qs = [qtylib.rpn_q(qtylib.f2bits(v), u) for v, u in zip(vs, us)]
        lines = []
        for (i, j, k) in itertools.permutations(range(3)):
            lines.append("R %s %s add %s add" % (qs[i], qs[j], qs[k]))
            lines.append("R %s %s %s add add" % (qs[i], qs[j], qs[k]))
        triples.append(dict(us=us, vs=vs, lines=lines))

    lines = [l for c in cases for l in c["lines"]] + [l for t in triples for l in t["lines"]]
    outs = common.run_harness(binary, "qty", lines)
    pos = 0
    failing = []
    for c in cases:
        c["obs"] = [Obs(outs[pos]), Obs(outs[pos + 1])]
        pos += 2
        why = check_pair(tbl, c["op"], c["va"], c["ua"], c["vb"], c["ub"], *c["obs"])
        if why:
            failing.append((c, why))
    tfail = []
    for t in triples:
        t["obs"] = [Obs(o) for o in outs[pos:pos + len(t["lines"])]]
        pos += len(t["lines"])
        want = sum(Fraction(v) * tbl.scale(u) for v, u in zip(t["vs"], t["us"]))
        mag = sum(abs(Fraction(v) * tbl.scale(u)) for v, u in zip(t["vs"], t["us"]))
        sizes = [fsize(tbl, u) for u in t["us"]]
        allnz = all(v != 0.0 for v in t["vs"])
        for l, ob in zip(t["lines"], t["obs"]):
            if ob.kind != "Q":
                tfail.append((l, ob, "three-operand sum gave %s" % ob.raw[:60]))
                break
            d = Fraction(ob.value) * tbl.scale(ob.unit)
            if abs(d - want) > Fraction(1e-11) * mag:
                tfail.append((l, ob, "sum denotes %r, every other order denotes %r" % (float(d), float(want))))
                break
            if allnz and len(set(sizes)) == 3 and ob.unit != t["us"][sizes.index(min(sizes))]:
                tfail.append((l, ob, "sum of three different-size units is in %s, not in the smallest unit" %
                              qtylib.show_unit(ob.unit)))
                break

    # model correspondence: a op b (first order) for the unprefixed pair cases and the prefixed ones
    items, idx = [], []
    size_ties = 0
    for n, c in enumerate(cases):
        ob = c["obs"][0]
        if ob.kind != "Q" or not ob.finite():
            continue
        if quick and c["kind"] == "pair" and n % 2 == 1 and c["op"] == "sub" and False:
            continue
        scope = tbl.exact_unit(c["ua"]) and tbl.exact_unit(c["ub"])
        if scope and c["ua"] != c["ub"] and tbl.scale(c["ua"]) != tbl.scale(c["ub"]) and \
                qtylib.rel_close(tbl.scale(c["ua"]), tbl.scale(c["ub"]), 1e-12):
            size_ties += 1      # sizes equal up to rounding: the f64 `<=` of smaller_unit is not an exact-level fact
            continue
        mag = (abs(Fraction(c["va"])) * Fraction(qtylib.any_scale(tbl, c["ua"])) +
               abs(Fraction(c["vb"])) * Fraction(qtylib.any_scale(tbl, c["ub"]))) if scope else 0
        tol = Fraction(REL) * mag / tbl.scale(ob.unit) if scope and tbl.exact_unit(ob.unit) else Fraction(0)
        term = "r_%s PX_env prelude_n_exact %s %s %s %s" % (
            c["op"], qtylib.coq_Q(tol), qtylib.coq_Q(Fraction(ob.value)),
            tbl.coq_q(qtylib.f2bits(c["va"]), c["ua"]), tbl.coq_q(qtylib.f2bits(c["vb"]), c["ub"]))
        items.append((term, ob.expected_model_string() if scope else "OOS"))
        idx.append(n)
    # float-exact level (kernel floats): the model must reproduce the implementation's magnitude bit for bit
    float_cases = 0
    for n, c in enumerate(cases):
        ob = c["obs"][0]
        if ob.kind != "Q" or not (tbl.float_unit_supported(c["ua"]) and tbl.float_unit_supported(c["ub"])):
            continue
        if quick and float_cases >= 1500:
            break
        float_cases += 1
        items.append(("rf_%s PF_env %s %s %s" % (c["op"], qtylib.coq_fb(ob.value), tbl.coq_qF(qtylib.f2bits(c["va"]), c["ua"]),
                                               tbl.coq_qF(qtylib.f2bits(c["vb"]), c["ub"])),
                      "ok:" + qtylib.show_unit(ob.unit)))
        idx.append(n)
    bad = qtylib.coq_mismatches(items, "c12")
    mism = {idx[k]: v for k, v in bad.items()}

    for c, why in failing[:3]:
        chk.violation({"kind": "a op b and b op a disagree", "op": c["op"],
                       "a": [c["va"], qtylib.show_unit(c["ua"])], "b": [c["vb"], qtylib.show_unit(c["ub"])],
                       "harness_lines": c["lines"], "implementation": [o.raw for o in c["obs"]], "detail": why,
                       "replay": "./check C12 --replay <this file>"})
    for l, ob, why in tfail[:max(0, 3 - len(failing))]:
        chk.violation({"kind": "three-operand sum depends on the order", "harness_lines": [l],
                       "implementation": [ob.raw], "detail": why})
    if not failing and not tfail and (mism or not proved):
        n = min(mism) if mism else None
        chk.violation({"kind": "proof or correspondence no longer checks",
                       "theorem_or_correspondence": ("correspondence Qty/Model.v qaddsub vs impl Add/Sub for &Quantity"
                                                     if mism else "Props/C12.v or table lemma: " + getattr(chk, "proof_failure", "?")),
                       "mismatching_cases": len(mism),
                       "first_case": None if n is None else {"harness_line": cases[n]["lines"][0],
                                                             "implementation": cases[n]["obs"][0].raw, "model": mism[n]}},
                      found_input=False)

    diff_size = sum(1 for c in cases if fsize(tbl, c["ua"]) != fsize(tbl, c["ub"]))
    distinct = {(qtylib.show_unit(c["ua"]), qtylib.show_unit(c["ub"]), c["op"]) for c in cases
                if fsize(tbl, c["ua"]) != fsize(tbl, c["ub"]) and (c["va"] != 0.0 or c["vb"] != 0.0)}
    chk.cov.update({
        "evaluations": len(lines),
        "distinct_nontrivial": len(distinct),
        "rule": "every unordered pair of same-dimension units of the dumped table (exhaustive) x 2 magnitude pairs "
                "(zero, negative, tiny, large included) x {+,-}, each run in both orders; prefixed sampled pairs; "
                "three-operand sums in all 6 orders x 2 bracketings; non-trivial = unit sizes differ and not both zero; "
                "distinct = distinct (unit a, unit b, operator)",
        "exhaustive": True, "exhaustive_what": "unordered same-dimension unit pairs (%d ordered)" % len(pairs),
        "pair_cases": len(cases), "pair_cases_different_size": diff_size,
        "zero_operand_cases": sum(1 for c in cases if c["va"] == 0.0 or c["vb"] == 0.0),
        "skipped_size_ties": size_ties, "float_exact_coq_cases": float_cases, "triples": len(triples), "model_evaluations": len(items), "model_mismatches": len(mism),
        "oracle_failures": len(failing) + len(tfail), "relative_tolerance": REL,
        "samples": [{"lines": cases[i]["lines"], "implementation": [o.raw for o in cases[i]["obs"]]}
                    for i in (0, len(cases) // 2, len(cases) - 1)] + [{"triple": triples[0]["lines"][:2]}],
    })
    chk.assumptions += ["f64 addition commutative, x - y = -(y - x) (IEEE-754) — hypotheses of the structural theorems",
                        "exact level for the denotation clauses; rounding measured with relative tolerance 1e-12"]


def replay(path):
    r = json.load(open(path))
    if "harness_lines" not in r:
        print(json.dumps(r, indent=1))
        return 0
    binary, tbl = qtylib.session()
    outs = common.run_harness(binary, "qty", r["harness_lines"], shards=1)
    for l, o in zip(r["harness_lines"], outs):
        print(l, "=>", o)
    if "a" in r and len(outs) == 2:
        why = check_pair(tbl, r["op"], r["a"][0], qtylib.parse_unit(r["a"][1]), r["b"][0],
                         qtylib.parse_unit(r["b"][1]), Obs(outs[0]), Obs(outs[1]))
        print("property:", why or "holds")
        return 1 if why else 0
    return 0
