"""C06 — a failing input leaves the session unchanged.

proof:  coq/theories/Props/C06.v (C06_ABC, C06_resolver, C06_obs, C06_history for arbitrary
        stage functions; C06_skeleton_complete = table lemma over Gen/CtxSkeleton.v;
        C06_before_fix_refuted = the defect of the pinned tree as a kernel-computed witness)
tie:    (1) translator: Gen/CtxSkeleton.v is re-derived from numbat/src/lib.rs on every run
            (which snapshots/restores Context::interpret_with_settings performs);
        (2) correspondence: random sessions over in-memory module tables run on real numbat
            Contexts (harness `session`) and on Session/Toy.v instantiated with the extracted
            skeleton (vm_compute), outcome and full digest after every input must be equal;
        (3) the property itself on the real implementation (metamorphic oracle, always run):
            every session is re-run without its failing inputs (all of them / only the first)
            and the outcomes, digests and importability of every module must agree — on toy
            sessions and on sessions over the real standard library.
"""
import collections
import json
import os
import re

import common
from props import sesslib as S

MANIFEST = dict(
    category="proof",
    text="Machine-checked proof (Coq) about a model of Context::interpret_with_settings (lib.rs) with the concrete "
         "resolver model (resolver.rs: add_code_source, depth-first de-duplicated inlining_pass, resolve): for ARBITRARY "
         "name-resolution / type-check / execution stage functions (a failing stage may leave its own component in any "
         "state), arbitrary module importer and parser, a failing input of any kind (unknown module, parse error also "
         "inside a nested import, name clash, type error, run-time error) leaves transformer, type checker, interpreter "
         "and imported_modules exactly as before (C06_ABC), changes the resolver only by appending diagnostic source "
         "files (C06_resolver), is unobservable by every later input sequence (C06_obs), and deleting all failing "
         "inputs of any history changes neither the other outcomes nor the final state (C06_history). The restores the "
         "proof needs are extracted from lib.rs on every run (Gen/CtxSkeleton.v, table lemma C06_skeleton_complete); "
         "C06_before_fix_refuted shows in the kernel that the pinned tree (imported_modules not rolled back) violated "
         "the property; that defect is repaired by a fix: commit. Stage internals (that numbat's real stages have no "
         "state outside the three cloned components, e.g. that spans never influence results) are NOT proved: they are "
         "validated by the model/implementation correspondence on a miniature language and by the metamorphic oracle on "
         "real standard-library sessions.",
    design_ref="DESIGN.md §6 C06, design/session.md",
    note="Trusted: Coq kernel + vm_compute; hand model Session/{Resolver,Context}.v of resolver.rs / lib.rs; the regex "
         "translator for the snapshot/restore skeleton; Clone of the three components is a deep copy; results do not "
         "depend on source labels/spans; load_currency_module_on_demand is off (Context::new default) — the on-demand "
         "currency branch is not modelled; module importer is a pure function during a session.",
    technique="Coq proof over an abstract-stage model + translator for the restore skeleton + model/implementation "
              "correspondence by vm_compute + metamorphic oracle on the real library",
)

THEOREMS = ["C06_skeleton_complete", "C06_ABC", "C06_resolver", "C06_obs", "C06_history", "C06_before_fix_refuted"]
FINDING_ID = "C06-import-not-rolled-back"


# ------------------------------------------------------------ translator
def skeleton_from_source(repo=None):
    """Which components Context::interpret_with_settings snapshots before and assigns back
    after each failing stage.  Returns (flags dict, notes)."""
    src = open(os.path.join(repo or common.REPO, "numbat", "src", "lib.rs")).read()
    notes = []
    m = re.search(r"pub fn interpret_with_settings<'a>\(", src)
    flags = dict.fromkeys(["res_imp", "nam_A", "nam_imp", "typ_A", "typ_B", "typ_imp",
                           "run_A", "run_B", "run_C", "run_imp"], False)
    if not m:
        return flags, ["interpret_with_settings not found"]
    body = src[m.start():]
    end = body.find("\n    pub fn ", 10)
    body = body[:end if end > 0 else len(body)]
    # strip comments
    body = re.sub(r"//[^\n]*", "", body)

    def pos(pat, start=0):
        mm = re.search(pat, body[start:])
        return (start + mm.start()) if mm else -1

    p_res = pos(r"\.resolve\(")
    p_tra = pos(r"\.transform\(")
    p_chk = pos(r"\.check\(")
    p_run = pos(r"\.interpret_statements\(")
    if min(p_res, p_tra, p_chk, p_run) < 0 or not (p_res < p_tra < p_chk < p_run):
        return flags, ["stage calls not found in the expected order"]
    segs = {"res": body[p_res:p_tra], "nam": body[p_tra:p_chk], "typ": body[p_chk:p_run], "run": body[p_run:]}

    def snapshot_before(var, expr, before):
        mm = re.search(r"let\s+%s\s*=\s*%s\.clone\(\)\s*;" % (var, re.escape(expr)), body)
        return bool(mm) and mm.start() < before

    snap = {
        "A": snapshot_before("prefix_transformer_old", "self.prefix_transformer", p_tra),
        "B": snapshot_before("typechecker_old", "self.typechecker", p_chk),
        "C": snapshot_before("interpreter_old", "self.interpreter", p_run),
        "imp": snapshot_before("imported_modules_old", "self.resolver.imported_modules", p_res),
    }
    for k, v in snap.items():
        if not v:
            notes.append("no snapshot of %s before its stage" % k)

    def err_block(seg):
        """text of the first `if <x>.is_err() { ... }` block of the segment (brace matched)"""
        mm = re.search(r"if\s+\w+\.is_err\(\)\s*\{", seg)
        if not mm:
            return ""
        i, depth = mm.end(), 1
        while i < len(seg) and depth:
            depth += {"{": 1, "}": -1}.get(seg[i], 0)
            i += 1
        return seg[mm.end():i]

    assign = {
        "A": r"self\.prefix_transformer\s*=\s*prefix_transformer_old(\.clone\(\))?\s*;",
        "B": r"self\.typechecker\s*=\s*typechecker_old(\.clone\(\))?\s*;",
        "C": r"self\.interpreter\s*=\s*interpreter_old(\.clone\(\))?\s*;",
        "imp": r"self\.resolver\.imported_modules\s*=\s*imported_modules_old(\.clone\(\))?\s*;",
    }
    for stage, comps in (("res", ["imp"]), ("nam", ["A", "imp"]), ("typ", ["A", "B", "imp"]),
                         ("run", ["A", "B", "C", "imp"])):
        blk = err_block(segs[stage])
        # the error must be propagated only after the block (`?` on the same result)
        for c in comps:
            flags["%s_%s" % (stage, c)] = bool(snap[c] and re.search(assign[c], blk))
    return flags, notes


ORDER = ["res_imp", "nam_A", "nam_imp", "typ_A", "typ_B", "typ_imp", "run_A", "run_B", "run_C", "run_imp"]


def write_skeleton(flags):
    text = ("(* GENERATED by tools/props/c06.py from numbat/src/lib.rs (Context::interpret_with_settings).\n"
            "   Which components the source snapshots before, and assigns back after, each failing stage. *)\n"
            "From NV Require Import Session.Context.\n"
            "Definition current_skeleton : skeleton :=\n  mkSk %s.\n"
            % " ".join("true" if flags[k] else "false" for k in ORDER))
    path = os.path.join(common.COQ, "theories", "Gen", "CtxSkeleton.v")
    os.makedirs(os.path.dirname(path), exist_ok=True)
    if not os.path.exists(path) or open(path).read() != text:
        open(path, "w").write(text)
        for ext in (".vo", ".vos", ".vok", ".glob"):      # never trust a same-second timestamp
            try:
                os.remove(path[:-2] + ext)
            except OSError:
                pass


# ------------------------------------------------------------ std-library sessions
STD_MODS = ["units::stoney", "units::planck", "extra::algebra", "math::constants", "core::strings",
            "units::bit", "math::number_theory", "units::si", "math::statistics", "units::hartree",
            "core::lists", "physics::constants", "units::time", "math::geometry", "core::functions", "core::scalar",
            "core::quantities", "units::si", "core::quantities"]
# (code, requires, provides, once).  Tokens: "mod:<m>" = module m imported (transitively); "name" = name defined;
# "name:sort" = name defined with that sort of value (s scalar, q quantity whose REPRESENTATION may matter,
# str, list, struct, bool, n numeric function, ...).  Providing "name:sort" replaces every other sort of that
# name, so redefinitions that change the type are tracked.  `ans` is tracked the same way ("ans:q", ...).
SI, QU, STR, LST, SCA = "mod:units::si", "mod:core::quantities", "mod:core::strings", "mod:core::lists", "mod:core::scalar"
STD_ITEMS = [
    # variables, redefinitions (also with a different type)
    ("let v1 = 2", [], ["v1:s"], False), ("let v1 = 40 + 2", [], ["v1:s"], False),
    ("let v1 = 3 m", [SI], ["v1:q"], False), ("let v1 = \"text\"", [], ["v1:str"], False),
    ("let v2 = v1 + 1", ["v1:s"], ["v2:s"], False), ("let v2 = v1 + 1 cm", ["v1:q", SI], ["v2:q"], False),
    ("v1 * 2", ["v1:s"], ["ans:s"], False), ("v1 * 2", ["v1:q"], ["ans:q"], False), ("print(v1)", ["v1"], [], False),
    # functions, redefinition with another result type, function values, where clauses
    ("fn f1(x) = 2 x", [], ["f1:n"], False), ("fn f1(x) = 3 x", [], ["f1:n"], False),
    ("fn f1(x) = \"<{x}>\"", [], ["f1:str"], False),
    ("f1(3)", ["f1:n"], ["ans:s"], False), ("f1(3)", ["f1:str"], ["ans:str"], False), ("f1(2 m)", ["f1:n", SI], ["ans:q"], False),
    ("fn f2(x: Scalar) -> Scalar = x + v1", ["v1:s", SCA], ["f2"], False), ("f2(1)", ["f2"], ["ans:s"], False),
    ("fn w1(x) = y + 1\n  where y = 2 x", [], ["w1"], False), ("w1(2)", ["w1"], ["ans:s"], False),
    ("fn w2(x) = a * b\n  where a = x\n  and b = 30 cm", [SI], ["w2"], False), ("w2(2 m)", ["w2"], ["ans:q"], False),
    ("let g1 = f1", ["f1:n"], ["g1"], False), ("g1(2)", ["g1"], ["ans:s"], False),
    # functions used AS VALUES (higher-order library functions, let-bound function values); their names are
    # redefined later in the session (see FUNCTION_VARIANTS / add_redefinitions)
    ("fn inc(x: Scalar) -> Scalar = x + 1", [SCA], ["inc:n"], False), ("fn inc(x: Scalar) -> Scalar = x + 100", [SCA], ["inc:n"], False),
    ("map(inc, [1, 2, 3])", ["inc:n", LST], ["ans:list"], False), ("let m1 = map(inc, [1, 2, 3])", ["inc:n", LST], ["m1:list"], False),
    ("print(m1)", ["m1:list"], [], False), ("let h1 = inc", ["inc:n"], ["h1"], False), ("h1(5)", ["h1"], ["ans:s"], False),
    ("fn isbig(x) = x > 1", [], ["isbig"], False), ("fn isbig(x) = x > 100", [], ["isbig"], False),
    ("filter(isbig, [1, 2, 300])", ["isbig", LST], ["ans:list"], False), ("print(filter(isbig, [1, 2, 300]))", ["isbig", LST], [], False),
    ("fn addf(a, b) = a + b", [], ["addf"], False), ("fn addf(a, b) = a + 2 b", [], ["addf"], False),
    ("foldl(addf, 0, [1, 2, 3])", ["addf", LST], ["ans:s"], False), ("let s2 = foldl(addf, 0, [1, 2, 3])", ["addf", LST], ["s2:s"], False),
    ("s2 + 1", ["s2:s"], ["ans:s"], False), ("print(map(f1, [1, 2]))", ["f1:n", LST], [], False),
    # dimensions and units defined in the session, used through ans
    ("dimension Dq", [], ["Dq"], True), ("unit uq: Dq", ["Dq"], ["uq"], True), ("unit ur = 3 uq", ["uq"], ["ur"], True),
    ("let v3 = 5 uq", ["uq"], ["v3:q"], False), ("v3 -> ur", ["v3:q", "ur"], ["ans:q"], False),
    ("3 uq * 2 ur", ["uq", "ur"], ["ans:q"], False), ("6 ur / 2 uq", ["uq", "ur"], ["ans:q"], False),
    ("2 uq + 1 ur", ["uq", "ur"], ["ans:q"], False), ("unit uw", [], ["uw"], True), ("1 uw + 2 uw", ["uw"], ["ans:q"], False),
    ("unit ux = 2 ans", ["ans:q"], ["ux"], True), ("3 ux", ["ux"], ["ans:q"], False),
    # structs, also as the last result
    ("struct P { a: Scalar }", [SCA], ["P"], True), ("let v4 = P { a: 3 }", ["P"], ["v4:struct"], False),
    ("v4.a", ["v4:struct"], ["ans:s"], False), ("P { a: 4 }", ["P"], ["ans:struct"], False),
    ("ans.a", ["ans:struct"], ["ans:s"], False), ("let s1 = ans", ["ans:struct"], ["s1:struct"], False),
    ("s1.a + 1", ["s1:struct"], ["ans:s"], False),
    # plain results and the last-result identifiers
    ("7 + 1", [], ["ans:s"], False), ("ans + 1", ["ans:s"], ["ans:s"], False), ("_ * 2", ["ans:s"], ["ans:s"], False),
    ("ans * 2", ["ans:q"], ["ans:q"], False), ("print(ans)", ["ans"], [], False), ("print(\"{ans} / {_}\")", ["ans"], [], False),
    ("print(\"hi\")", [], [], False), ("@aliases(vv7) let v7 = 7", [], ["v7"], True), ("vv7", ["v7"], ["ans:s"], False),
    # results that the automatic simplification of `interpret` rewrites (common unit factors, mixed prefixes)
    ("2 m * 30 cm", [SI], ["ans:q"], False), ("3 km / 2 m", [SI], ["ans:q"], False),
    ("5 km / 2 h * 30 min", [SI], ["ans:q"], False), ("2 kW * 3 h", [SI], ["ans:q"], False),
    ("100 cm / 1 m", [SI], ["ans:q"], False), ("1 N m / 2 J", [SI], ["ans:q"], False), ("2 m + 30 cm", [SI], ["ans:q"], False),
    ("1 km^2 / 10 m", [SI], ["ans:q"], False), ("4 m / 2 s * 3 ms", [SI], ["ans:q"], False),
    ("let v5 = 3 meter", [SI], ["v5:q"], False), ("v5 -> cm", ["v5:q"], ["ans:q"], False), ("v5 * 20 cm", ["v5:q"], ["ans:q"], False),
    # lines that observe the REPRESENTATION of the last result (numeric value, unit, text), directly or via a variable
    ("value_of(ans)", ["ans:q", QU], ["ans:s"], False), ("unit_of(ans)", ["ans:q", QU], ["ans:q"], False),
    ("value_of(_)", ["ans:q", QU], ["ans:s"], False), ("value_of(ans) + 1", ["ans:q", QU], ["ans:s"], False),
    ("\"{ans}\"", ["ans"], ["ans:str"], False), ("\"{_} and {ans}\"", ["ans"], ["ans:str"], False),
    ("print(value_of(ans))", ["ans:q", QU], [], False), ("print(unit_of(ans))", ["ans:q", QU], [], False),
    ("let k1 = ans", ["ans:q"], ["k1:q"], False), ("value_of(k1)", ["k1:q", QU], ["ans:s"], False),
    ("unit_of(k1)", ["k1:q", QU], ["ans:q"], False), ("print(\"{k1}\")", ["k1:q"], [], False), ("k1 * 2", ["k1:q"], ["ans:q"], False),
    ("let k2 = value_of(ans)", ["ans:q", QU], ["k2:s"], False), ("k2 + 1", ["k2:s"], ["ans:s"], False),
    ("let k3 = _", ["ans:s"], ["k3:s"], False), ("k3 * 3", ["k3:s"], ["ans:s"], False),
    ("ans == _", ["ans:q"], ["ans:bool"], False), ("ans / unit_of(ans)", ["ans:q", QU], ["ans:q"], False),
    # strings, lists, booleans as last results
    ("\"abc\"", [], ["ans:str"], False), ("str_length(ans)", ["ans:str", STR], ["ans:s"], False),
    ("str_append(ans, \"!\")", ["ans:str", STR], ["ans:str"], False), ("let t1 = ans", ["ans:str"], ["t1:str"], False),
    ("str_length(t1)", ["t1:str", STR], ["ans:s"], False),
    ("[2 m * 30 cm, 1 m^2]", [SI], ["ans:list"], False), ("[1, 2, 3]", [], ["ans:list"], False),
    ("len(ans)", ["ans:list", LST], ["ans:s"], False), ("head(ans)", ["ans:list", LST], ["ans:q"], False),
    ("let l1 = ans", ["ans:list"], ["l1:list"], False), ("len(l1)", ["l1:list", LST], ["ans:s"], False),
    ("1 < 2", [], ["ans:bool"], False), ("if ans then 1 else 2", ["ans:bool"], ["ans:s"], False),
    # generic and recursive functions, conditionals
    ("fn idq<D: Dim>(x: D) -> D = x", [], ["idq"], False), ("idq(2 m * 30 cm)", ["idq", SI], ["ans:q"], False),
    ("idq(ans)", ["idq", "ans:q"], ["ans:q"], False),
    ("fn fact(n) = if n < 1 then 1 else n * fact(n - 1)", [], ["fact"], False), ("fact(5)", ["fact"], ["ans:s"], False),
    ("if v1 > 1 then v1 else 0", ["v1:s"], ["ans:s"], False),
    # surface forms: comments, blank lines, `;` (also at the end of a line), unicode, number formats
    ("7 + 1 # trailing comment", [], ["ans:s"], False), ("# a comment line\n2 + 2", [], ["ans:s"], False),
    ("let a1 = 1; let a2 = 2", [], ["a1:s", "a2:s"], False), ("a1 + a2", ["a1:s", "a2:s"], ["ans:s"], False),
    ("8 + 1;", [], ["ans:s"], False), ("let a3 = ans;", ["ans:s"], ["a3:s"], False), ("a3\n\n+ 0", ["a3:s"], ["ans:s"], False),
    ("2 × 3", [], ["ans:s"], False), ("let α = 2", [], ["α:s"], False), ("α² + 1", ["α:s"], ["ans:s"], False),
    ("1_000 + 0x10 + 1e3", [], ["ans:s"], False), ("2 m + 30 cm -> cm", [SI], ["ans:q"], False),
    # names from standard-library modules
    ("stoney_length", ["mod:units::stoney"], ["ans:q"], False), ("planck_length -> m", ["mod:units::planck"], ["ans:q"], False),
    ("len([1, 2])", [LST], ["ans:s"], False), ("str_length(\"abc\")", [STR], ["ans:s"], False),
    ("gcd(12, 18)", ["mod:math::number_theory"], ["ans:s"], False), ("pi", ["mod:math::constants"], ["ans:s"], False),
    ("let v6 = 2 bit", ["mod:units::bit"], ["v6:q"], False), ("quadratic_equation(1, 0, -1)", ["mod:extra::algebra"], ["ans:list"], False),
    ("mean([1, 2, 3])", ["mod:math::statistics"], ["ans:s"], False), ("sqrt(16)", ["mod:core::functions"], ["ans:s"], False),
    ("speed_of_light", ["mod:physics::constants"], ["ans:q"], False), ("2 hartree", ["mod:units::hartree"], ["ans:q"], False),
    ("3 hours -> minutes", ["mod:units::time"], ["ans:q"], False), ("circle_area(1 m)", ["mod:math::geometry", SI], ["ans:q"], False),
]


# definitions of the functions that sessions use as values; a session that has used one as a value gets a LATER
# redefinition of the same name (the earlier use must keep meaning the earlier definition, in every variant)
FUNCTION_VARIANTS = {
    "f1": ["fn f1(x) = 2 x", "fn f1(x) = 3 x", "fn f1(x) = x + 7"],
    "inc": ["fn inc(x: Scalar) -> Scalar = x + 1", "fn inc(x: Scalar) -> Scalar = x + 100"],
    "isbig": ["fn isbig(x) = x > 1", "fn isbig(x) = x > 100"],
    "addf": ["fn addf(a, b) = a + b", "fn addf(a, b) = a + 2 b"],
}


def add_redefinitions(rng, lines, p=0.6):
    """for every function of FUNCTION_VARIANTS that some line uses as a VALUE (argument of map/filter/foldl, or
    bound to a variable), append — with probability p — a redefinition that differs from its latest definition,
    somewhere after the last such use"""
    out = list(lines)
    for name, variants in FUNCTION_VARIANTS.items():
        uses = [i for i, l in enumerate(out)
                if re.search(r"(map|filter|foldl)\(%s\b|=\s*%s\s*$" % (name, name), l) and not l.startswith("fn ")]
        if not uses or rng.random() > p:
            continue
        defs = [l for l in out if l.startswith("fn %s(" % name)]
        other = [v for v in variants if not defs or v != defs[-1]]
        if any(("F:%s" % name) == "x" for _ in ()):
            continue
        pos = rng.randrange(uses[-1] + 1, len(out) + 1)
        # only if the name keeps a numeric/compatible type: variants are type-compatible by construction
        out.insert(pos, rng.choice(other))
    return out


def item_usable(state, it):
    return all(r in state for r in it[1]) and not (it[3] and all(p.split(":")[0] in state for p in it[2]))


def item_apply(state, it):
    """registers what the item defines; a sorted name replaces the other sorts of that name"""
    for p in it[2]:
        name = p.split(":")[0]
        for t in [t for t in state if t.startswith(name + ":") and not t.startswith("mod:")]:
            state.discard(t)
        state.add(name)
        state.add(p)


def plan_item(rng, state, target, depth=0):
    """lines that make `target` usable (imports and provider items for its unmet requirements, recursively),
    followed by the target itself; registers everything in `state`.  Gives up (returns None) beyond depth 6."""
    if depth > 6:
        return None
    lines = []
    for req in target[1]:
        if req in state:
            continue
        if req.startswith("mod:"):
            m = req[4:]
            state.update("mod:" + x for x in module_closure(m))
            lines.append("use " + m)
            continue
        provs = [i for i in STD_ITEMS if (req in i[2] or req in [p.split(":")[0] for p in i[2]]) and i is not target
                 and not (i[3] and all(p.split(":")[0] in state for p in i[2]))]
        if not provs:
            return None
        sub = plan_item(rng, state, rng.choice(provs), depth + 1)
        if sub is None:
            return None
        lines += sub
    if not item_usable(state, target):
        # an intermediate step replaced something (e.g. the sort of `ans`): re-establish once more
        if depth > 5:
            return None
        again = plan_item(rng, state, target, depth + 3)
        return None if again is None else lines + again
    item_apply(state, target)
    return lines + [target[0]]


def usable_items(state, exclude_ans=False):
    return [i for i in STD_ITEMS if item_usable(state, i)
            and not (exclude_ans and any(r.split(":")[0] == "ans" for r in i[1]))]


STD_BAD = {
    "unknown_module": ["use nosuch::mod", "use units::nosuch"],
    "parse": ["let = 3", "1 +", "fn (x) = 1", "struct { }"],
    "clash": ["let uq = 1", "unit v1", "unit uq: Dq", "fn meter(x) = x", "let ans = 1", "unit uw", "let uw = 2"],
    "type": ["undefined_name_q", "1 + true", "let t1: Dq = 1", "f1(true, 2)", "v3 + 1", "P { b: 1 }", "let t2: Scalar = uw",
             "fn w9(x) = y\n  where y = x + undefined_q", "fn w7(x: Scalar) -> Scalar = y\n  where y = \"s\"",
             "let v1 = v1 + true", "value_of(\"abc\")", "ans.nofield"],
    "runtime": ["1 / 0", "assert(false)", "assert_eq(1, 2)", "error(\"boom\")", "let r1 = 1 / 0", "head([])",
                "print(1)\nprint(2 / 0)", "fn w8(x) = y\n  where y = 1 / (x - x)\nw8(1)", "let v1 = 1 / 0",
                "7 + 1\nlet k9 = ans / 0", "unit uz = 1 / 0"],
}

_closure_cache = {}


def module_closure(m):
    """modules imported (transitively) by `use m`, from the .nbt files"""
    if m in _closure_cache:
        return _closure_cache[m]
    seen, todo = [], [m]
    while todo:
        x = todo.pop()
        if x in seen:
            continue
        seen.append(x)
        path = os.path.join(common.REPO, "numbat", "modules", *x.split("::")) + ".nbt"
        try:
            for line in open(path, encoding="utf-8"):
                mm = re.match(r"\s*use\s+([A-Za-z_][\w:]*)", line)
                if mm:
                    todo.append(mm.group(1))
        except OSError:
            pass
    _closure_cache[m] = seen
    return seen


def gen_std_session(rng, n_inputs=None):
    n_inputs = n_inputs or rng.randrange(6, 13)
    mods = list(dict.fromkeys(rng.sample(STD_MODS, rng.randrange(2, 6))))
    have = set()          # what the generator believes is defined

    def take(state):
        it = rng.choice(usable_items(state))
        item_apply(state, it)
        return it[0]

    inputs = []
    pending = []          # modules first imported by a failing input: re-import them later and use them
    for _ in range(n_inputs):
        r = rng.random()
        if r < 0.36:
            kind = rng.choice(S.FAIL_KINDS)
            scratch = set(have)
            pre = []
            if rng.random() < 0.75:
                cand = [m for m in mods if "mod:" + m not in have] or mods
                m = rng.choice(cand)
                pre.append("use " + m)
                scratch.update("mod:" + x for x in module_closure(m))
                if "mod:" + m not in have:
                    pending.append(m)
            for _ in range(rng.randrange(0, 3)):
                pre.append(take(scratch))
            bad = rng.choice(STD_BAD[kind])
            pos = rng.randrange(len(pre) + 1) if rng.random() < 0.3 else len(pre)
            pre.insert(pos, bad)
            inputs.append("\n".join(pre))
        elif pending and r < 0.7:
            m = pending.pop(0)
            have.update("mod:" + x for x in module_closure(m))
            users = [it[0] for it in usable_items(have) if "mod:" + m in it[1]]
            inputs.append("use " + m + ("\n" + rng.choice(users) if users and rng.random() < 0.8 else ""))
        elif r < 0.5:
            m = rng.choice(mods)
            have.update("mod:" + x for x in module_closure(m))
            inputs.append("use " + m)
        elif r < 0.7:
            got = plan_item(rng, have, rng.choice(STD_ITEMS))
            if got:
                # spread the plan over one or two inputs
                cut = rng.randrange(1, len(got) + 1)
                inputs.append("\n".join(got[:cut]))
                if got[cut:]:
                    inputs.append("\n".join(got[cut:]))
            else:
                inputs.append(take(have))
        else:
            inputs.append("\n".join(take(have) for _ in range(rng.randrange(1, 3))))
    return {"kind": "std", "mods": mods, "inputs": inputs}


# ------------------------------------------------------------ metamorphic oracle
def session_fields(sess, drop=()):
    """harness fields for a session ({'kind','table'?, 'inputs', 'mods'}) without the inputs in `drop`;
    ends with the full digest and the importability of every module."""
    f = []
    if sess["kind"] == "toy":
        f.append(("X", ""))
        for n, c in sess["table"]:
            f.append(("M", "%s=%s" % (n, c)))
    for i, src in enumerate(sess["inputs"]):
        if i not in drop:
            f.append(("I", src))
    f.append(("d", ""))
    for m in sess["mods"]:
        f.append(("U", m))
    return f


def toy_to_sess(table, ops):
    return {"kind": "toy", "table": [(n, S.code_src(c)) for n, c in table],
            "inputs": [S.code_src(op[1]) for op in ops if op[0] == "I"],
            "mods": [n for n, _ in table] + ["nosuch"]}


def compare_runs(sess, full_out, red_out, dropped):
    """full_out / red_out: harness items.  Returns a description of the first difference or None."""
    n = len(sess["inputs"])
    kept = [i for i in range(n) if i not in dropped]
    fo, ro = full_out[:n], red_out[:len(kept)]
    for k, i in enumerate(kept):
        if k >= len(ro) or fo[i] != ro[k]:
            return "input %d %r answers %r after the failing input(s) %s but %r without them" % (
                i, sess["inputs"][i], fo[i], sorted(dropped), ro[k] if k < len(ro) else None)
    tail_f, tail_r = full_out[n:], red_out[len(kept):]
    if tail_f != tail_r:
        names = ["final digest"] + ["use %s (on a clone)" % m for m in sess["mods"]]
        for j, (a, b) in enumerate(zip(tail_f, tail_r)):
            if a != b:
                return "%s differs: with the failing input(s) %s: %r ; without: %r" % (
                    names[j] if j < len(names) else "tail", sorted(dropped), a[:600], b[:600])
        return "tail length differs"
    return None


def oracle(binary, sessions):
    """Runs every session in full, without all failing inputs, and without the first failing
    input only.  Returns (list of (session index, description, dropped), stats)."""
    full = S.run_sessions(binary, [session_fields(s) for s in sessions])
    variants = []
    stats = collections.Counter()
    for si, s in enumerate(sessions):
        n = len(s["inputs"])
        outs = full[si]
        if len(outs) < n or any(o in ("PANIC",) or o.startswith("@@") for o in outs):
            stats["sessions_with_panic_or_crash"] += 1
        failing = [i for i in range(min(n, len(outs))) if not outs[i].startswith("ok|")]
        for i in failing:
            stats["fail:" + S.outcome_kind(outs[i]).split("|")[-1].split(":")[0]] += 1
            if re.search(r"(^|\n)use ", s["inputs"][i]):
                stats["failing_inputs_with_import"] += 1
        stats["inputs"] += n
        stats["failing_inputs"] += len(failing)
        if failing:
            variants.append((si, frozenset(failing)))
            if len(failing) > 1:
                variants.append((si, frozenset(failing[:1])))
                variants.append((si, frozenset(failing[-1:])))
    red = S.run_sessions(binary, [session_fields(sessions[si], drop) for si, drop in variants])
    bad = []
    for (si, drop), ro in zip(variants, red):
        d = compare_runs(sessions[si], full[si], ro, drop)
        if d:
            bad.append((si, d, drop))
    stats["metamorphic_comparisons"] = len(variants)
    return bad, stats, full


def still_fails(binary, sess):
    b, _, _ = oracle(binary, [sess])
    return bool(b)


def shrink_session(binary, sess):
    idx = list(range(len(sess["inputs"])))

    def pred(keep):
        s2 = dict(sess, inputs=[sess["inputs"][i] for i in keep])
        return still_fails(binary, s2)
    keep = common.shrink_list(idx, pred, max_rounds=60)
    s2 = dict(sess, inputs=[sess["inputs"][i] for i in keep])
    # shrink the statements inside each remaining input
    for k in range(len(s2["inputs"])):
        lines = s2["inputs"][k].split("\n")
        if len(lines) > 1:
            def pred2(ls, k=k):
                s3 = dict(s2, inputs=s2["inputs"][:k] + ["\n".join(ls)] + s2["inputs"][k + 1:])
                return still_fails(binary, s3)
            ls = common.shrink_list(lines, pred2, max_rounds=20)
            s2 = dict(s2, inputs=s2["inputs"][:k] + ["\n".join(ls)] + s2["inputs"][k + 1:])
    return s2


def matches_fixed_finding_shape(sess, drop):
    """the class of the repaired defect: a dropped (failing) input contains a `use`"""
    return any(re.search(r"(^|\n)\s*use ", sess["inputs"][i]) for i in drop if i < len(sess["inputs"]))


# ------------------------------------------------------------ end-to-end: the interactive REPL binary under a pty
PTY_SESSIONS = [
    # (lines typed, text that must appear in the answer to the last line, what it shows)
    (["use units::stoney; assert(false)", "use units::stoney", "stoney_length"], "= 1 stoney_length",
     "run-time error after an import"),
    (["use extra::algebra; 1 + true", "use extra::algebra", "quadratic_equation(1, 0, -1)"], "= [",
     "type error after an import"),
    (["use units::stoney; use nosuch::mod", "use units::stoney", "stoney_mass"], "= 1 stoney_mass",
     "unknown module after an import"),
]


def pty_session(cli, home, lines, prompt_timeout=90.0):
    """types the lines into `numbat` running under a pseudo terminal (script -qc) and returns the cleaned
    transcript.  Each line is sent only after a fresh prompt has been printed (rustyline discards input typed
    before it switches the terminal to raw mode, so fixed pauses lose lines on a loaded machine)."""
    import shlex
    import subprocess
    import threading
    import time
    env = dict(common.ENV)
    env.update({"HOME": home, "XDG_CONFIG_HOME": os.path.join(home, "cfg"), "XDG_DATA_HOME": os.path.join(home, "data"),
                "TERM": "xterm"})
    cmd = "%s --no-config --no-init --intro-banner off --color never" % shlex.quote(cli)
    p = subprocess.Popen(["script", "-qc", cmd, "/dev/null"], stdin=subprocess.PIPE, stdout=subprocess.PIPE,
                         stderr=subprocess.STDOUT, env=env, bufsize=0)
    buf = bytearray()
    lock = threading.Lock()

    def reader():
        while True:
            chunk = p.stdout.read(4096)
            if not chunk:
                break
            with lock:
                buf.extend(chunk)
    rt = threading.Thread(target=reader, daemon=True)
    rt.start()

    def prompts():
        with lock:
            return bytes(buf).count(b">>> ")

    def feed():
        try:
            sent = 0
            for l in lines + ['print("MARK-END")', "quit"]:
                t0 = time.time()
                while prompts() <= sent and time.time() - t0 < prompt_timeout:
                    time.sleep(0.1)
                time.sleep(0.3)
                p.stdin.write((l + "\n").encode("utf-8"))
                p.stdin.flush()
                sent += 1
            time.sleep(1.0)
            p.stdin.close()
        except (BrokenPipeError, OSError):
            pass
    th = threading.Thread(target=feed, daemon=True)
    th.start()
    killer = threading.Timer(prompt_timeout * 2 + 30 * (len(lines) + 2), p.kill)
    killer.start()
    p.wait()
    killer.cancel()
    rt.join(timeout=5)
    with lock:
        txt = bytes(buf).decode("utf-8", "replace")
    txt = re.sub(r"\x1b\[[0-9;?]*[a-zA-Z]", "", txt).replace("\r", "")
    return txt


def pty_conclusive(txt, lines):
    """every typed line was echoed after its own prompt (as a whole line) and the end marker was printed"""
    echoed = re.findall(r"^>>> (.*)$", txt, re.M)
    want = list(lines) + ['print("MARK-END")']
    it = iter(echoed)
    ok = all(any(e.strip() == w.strip() for e in it) for w in want)      # in order
    return ok and txt.count("MARK-END") >= 2


def pty_regression(chk):
    """Returns (violations, conclusive sessions, attempted).  A session only counts when its transcript is
    conclusive (every typed line echoed after a prompt and the end marker printed)."""
    import concurrent.futures as cf
    import shutil
    if not shutil.which("script"):
        chk.notes.append("pty regression skipped: no `script` binary")
        return [], 0, 0
    try:
        cli = common.build_cli()
    except common.Broken as e:
        chk.notes.append("pty regression skipped: %s" % str(e)[:200])
        return [], 0, 0
    home = os.path.join(common.WORK, "c06-pty")
    os.makedirs(home, exist_ok=True)
    with cf.ThreadPoolExecutor(max_workers=len(PTY_SESSIONS)) as ex:
        outs = list(ex.map(lambda sess: pty_session(cli, home, sess[0]), PTY_SESSIONS))
    bad, conclusive = [], 0
    for (lines, want, what), txt in zip(PTY_SESSIONS, outs):
        if not pty_conclusive(txt, lines):
            continue
        conclusive += 1
        parts = txt.rsplit(">>> " + lines[-1] + "\n", 1)
        if len(parts) < 2:
            conclusive -= 1
            continue
        tail = parts[1].split(">>> ", 1)[0]
        if want not in tail or "nknown identifier" in tail:
            bad.append({"typed": lines, "what": what, "answer_to_last_line": tail.strip()[:600]})
    return bad, conclusive, len(PTY_SESSIONS)


# ------------------------------------------------------------ the check
def load_corpus():
    p = os.path.join(common.VERIF, "corpus", "c06.json")
    return json.load(open(p)) if os.path.exists(p) else []


def run(chk):
    binary, _ = common.build_harness()
    flags, notes = skeleton_from_source()
    write_skeleton(flags)
    chk.notes += ["skeleton translator: " + n for n in notes]
    proved = chk.prove("Props.C06", THEOREMS,
                       ["theories/Props/C06.vo", "theories/Session/Toy.vo"])
    if not proved:
        chk.notes.append("proof side: " + str(getattr(chk, "proof_failure", "?"))[:1500])
    chk.trusted += [
        "model Session/Resolver.v, Session/Context.v: hand port of numbat/src/resolver.rs and of the control flow of "
        "lib.rs Context::interpret_with_settings; stage functions are universally quantified",
        "translator tools/props/c06.py:skeleton_from_source (regex + brace matching over lib.rs) -> Gen/CtxSkeleton.v = %s"
        % " ".join("%s=%d" % (k, flags[k]) for k in ORDER),
        "instance Session/Toy.v (miniature of numbat's stages on let/unit/use/print/+ and division by zero) is compared "
        "with real Contexts; it is not used by the theorems",
        "metamorphic oracle uses only the public API (interpret, variable_names, functions, unit_names, "
        "unit_representations, resolver().imported_modules, values via print/type on a clone)",
    ]
    chk.assumptions += [
        "Clone of Transformer/TypeChecker/BytecodeInterpreter is a deep copy (or shares only immutable / copy-on-write data, C18)",
        "stage results do not depend on code_source ids / spans (only diagnostics labels do)",
        "load_currency_module_on_demand = false (Context::new); exchange-rate fetching is outside the model",
        "the module importer is a pure function during a session",
    ]
    quick = chk.tier == "quick"

    # ---- cases: corpus first
    toy_cases = []      # (table, ops, origin)
    sessions = []       # oracle sessions
    origin = []
    for c in load_corpus():
        if c["kind"] == "toy":
            table = [(n, tuple_code(cd)) for n, cd in c["table"]]
            ops = [tuple_op(o) for o in c["ops"]]
            toy_cases.append((table, ops, "corpus"))
            sessions.append(toy_to_sess(table, ops))
        else:
            sessions.append({"kind": "std", "mods": c["mods"], "inputs": c["inputs"]})
        origin.append("corpus")
    n_toy = 240 if quick else 2400
    n_std = 70 if quick else 600
    for _ in range(n_toy):
        table, ops = S.gen_toy_session(chk.rng)
        toy_cases.append((table, ops, "random"))
        sessions.append(toy_to_sess(table, ops))
        origin.append("toy")
    for _ in range(n_std):
        sessions.append(gen_std_session(chk.rng))
        origin.append("std")

    # ---- correspondence model vs implementation on the toy cases
    import time
    t0 = time.time()
    impl = S.run_sessions(binary, [S.toy_case_fields(t, o) for t, o, _ in toy_cases])
    t1 = time.time()
    items = [(S.toy_case_coq(t, o), "\t".join(impl[n])) for n, (t, o, _) in enumerate(toy_cases)]
    bad_model = common.coq_mismatches(S.COQ_IMPORTS + ["Gen.CtxSkeleton"], items, "c06",
                                      shard_size=min(60, max(8, -(-len(items) // common.NPROC))), timeout=2400)

    # ---- the property itself on the implementation (always)
    t2 = time.time()
    bad, stats, full = oracle(binary, sessions)
    t3 = time.time()
    chk.notes.append("timing: toy sessions on the implementation %.1fs, model by vm_compute %.1fs, oracle %.1fs"
                     % (t1 - t0, t2 - t1, t3 - t2))

    pty_bad, pty_ok, pty_n = pty_regression(chk)
    stats["pty_sessions_conclusive"] = pty_ok
    stats["pty_sessions_attempted"] = pty_n

    found = 0
    for b in pty_bad[:2]:
        chk.violation({
            "kind": "interactive REPL (real binary under a pty): a failing input changed the session",
            "session": {"kind": "pty", "inputs": b["typed"], "mods": []}, "detail": "%s: the last line answers %r" % (
                b["what"], b["answer_to_last_line"]),
            "replay": "type the lines into `numbat --no-config --no-init` (interactive)",
        })
        found += 1
    reported = set()
    for si, desc, drop in bad:
        if si in reported:
            continue
        reported.add(si)
        small = shrink_session(binary, sessions[si])
        b2, _, _ = oracle(binary, [small])
        d2 = b2[0][1] if b2 else desc
        chk.violation({
            "kind": "a failing input changed the session (real numbat Context, public API)",
            "session": small, "detail": d2, "origin": origin[si],
            "would_match_fixed_finding_class": FINDING_ID if matches_fixed_finding_shape(sessions[si], drop) else None,
            "replay": "./check C06 --replay <this file>",
        })
        found += 1
        if found >= 3:
            break
    if not found and (bad_model or not proved):
        n = min(bad_model) if bad_model else None
        chk.violation({
            "kind": "proof or correspondence no longer checks",
            "theorem_or_correspondence": (
                "correspondence Session/Toy.v (skeleton from lib.rs) vs numbat Context on toy sessions"
                if bad_model else "Props/C06.v: " + getattr(chk, "proof_failure", "?")),
            "skeleton_extracted": flags, "translator_notes": notes,
            "mismatching_cases": len(bad_model),
            "first_case": None if n is None else {
                "fields": S.toy_case_fields(toy_cases[n][0], toy_cases[n][1]),
                "implementation": impl[n], "model": bad_model[n].split("\t")},
        }, found_input=False)

    # ---- coverage
    shapes = set()
    nontrivial = 0
    for si, s in enumerate(sessions):
        outs = full[si][:len(s["inputs"])]
        kinds = tuple(S.outcome_kind(o) for o in outs)
        has_fail_after_import = any(not o.startswith("ok|") and re.search(r"(^|\n)use ", s["inputs"][i])
                                    for i, o in enumerate(outs))
        later_ok = any(o.startswith("ok|") for o in outs[1:])
        key = common.shape_hash(repr((kinds, s["inputs"])))
        if has_fail_after_import and later_ok and key not in shapes:
            nontrivial += 1
        shapes.add(key)
    chk.cov.update({
        "evaluations": len(sessions) + stats["metamorphic_comparisons"],
        "distinct_nontrivial": nontrivial,
        "rule": "sessions = corpus + seeded toy sessions (in-memory module tables with cycles, unknown and broken "
                "modules; ~40% failing inputs of every kind, 60% of them importing a module first) + seeded sessions "
                "over real standard-library modules; each is run in full and again without its failing inputs (all / "
                "first / last). non-trivial = distinct session in which an input that contains a `use` fails and a "
                "later input succeeds",
        "sessions_toy": len(toy_cases), "sessions_std": sum(1 for o in origin if o == "std"),
        "model_vs_impl_cases": len(toy_cases), "model_mismatches": len(bad_model),
        "oracle_violations": len(bad),
        "histogram": dict(stats),
        "exhaustive": False,
        "samples": [sessions[0], sessions[len(toy_cases) // 2], sessions[-1]],
    })


def tuple_code(cd):
    def tup(x):
        return tuple(tup(y) for y in x) if isinstance(x, list) else x
    if cd[0] == "ok":
        return ("ok", [tup(s) for s in cd[1]])
    return ("bad", [tup(s) for s in cd[1]], cd[2], cd[3])


def tuple_op(o):
    return ("I", tuple_code(o[1])) if o[0] == "I" else ("d",)


def replay(path):
    r = json.load(open(path))
    if "session" not in r:
        print(json.dumps(r, indent=1)[:4000])
        return 0
    binary, _ = common.build_harness()
    sess = r["session"]
    if sess.get("table"):
        sess["table"] = [tuple(x) for x in sess["table"]]
    if sess.get("kind") == "pty":
        print(json.dumps(r, indent=1)[:3000])
        return 0
    bad, stats, full = oracle(binary, [sess])
    print("full run:", full[0][:len(sess["inputs"])])
    for _, d, drop in bad:
        print("VIOLATED:", d)
    if not bad:
        print("agrees: the session without its failing inputs behaves the same")
    return 1 if bad else 0
