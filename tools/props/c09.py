"""C09 — compiled programs compute what their source means.

proof:  coq/theories/Props/C09.v over the models in coq/theories/VM/
        (Compile.v = bytecode_interpreter.rs, Machine.v = vm.rs, RefSem.v = evaluation rules)
tie:    three-way correspondence on generated well-typed programs:
          implementation  (harness `vm`: Context::interpret, print capture, bytecode dump hook)
          model machine on model-compiled code  (vm_compute)      -> must equal the implementation
          model compiler output                                    -> must equal the implementation's dump
          reference evaluator (static binding)                     -> the ORACLE: must equal the implementation
oracle: RefSem.run_static (vm_compute) vs the implementation's value/print output.
"""
import collections
import json
import os
import re
import subprocess
import concurrent.futures as cf

import common

MANIFEST = dict(
    category="proof",
    text="proof (partial). Machine-checked compiler-correctness proof (Coq) for a faithful model of "
         "bytecode_interpreter.rs (compile_expression / compile_define_variable / compile_statement: slot resolution "
         "local/global/ans/function value with the chunk index captured at creation, jump offsets of conditionals and "
         "the CodeTooLarge check, call frames with parameters and where-locals, recursion, function values and callable "
         "calls, foreign calls, struct literals sorted by definition index and emitted in reverse, field access, lists, "
         "string parts and JoinString, procedures) and of the vm.rs stack machine against an independent big-step "
         "reference semantics. C09_compile_correct: for EVERY program of the modelled language and every fuel, if "
         "compilation stays within the u16 ranges (compile_ok) and the reference evaluation yields print output and a "
         "final value, the machine running the compiled code halts with exactly that output and value; "
         "C09_reference_deterministic: that value does not depend on the fuel. Named clauses: C09_field_order, "
         "C09_list_order, C09_string_order, C09_arg_order, C09_innermost_binding. C09_errors_partial: runtime errors of "
         "the reference are errors of the same kind on the machine (struct literals excluded, format specifiers assumed "
         "total); C09_no_stuck_partial / C09_no_stuck_on_error_partial: no panic on runs whose reference outcome is a "
         "value or an error. Cross-area composition (Props/C01C09.v): with the primitive operations instantiated by the "
         "dimension-level arithmetic of the type-checker area (Dim/Run.v), the model machine running the model-compiled "
         "program of the shared let/expression fragment ends with every global holding a quantity of exactly the "
         "dimension the type-checker model inferred (C01_C09_composition_partial), and never panics "
         "(C09_no_stuck_typed_fragment). NOT proved: absence of panics for ALL well-typed programs (needs the type system of C02 "
         "and a treatment of diverging runs, see design/vm.md). The two former findings (function values re-bound by a "
         "redefinition; silent truncation of 16 bit jump offsets) are repaired in numbat and kept as regression "
         "examples. The model is tied to the code on every run: the model compiler's output is compared instruction "
         "by instruction with the real compiler's (hook dump), and model machine / reference evaluator / "
         "implementation results are compared on generated well-typed programs (incl. dimension / base-unit definitions, "
         "quantities with units, type(…)) and multi-input sessions (with "
         "failing inputs that must be rolled back); the reference evaluator is the oracle.",
    design_ref="DESIGN.md §6 C09, design/vm.md",
    note="Trusted: Coq kernel + vm_compute; the hand ports Compile.v/Machine.v (validated every run by the opcode-level "
         "and result-level correspondence, not proved against Rust); quantity arithmetic, formatting and foreign "
         "functions are parameters of the theorems (instantiated with exact integers in the correspondence); units, "
         "dates, prefixes, format specifiers and the `type` procedure are outside the model.",
    technique="Coq forward-simulation proof (fuel induction, frame-generic invariant) + three-way model/implementation correspondence by vm_compute",
)

THEOREMS = ["C09_compile_correct", "C09_reference_deterministic", "C09_no_stuck_partial", "C09_no_stuck_on_error_partial", "C09_errors_partial",
            "C09_expr_simulation", "C09_list_order", "C09_arg_order", "C09_string_order", "C09_field_order",
            "C09_innermost_binding"]
COMPOSITION_THEOREMS = ["C01_C09_composition_partial", "C09_no_stuck_typed_fragment"]
ALLOWED_AXIOMS = []
FRAGMENT_OPCODES = ["LoadConstant", "GetLocal", "GetUpvalue", "GetLastResult", "Negate", "LogicalNeg", "Factorial",
                    "Add", "Subtract", "Multiply", "Divide", "Power", "LessThan", "GreaterThan", "LessOrEqual",
                    "GreatorOrEqual", "Equal", "NotEqual", "LogicalAnd", "LogicalOr", "JumpIfFalse", "Jump", "Call",
                    "FFICallFunction", "FFICallProcedure", "CallCallable", "JoinString", "BuildStructInstance",
                    "AccessStructField", "BuildList", "Return", "PrintString"]   # ConvertTo / ApplyPrefix / SetUnitConstant: not modelled
FUEL_REF = 600
FUEL_MACH = 20000

# --------------------------------------------------------------------- types
S, B, T = ("S",), ("B",), ("T",)


def tlist(t):
    return ("L", t)


def tfn(args, ret):
    return ("F", tuple(args), ret)


def tstruct(name):
    return ("R", name)


def type_src(t):
    k = t[0]
    if k == "S":
        return "Scalar"
    if k == "B":
        return "Bool"
    if k == "T":
        return "String"
    if k == "L":
        return "List<%s>" % type_src(t[1])
    if k == "F":
        return "Fn[(%s) -> %s]" % (", ".join(type_src(a) for a in t[1]), type_src(t[2]))
    return t[1]


def cstr(s):
    return '"' + s.replace('"', '""') + '"'


def clist(items):
    return "[" + "; ".join(items) + "]"


class Gen:
    """One well-typed program, emitted twice: numbat source and Coq AST."""

    STMT_LIMIT = 2500
    FN_LIMIT = 800
    VARS = ["a", "b", "c", "x", "y", "z", "p", "q", "n", "t"]
    FNS = ["f", "g", "h", "k", "r", "w"]
    FIELDS = ["u", "v", "w", "m"]
    FOREIGN = {
        "len": ("fn len<A>(xs: List<A>) -> Scalar", None),
        "head": ("fn head<A>(xs: List<A>) -> A", None),
        "tail": ("fn tail<A>(xs: List<A>) -> List<A>", None),
        "cons": ("fn cons<A>(x: A, xs: List<A>) -> List<A>", None),
        "cons_end": ("fn cons_end<A>(x: A, xs: List<A>) -> List<A>", None),
        "str_length": ("fn str_length(s: String) -> Scalar", None),
        "mod": ("fn mod<T: Dim>(a: T, b: T) -> T", None),
        "str_slice": ("fn str_slice(start: Scalar, end: Scalar, s: String) -> String", None),
        "uppercase": ("fn uppercase(s: String) -> String", None),
        "lowercase": ("fn lowercase(s: String) -> String", None),
    }

    # list functions of the prelude (modules/core/lists.nbt), defined by the program itself
    LISTLIB = [
        ("is_empty", "fn is_empty<A>(xs: List<A>) -> Bool = xs == []",
         'SFn "is_empty" ["xs"] [] (EBin BEq (EIdent "xs") (EList []))'),
        ("concat", "fn concat<A>(xs1: List<A>, xs2: List<A>) -> List<A> = if is_empty(xs1) then xs2 else cons(head(xs1), concat(tail(xs1), xs2))",
         'SFn "concat" ["xs1"; "xs2"] [] (ECond (ECall "is_empty" [EIdent "xs1"]) (EIdent "xs2") '
         '(ECall "cons" [ECall "head" [EIdent "xs1"]; ECall "concat" [ECall "tail" [EIdent "xs1"]; EIdent "xs2"]]))'),
        ("reverse", "fn reverse<A>(xs: List<A>) -> List<A> = if is_empty(xs) then [] else cons_end(head(xs), reverse(tail(xs)))",
         'SFn "reverse" ["xs"] [] (ECond (ECall "is_empty" [EIdent "xs"]) (EList []) '
         '(ECall "cons_end" [ECall "head" [EIdent "xs"]; ECall "reverse" [ECall "tail" [EIdent "xs"]]]))'),
        ("map", "fn map<A, B>(f: Fn[(A) -> B], xs: List<A>) -> List<B> = if is_empty(xs) then [] else cons(f(head(xs)), map(f, tail(xs)))",
         'SFn "map" ["f"; "xs"] [] (ECond (ECall "is_empty" [EIdent "xs"]) (EList []) '
         '(ECall "cons" [ECallable (EIdent "f") [ECall "head" [EIdent "xs"]]; ECall "map" [EIdent "f"; ECall "tail" [EIdent "xs"]]]))'),
        ("map2", "fn map2<A, B, C>(f: Fn[(A, B) -> C], other: A, xs: List<B>) -> List<C> = if is_empty(xs) then [] else cons(f(other, head(xs)), map2(f, other, tail(xs)))",
         'SFn "map2" ["f"; "other"; "xs"] [] (ECond (ECall "is_empty" [EIdent "xs"]) (EList []) '
         '(ECall "cons" [ECallable (EIdent "f") [EIdent "other"; ECall "head" [EIdent "xs"]]; '
         'ECall "map2" [EIdent "f"; EIdent "other"; ECall "tail" [EIdent "xs"]]]))'),
        ("foldl", "fn foldl<A, B>(f: Fn[(A, B) -> A], acc: A, xs: List<B>) -> A = if is_empty(xs) then acc else foldl(f, f(acc, head(xs)), tail(xs))",
         'SFn "foldl" ["f"; "acc"; "xs"] [] (ECond (ECall "is_empty" [EIdent "xs"]) (EIdent "acc") '
         '(ECall "foldl" [EIdent "f"; ECallable (EIdent "f") [EIdent "acc"; ECall "head" [EIdent "xs"]]; ECall "tail" [EIdent "xs"]]))'),
    ]

    def __init__(self, rng, profile):
        self.rng = rng
        self.profile = profile
        self.src = ["dimension Scalar = 1"]
        self.coq = []
        self.globals = {}     # name -> type (latest)
        self.fns = {}         # name -> (argtypes, ret, recursive)
        self.structs = {}     # name -> [(field, type)]
        self.foreign = set()
        self.features = collections.Counter()
        self.glob_lo = {}      # global list variable -> guaranteed minimum length
        self.in_function = False
        self.ans_type = None   # type of the last expression statement (`ans`)
        self.cost = 0          # estimated evaluation steps of the code generated since the last reset
        self.fn_cost = {}      # name -> estimated steps of one call

    # -------------------------------------------------------------- helpers
    def scope_vars(self, scope, t):
        return [n for n, ty in scope.items() if ty == t]

    def foreign_values(self):
        """builtin functions of arity >= 2 usable as function VALUES (order-sensitive arguments),
        at the monomorphic instances the generator uses"""
        LS = tlist(S)
        table = {"mod": ([S, S], S), "cons": ([S, LS], LS), "cons_end": ([S, LS], LS),
                 "str_slice": ([S, S, T], T)}
        return {n: sig for n, sig in table.items() if n in self.foreign}

    def fn_candidates(self, scope, argtypes, ret):
        user = [n for n, (a, r, rec) in self.fns.items()
                if n not in scope and tuple(a) == tuple(argtypes) and r == ret and not rec]
        builtin = [n for n, (a, r) in self.foreign_values().items()
                   if n not in scope and n not in self.fns and tuple(a) == tuple(argtypes) and r == ret]
        return user + builtin + builtin        # builtins twice: they are the rarer, order-sensitive case

    def lit_string(self):
        return "".join(self.rng.choice("abcdefg hij") for _ in range(self.rng.randrange(0, 4)))

    # ---------------------------------------------------------- expressions
    def expr(self, t, d, scope, nostr=False):
        """returns (src, coq).  scope: visible variables (locals shadow globals)."""
        r = self.rng
        k = t[0]
        self.cost += 1
        vs = self.scope_vars(scope, t)
        leaf = d <= 0 or r.random() < 0.22
        if vs and r.random() < (0.5 if leaf else 0.18):
            x = r.choice(vs)
            self.features["var"] += 1
            return x, "EIdent %s" % cstr(x)
        if not leaf:
            c = r.random()
            if c < 0.10:
                cs, cc = self.expr(B, d - 1, scope, nostr)
                a, ac = self.expr(t, d - 1, scope, nostr)
                b, bc = self.expr(t, d - 1, scope, nostr)
                self.features["cond"] += 1
                return "(if %s then %s else %s)" % (cs, a, b), "ECond (%s) (%s) (%s)" % (cc, ac, bc)
            if c < 0.24:
                res = self.call(t, d, scope, nostr)
                if res:
                    return res
            if c < 0.30:
                res = self.field(t, d, scope, nostr)
                if res:
                    return res
            if c < 0.34 and "head" in self.foreign and not (nostr and self.has_str(t)) and t[0] in "SBTR":
                # head of a list that is guaranteed to be non-empty
                l, lc, _ = self.list_expr(t, d - 1, scope, nostr, minlo=1)
                self.features["head"] += 1
                return "head(%s)" % l, 'ECall "head" [%s]' % lc
        if k == "S":
            if leaf:
                n = r.randrange(0, 10)
                return str(n), "EScalar %d%%Z" % n
            c = r.random()
            if c < 0.55:
                op, cop = r.choice([("+", "BAdd"), ("-", "BSub"), ("*", "BMul"), ("+", "BAdd"), ("-", "BSub")])
                a, ac = self.expr(S, d - 1, scope, nostr)
                b, bc = self.expr(S, d - 1, scope, nostr)
                self.features["arith"] += 1
                return "(%s %s %s)" % (a, op, b), "EBin %s (%s) (%s)" % (cop, ac, bc)
            if c < 0.60:
                a, ac = self.expr(S, d - 1, scope, nostr)
                self.features["neg"] += 1
                return "(-%s)" % a, "EUn UNeg (%s)" % ac
            if c < 0.615 and "mod" in self.foreign:
                a, ac = self.expr(S, d - 1, scope, nostr)
                k = r.randrange(1, 10)
                self.features["mod"] += 1
                if r.random() < 0.3:
                    return "mod(%s, (-%d))" % (a, k), 'ECall "mod" [%s; EUn UNeg (EScalar %d%%Z)]' % (ac, k)
                return "mod(%s, %d)" % (a, k), 'ECall "mod" [%s; EScalar %d%%Z]' % (ac, k)
            if c < 0.63:
                a, ac = self.expr(S, d - 1, scope, nostr)
                k = r.randrange(1, 10)
                self.features["div"] += 1
                return ("((%s * %d) / %d)" % (a, k, k),
                        "EBin BDiv (EBin BMul (%s) (EScalar %d%%Z)) (EScalar %d%%Z)" % (ac, k, k))
            if c < 0.65:
                a, ac = self.expr(S, 0, scope, nostr)
                self.features["pow"] += 1
                return "(%s^2)" % a, "EBin BPow (%s) (EScalar 2%%Z)" % ac
            if c < 0.70:
                n = r.randrange(0, 5)
                self.features["fact"] += 1
                if r.random() < 0.3:
                    n = r.randrange(0, 8)
                    return "(%d!!)" % n, "EUn (UFact 2) (EScalar %d%%Z)" % n
                return "(%d!)" % n, "EUn (UFact 1) (EScalar %d%%Z)" % n
            if c < 0.80 and "len" in self.foreign:
                et = r.choice([S, B])
                l, lc, _ = self.list_expr(et, d - 1, scope, nostr)
                self.features["len"] += 1
                return "len(%s)" % l, 'ECall "len" [%s]' % lc
            if c < 0.86 and "str_length" in self.foreign and not nostr:
                s, sc = self.expr(T, d - 1, scope)
                return "str_length(%s)" % s, 'ECall "str_length" [%s]' % sc
            n = r.randrange(0, 10)
            return str(n), "EScalar %d%%Z" % n
        if k == "B":
            if leaf:
                b = r.random() < 0.5
                return ("true" if b else "false"), "EBool %s" % ("true" if b else "false")
            c = r.random()
            if c < 0.40:
                op, cop = r.choice([("<", "BLt"), (">", "BGt"), ("<=", "BLe"), (">=", "BGe"), ("==", "BEq"), ("!=", "BNe")])
                a, ac = self.expr(S, d - 1, scope, nostr)
                b, bc = self.expr(S, d - 1, scope, nostr)
                self.features["cmp"] += 1
                return "(%s %s %s)" % (a, op, b), "EBin %s (%s) (%s)" % (cop, ac, bc)
            if c < 0.70:
                op, cop = r.choice([("&&", "BAnd"), ("||", "BOr")])
                a, ac = self.expr(B, d - 1, scope, nostr)
                b, bc = self.expr(B, d - 1, scope, nostr)
                self.features["logic"] += 1
                return "(%s %s %s)" % (a, op, b), "EBin %s (%s) (%s)" % (cop, ac, bc)
            if c < 0.82:
                a, ac = self.expr(B, d - 1, scope, nostr)
                return "(!%s)" % a, "EUn UNot (%s)" % ac
            if c < 0.87:
                op, cop = r.choice([("==", "BEq"), ("!=", "BNe")])
                et = r.choice([S, S, B])
                a, ac, _ = self.list_expr(et, d - 1, scope, nostr)
                b, bc, _ = self.list_expr(et, d - 1, scope, nostr)
                self.features["listeq"] += 1
                return "(%s %s %s)" % (a, op, b), "EBin %s (%s) (%s)" % (cop, ac, bc)
            if c < 0.90 and not nostr and self.structs:
                op, cop = r.choice([("==", "BEq"), ("!=", "BNe")])
                st = tstruct(r.choice(sorted(self.structs)))
                a, ac = self.expr(st, d - 1, scope)
                b, bc = self.expr(st, d - 1, scope)
                self.features["structeq"] += 1
                return "(%s %s %s)" % (a, op, b), "EBin %s (%s) (%s)" % (cop, ac, bc)
            if c < 0.93 and not nostr:
                op, cop = r.choice([("==", "BEq"), ("!=", "BNe")])
                a, ac = self.expr(T, d - 1, scope)
                b, bc = self.expr(T, d - 1, scope)
                self.features["streq"] += 1
                return "(%s %s %s)" % (a, op, b), "EBin %s (%s) (%s)" % (cop, ac, bc)
            b = r.random() < 0.5
            return ("true" if b else "false"), "EBool %s" % ("true" if b else "false")
        if k == "T":
            if nostr:
                raise RuntimeError("string inside interpolation")
            if not leaf and r.random() < 0.12:
                fs = [f for f in ("uppercase", "lowercase", "str_slice") if f in self.foreign]
                if fs:
                    f = r.choice(fs)
                    a, ac = self.expr(T, d - 1, scope)
                    self.features["strfn"] += 1
                    if f == "str_slice":
                        i0, i1 = r.randrange(0, 4), r.randrange(0, 6)
                        return ("str_slice(%d, %d, %s)" % (i0, i1, a),
                                'ECall "str_slice" [EScalar %d%%Z; EScalar %d%%Z; %s]' % (i0, i1, ac))
                    return "%s(%s)" % (f, a), "ECall %s [%s]" % (cstr(f), ac)
            nparts = 1 if leaf else r.randrange(1, 5)
            src, parts = "", []
            last_fixed = False
            for _ in range(nparts):
                if leaf or r.random() < 0.45 or d <= 0:
                    if last_fixed:
                        continue
                    s = self.lit_string()
                    if not s:
                        continue
                    src += s
                    parts.append("inl %s" % cstr(s))
                    last_fixed = True
                else:
                    # no braces inside an interpolation: struct values only through variables
                    svars = [n for n, ty in scope.items() if ty[0] == "R" and not self.struct_has_str(ty[1])]
                    if svars and r.random() < 0.3:
                        x = r.choice(svars)
                        e, ec = x, "EIdent %s" % cstr(x)
                    else:
                        it = r.choice([S, S, B, tlist(S)])
                        e, ec = self.expr(it, d - 1, scope, nostr=True)
                    src += "{%s}" % e
                    parts.append("inr (%s, None)" % ec)
                    last_fixed = False
                    self.features["interp"] += 1
            self.features["string"] += 1
            if not parts:
                parts = ['inl ""']       # the parser yields one empty Fixed part for ""
            return '"%s"' % src, "EString %s" % clist(parts)
        if k == "L":
            l, lc, _ = self.list_expr(t[1], d, scope, nostr)
            return l, lc
        if k == "R":
            if nostr:
                raise LookupError("no struct literal inside an interpolation")
            fields = self.structs[t[1]]
            order = list(fields)
            r.shuffle(order)
            es = [(f, self.expr(ft, d - 1, scope, nostr)) for f, ft in order]
            decl = clist(cstr(f) for f, _ in fields)
            self.features["struct"] += 1
            if [f for f, _ in order] != [f for f, _ in fields]:
                self.features["struct_reordered"] += 1
            return ("%s {%s}" % (t[1], ", ".join("%s: %s" % (f, e) for f, (e, _) in es)),
                    "EStruct %s %s %s" % (cstr(t[1]), decl, clist("(%s, %s)" % (cstr(f), c) for f, (_, c) in es)))
        if k == "F":
            cands = self.fn_candidates(scope, t[1], t[2])
            if cands:
                f = r.choice(cands)
                self.features["fnvalue"] += 1
                if f in self.FOREIGN:
                    self.features["foreign_fnvalue"] += 1
                return f, "EIdent %s" % cstr(f)
            raise LookupError("no function of type")
        raise RuntimeError(t)

    def var_lo(self, name, scope):
        if self.in_function or name not in self.globals or scope.get(name) != self.globals.get(name):
            return 0
        return self.glob_lo.get(name, 0)

    def list_expr(self, et, d, scope, nostr=False, minlo=0, allow_empty=False):
        """a list expression over element type et with at least minlo elements.
        returns (src, coq, lo) with lo a guaranteed lower bound of its length"""
        r = self.rng
        t = tlist(et)
        self.cost += 1
        F = self.foreign
        vs = [n for n in self.scope_vars(scope, t) if self.var_lo(n, scope) >= minlo]
        leaf = d <= 0 or r.random() < 0.15
        ch = ["lit", "lit"]
        if vs:
            ch += ["var"] * 3
        if not leaf:
            if "cons" in F:
                ch += ["cons"] * 3
            if "cons_end" in F:
                ch += ["cons_end"] * 2
            if "tail" in F:
                ch += ["tail"] * 3
            if "tail" in F and "cons" in F:
                ch += ["chain"] * 3
            ch += ["cond"]
            if minlo == 0:
                ch += ["call"] * 2
        k = r.choice(ch)
        if k == "var":
            x = r.choice(vs)
            self.features["var"] += 1
            return x, "EIdent %s" % cstr(x), self.var_lo(x, scope)
        if k in ("cons", "cons_end"):
            e, ec = self.expr(et, d - 1, scope, nostr)
            l, lc, lo = self.list_expr(et, d - 1, scope, nostr, max(0, minlo - 1), allow_empty=True)
            self.features[k] += 1
            return "%s(%s, %s)" % (k, e, l), "ECall %s [%s; %s]" % (cstr(k), ec, lc), lo + 1
        if k == "tail":
            l, lc, lo = self.list_expr(et, d - 1, scope, nostr, minlo + 1)
            self.features["tail"] += 1
            return "tail(%s)" % l, 'ECall "tail" [%s]' % lc, lo - 1
        if k == "chain":
            # tail^k of an UNSHARED temporary (literal), then cons / cons_end j times
            n = r.randrange(1, 6)
            kt = r.randrange(1, n + 1)
            j = max(r.randrange(0, kt + 3), minlo - (n - kt))
            es = [self.expr(et, 0, scope, nostr) for _ in range(n)]
            src, coq = "[%s]" % ", ".join(e for e, _ in es), "EList %s" % clist(c for _, c in es)
            for _ in range(kt):
                src, coq = "tail(%s)" % src, 'ECall "tail" [%s]' % coq
            for _ in range(j):
                f = r.choice(["cons", "cons", "cons_end"]) if "cons_end" in F else "cons"
                e, ec = self.expr(et, 0, scope, nostr)
                src, coq = "%s(%s, %s)" % (f, e, src), "ECall %s [%s; %s]" % (cstr(f), ec, coq)
            self.features["tail_cons_chain"] += 1
            return src, coq, n - kt + j
        if k == "cond":
            cs, cc = self.expr(B, d - 1, scope, nostr)
            a, ac, la = self.list_expr(et, d - 1, scope, nostr, minlo)
            b, bc, lb = self.list_expr(et, d - 1, scope, nostr, minlo)
            self.features["cond"] += 1
            return "(if %s then %s else %s)" % (cs, a, b), "ECond (%s) (%s) (%s)" % (cc, ac, bc), min(la, lb)
        if k == "call":
            res = self.call(t, d, scope, nostr)
            if res:
                return res[0], res[1], 0
        n = max(minlo, r.randrange(0 if allow_empty else 1, 4))
        es = [self.expr(et, d - 1, scope, nostr) for _ in range(n)]
        self.features["list"] += 1
        return "[%s]" % ", ".join(e for e, _ in es), "EList %s" % clist(c for _, c in es), n

    def has_str(self, t):
        if t[0] == "T":
            return True
        if t[0] == "L":
            return self.has_str(t[1])
        if t[0] == "R":
            return self.struct_has_str(t[1])
        return False

    def struct_has_str(self, name):
        return any(self.has_str(ft) for _, ft in self.structs[name])

    def field(self, t, d, scope, nostr):
        cands = [(sn, f) for sn, fs in self.structs.items() for f, ft in fs if ft == t and not nostr]
        if not cands:
            return None
        sn, f = self.rng.choice(cands)
        e, ec = self.expr(tstruct(sn), d - 1, scope, nostr)
        decl = clist(cstr(x) for x, _ in self.structs[sn])
        self.features["field"] += 1
        if e[0] not in "(" and not re.match(r"^[a-z]\w*$", e):
            e = "(%s)" % e
        return "%s.%s" % (e, f), "EField (%s) %s %s" % (ec, cstr(f), decl)

    def call(self, t, d, scope, nostr):
        r = self.rng
        # named functions returning t (not shadowed by a variable)
        named = [(n, a) for n, (a, rt, rec) in self.fns.items() if rt == t and n not in scope
                 and not (nostr and any(self.has_str(x) for x in a))]
        fnvars = [(n, ty) for n, ty in scope.items() if ty[0] == "F" and ty[2] == t
                  and not (nostr and any(self.has_str(x) for x in ty[1]))]
        opts = []
        if named:
            opts += ["named"] * 3
        if fnvars:
            opts += ["var"] * 3
        if not opts:
            return None
        kind = r.choice(opts)
        try:
            if kind == "named":
                n, argt = r.choice(named)
                rec = self.fns[n][2]
                self.cost += (self.fn_cost.get(n) or 1)
                args = []
                for i, at in enumerate(argt):
                    if rec and i == 0:
                        v = r.randrange(0, 5)
                        args.append((str(v), "EScalar %d%%Z" % v))
                    else:
                        args.append(self.expr(at, d - 1, scope, nostr))
                self.features["call"] += 1
                if len(args) == 1 and r.random() < 0.25:
                    self.features["revapp"] += 1
                    return ("(%s |> %s)" % (args[0][0], n), "ECall %s [%s]" % (cstr(n), args[0][1]))
                if r.random() < 0.15:
                    # through a conditional callee
                    others = self.fn_candidates(scope, argt, t)
                    if others and not rec:
                        o = r.choice(others)
                        cs, cc = self.expr(B, d - 2, scope, nostr)
                        self.features["cond_callee"] += 1
                        return ("(if %s then %s else %s)(%s)" % (cs, n, o, ", ".join(a for a, _ in args)),
                                "ECallable (ECond (%s) (EIdent %s) (EIdent %s)) %s" % (
                                    cc, cstr(n), cstr(o), clist(c for _, c in args)))
                return ("%s(%s)" % (n, ", ".join(a for a, _ in args)),
                        "ECall %s %s" % (cstr(n), clist(c for _, c in args)))
            n, ty = r.choice(fnvars)
            self.cost += max([c for c in self.fn_cost.values() if c] + [1])
            args = [self.expr(at, d - 1, scope, nostr) for at in ty[1]]
            self.features["callable"] += 1
            return ("%s(%s)" % (n, ", ".join(a for a, _ in args)),
                    "ECallable (EIdent %s) %s" % (cstr(n), clist(c for _, c in args)))
        except LookupError:
            return None

    # ----------------------------------------------------------- statements
    def simple_type(self, allow_fn=True, allow_struct=True, depth=1):
        r = self.rng
        c = r.random()
        if c < 0.40:
            return S
        if c < 0.52:
            return B
        if c < 0.62:
            return T
        if c < 0.74 and depth > 0:
            return tlist(self.simple_type(False, allow_struct, depth - 1))
        if c < 0.86 and allow_struct and self.structs:
            return tstruct(r.choice(sorted(self.structs)))
        fv = self.foreign_values()
        if allow_fn and fv and r.random() < 0.5:
            a, rt = fv[r.choice(sorted(fv))]
            return tfn(a, rt)
        if allow_fn and self.fns:
            n = r.choice(sorted(self.fns))
            a, rt, rec = self.fns[n]
            if not rec and n not in self.globals:
                return tfn(a, rt)
        return S

    def stmt_struct(self):
        r = self.rng
        free = [n for n in ["P", "R", "V"] if n not in self.structs]
        if not free:
            return False
        name = free[0]
        nf = r.randrange(1, 4)
        fs = r.sample(self.FIELDS, nf)
        nested = [tstruct(n) for n in sorted(self.structs)]
        fields = [(f, r.choice([S, S, B, T, tlist(S)] + nested)) for f in fs]
        if any(ft[0] == "R" for _, ft in fields):
            self.features["nested_struct"] += 1
        self.structs[name] = fields
        self.src.append("struct %s { %s }" % (name, ", ".join("%s: %s" % (f, type_src(t)) for f, t in fields)))
        self.coq.append("SStruct %s %s" % (cstr(name), clist(cstr(f) for f, _ in fields)))
        return True

    def stmt_foreign(self, name):
        if name in self.foreign:
            return
        self.foreign.add(name)
        self.src.append(self.FOREIGN[name][0])
        self.coq.append("SForeign %s" % cstr(name))

    def top_scope(self):
        sc = dict(self.globals)
        if self.ans_type is not None:
            sc["ans"] = self.ans_type      # GetLastResult; only used at top level
        return sc

    def stmt_let(self):
        r = self.rng
        t = self.simple_type()
        x = r.choice(self.VARS)
        if x in self.globals:
            self.features["shadow_global"] += 1
        self.cost = 0
        lo = 0
        try:
            if t[0] == "L":
                e, ec, lo = self.list_expr(t[1], r.randrange(1, 4), self.top_scope())
            else:
                e, ec = self.expr(t, r.randrange(1, 4), self.top_scope())
        except LookupError:
            return False
        if self.cost > self.STMT_LIMIT:
            return False
        self.glob_lo[x] = lo
        self.src.append("let %s = %s" % (x, e))
        self.coq.append("SLet %s (%s)" % (cstr(x), ec))
        self.globals[x] = t
        return True

    def stmt_expr(self):
        r = self.rng
        t = self.simple_type(allow_fn=False)
        self.cost = 0
        if self.ans_type is not None and r.random() < 0.25:
            t = self.ans_type
        try:
            e, ec = self.expr(t, r.randrange(1, 5), self.top_scope())
        except LookupError:
            return False
        if self.cost > self.STMT_LIMIT:
            return False
        if '"ans"' in ec:
            self.features["ans"] += 1
        self.src.append(e)
        self.coq.append("SExpr (%s)" % ec)
        self.ans_type = t
        return True

    def stmt_print(self):
        r = self.rng
        t = self.simple_type(allow_fn=False)
        self.cost = 0
        e, ec = self.expr(t, r.randrange(1, 4), dict(self.globals))
        if self.cost > self.STMT_LIMIT // 2:
            return False
        c = r.random()
        # (no Scalar-typed expressions: a zero literal makes the inferred type polymorphic, `forall A: Dim. A`)
        tname = {B: "Bool", T: "String", tlist(B): "List<Bool>"}.get(t)
        if tname and r.random() < 0.25:
            # type(e): the expression is NOT evaluated, the inferred type is printed (PrintString)
            self.src.append("type(%s)" % e)
            self.coq.append("SType %s" % cstr("= " + tname))
            self.features["type_proc"] += 1
            return True
        if c < 0.7:
            self.src.append("print(%s)" % e)
            self.coq.append('SProc "print" [%s]' % ec)
            self.features["print"] += 1
        elif c < 0.85 and t in (S, B, T):
            self.src.append("assert_eq(%s, %s)" % (e, e))
            self.coq.append('SProc "assert_eq" [%s; %s]' % (ec, ec))
            self.features["assert_eq"] += 1
        else:
            b, bc = self.expr(B, 2, dict(self.globals))
            self.src.append("assert((%s || (!%s)))" % (b, b))
            self.coq.append('SProc "assert" [EBin BOr (%s) (EUn UNot (%s))]' % (bc, bc))
            self.features["assert"] += 1
        return True

    def stmt_fn(self):
        r = self.rng
        name = r.choice(self.FNS)
        if name in self.globals:
            return False
        redefine = name in self.fns
        nparams = r.randrange(0, 4)
        pnames = []
        pool = self.VARS + [n for n in self.FNS if n != name]
        for _ in range(nparams):
            pnames.append(r.choice(pool))           # duplicates allowed: later parameter wins
        ptypes = [self.simple_type(depth=1) for _ in pnames]
        ret = self.simple_type(allow_fn=False)
        recursive = r.random() < 0.3
        selfref = False
        if recursive:
            pnames = ["n"] + [p for p in pnames if p != "n"]
            ptypes = [S] + ptypes[:len(pnames) - 1]
        if redefine and r.random() < 0.6:
            # keep the signature so that existing references stay well-typed
            a, rt, _ = self.fns[name]
            if len(a) <= 3:
                ptypes = list(a)
                pnames = (["n", "x", "y", "z"])[:len(a)] if (recursive and a and a[0] == S) else [r.choice(self.VARS) for _ in a]
                if not (recursive and a and a[0] == S):
                    recursive = False
                ret = rt
        scope = dict(self.globals)
        for p, t in zip(pnames, ptypes):
            scope[p] = t
        # inside its own definition the name denotes the NEW function: only the explicit,
        # bounded recursive call below may use it
        old = self.fns.pop(name, None)
        old_cost = self.fn_cost.pop(name, None)
        self.cost = 0
        nrec = 0
        self.in_function = True
        # where-locals
        wl = []
        if r.random() < 0.45:
            for _ in range(r.randrange(1, 3)):
                lt = self.simple_type(allow_fn=False)
                x = r.choice(self.VARS)
                if recursive and x == "n":
                    continue
                try:
                    e, ec = self.expr(lt, r.randrange(1, 3), dict(scope))
                except LookupError:
                    continue
                wl.append((x, e, ec))
                scope[x] = lt
                self.features["where_local"] += 1
        try:
            if recursive:
                # body = if n < 1 then base else step(name(n - 1, ...))
                base, basec = self.expr(ret, 2, dict(scope))
                rec_args = [("(n - 1)", 'EBin BSub (EIdent "n") (EScalar 1%Z)')]
                for t in ptypes[1:]:
                    rec_args.append(self.expr(t, 1, dict(scope)))
                if (r.random() < 0.35 and len(ptypes) == 1 and ret == S
                        and any(a == [tfn([S], S), S] or tuple(a) == (tfn([S], S), S) for a, rt, _ in self.fns.values())):
                    # pass the function itself on as a value (needs the `fix:` commit)
                    ap = [n for n, (a, rt, _) in self.fns.items() if tuple(a) == (tfn([S], S), S) and rt == S and n not in scope and n != name]
                    if ap:
                        selfref = True
                        reccall = "%s(%s, (n - 1))" % (ap[0], name)
                        reccallc = 'ECall %s [EIdent %s; EBin BSub (EIdent "n") (EScalar 1%%Z)]' % (cstr(ap[0]), cstr(name))
                        self.features["selfref_value"] += 1
                if not selfref:
                    reccall = "%s(%s)" % (name, ", ".join(a for a, _ in rec_args))
                    reccallc = "ECall %s %s" % (cstr(name), clist(c for _, c in rec_args))
                if ret == S:
                    o, oc = self.expr(S, 1, dict(scope))
                    step, stepc = "(%s + %s)" % (reccall, o), "EBin BAdd (%s) (%s)" % (reccallc, oc)
                    nrec = 1
                    if r.random() < 0.2:
                        step, stepc = "(%s + %s)" % (step, reccall), "EBin BAdd (%s) (%s)" % (stepc, reccallc)
                        nrec = 2
                elif ret[0] == "L" and "cons" in self.foreign:
                    o, oc = self.expr(ret[1], 1, dict(scope))
                    step, stepc = "cons(%s, %s)" % (o, reccall), 'ECall "cons" [%s; %s]' % (oc, reccallc)
                else:
                    step, stepc = reccall, reccallc
                body = "if (n < 1) then %s else %s" % (base, step)
                bodyc = 'ECond (EBin BLt (EIdent "n") (EScalar 1%%Z)) (%s) (%s)' % (basec, stepc)
                self.features["recursive_fn"] += 1
            else:
                body, bodyc = self.expr(ret, r.randrange(1, 4), dict(scope))
        except LookupError:
            self.in_function = False
            if old is not None:
                self.fns[name] = old
                if old_cost is not None:
                    self.fn_cost[name] = old_cost
            return False
        self.in_function = False
        # one call: the body once per activation; literal depths are at most 4
        acts = 1 if not recursive else (31 if nrec == 2 else 5)
        if selfref:
            acts *= 2
        cost = (self.cost + 5) * acts
        if cost > self.FN_LIMIT:
            if old is not None:
                self.fns[name] = old
                if old_cost is not None:
                    self.fn_cost[name] = old_cost
            return False
        self.fn_cost[name] = cost
        self.fns[name] = (ptypes, ret, recursive)
        if redefine:
            self.features["fn_redefined"] += 1
        src = "fn %s(%s) -> %s = %s" % (name, ", ".join("%s: %s" % (p, type_src(t)) for p, t in zip(pnames, ptypes)),
                                         type_src(ret), body)
        if wl:
            src += " where " + " and ".join("%s = %s" % (x, e) for x, e, _ in wl)
        self.src.append(src)
        self.coq.append("SFn %s %s %s (%s)" % (cstr(name), clist(cstr(p) for p in pnames),
                                               clist("(%s, %s)" % (cstr(x), c) for x, _, c in wl), bodyc))
        self.features["fn"] += 1
        return True

    def program(self):
        r = self.rng
        for f in self.FOREIGN:
            if r.random() < 0.7:
                self.stmt_foreign(f)
        n = r.randrange(3, 11)
        if self.profile == "listlib":
            for f in ("head", "tail", "cons", "cons_end", "len", "mod"):
                self.stmt_foreign(f)
            LS = tlist(S)
            for name, src, coq in self.LISTLIB:
                self.src.append(src)
                self.coq.append(coq)
            self.fns["is_empty"] = ([LS], B, False)
            self.fns["concat"] = ([LS, LS], LS, False)
            self.fns["reverse"] = ([LS], LS, False)
            self.fns["map"] = ([tfn([S], S), LS], LS, False)
            self.fns["map2"] = ([tfn([S, S], S), S, LS], LS, False)
            self.fns["foldl"] = ([tfn([S, S], S), S, LS], S, False)
            self.fn_cost.update({"is_empty": 5, "concat": 200, "reverse": 200, "map": 250, "map2": 250, "foldl": 250})
            self.features["listlib"] += 1
        if self.profile == "fnheavy":
            # an `apply`-style function early so that function values get used
            self.src.append("fn w(g: Fn[(Scalar) -> Scalar], x: Scalar) -> Scalar = g(x)")
            self.coq.append('SFn "w" ["g"; "x"] [] (ECallable (EIdent "g") [EIdent "x"])')
            self.fns["w"] = ([tfn([S], S), S], S, False)
        for _ in range(n):
            c = r.random()
            ok = False
            if c < 0.12:
                ok = self.stmt_struct()
            elif c < 0.40:
                ok = self.stmt_let()
            elif c < 0.68 or (self.profile == "fnheavy" and c < 0.78):
                ok = self.stmt_fn()
            elif c < 0.88:
                ok = self.stmt_expr()
            else:
                ok = self.stmt_print()
        self.stmt_expr()
        return self.src, self.coq


def funref_pattern(rng):
    """the confirmed defect class: a function value taken before a redefinition"""
    k = rng.randrange(1, 9)
    m = rng.randrange(2, 9)
    v = rng.randrange(0, 6)
    src = ["dimension Scalar = 1",
           "fn f(x: Scalar) -> Scalar = (x + %d)" % k,
           "let g = f",
           "fn f(x: Scalar) -> Scalar = (x * %d)" % (m * 10),
           "g(%d)" % v]
    coq = ['SFn "f" ["x"] [] (EBin BAdd (EIdent "x") (EScalar %d%%Z))' % k,
           'SLet "g" (EIdent "f")',
           'SFn "f" ["x"] [] (EBin BMul (EIdent "x") (EScalar %d%%Z))' % (m * 10),
           'SExpr (ECallable (EIdent "g") [EScalar %d%%Z])' % v]
    return src, coq


def make_session(rng, src, coq):
    """split a program into several inputs (one `interpret` call each, same Context) and,
    half of the time, insert an input that fails at run time and must be rolled back"""
    pairs = list(zip(src[1:], coq))
    k = min(len(pairs), rng.randrange(2, 5))
    if k < 2:
        return None
    cuts = sorted(rng.sample(range(1, len(pairs)), k - 1))
    groups = [pairs[a:b] for a, b in zip([0] + cuts, cuts + [len(pairs)])]
    z = "EScalar 0%Z"
    if rng.random() < 0.5:
        bad = rng.choice([
            [("(1 / 0)", "SExpr (EBin BDiv (EScalar 1%%Z) (%s))" % z)],
            [("let bad = (1 / 0)", 'SLet "bad" (EBin BDiv (EScalar 1%%Z) (%s))' % z)],
            [("assert((1 > 2))", 'SProc "assert" [EBin BGt (EScalar 1%Z) (EScalar 2%Z)]')],
            [("fn bad2(x: Scalar) -> Scalar = (x / 0)", 'SFn "bad2" ["x"] [] (EBin BDiv (EIdent "x") (%s))' % z),
             ("let bad3 = 5", 'SLet "bad3" (EScalar 5%Z)'),
             ("bad2(bad3)", 'SExpr (ECall "bad2" [EIdent "bad3"])')],
        ])
        groups.insert(rng.randrange(1, len(groups) + 1), bad)
    s_in = [[a for a, _ in g] for g in groups]
    c_in = [[b for _, b in g] for g in groups]
    s_in[0] = [src[0]] + s_in[0]
    return s_in, c_in


def error_cases(rng):
    """programs that end in a runtime error: the error kind must agree three ways"""
    k = rng.randrange(1, 9)
    D = "dimension Scalar = 1"
    z = "EScalar 0%Z"
    def sc(n):
        return "EScalar %d%%Z" % n
    div0 = "EBin BDiv (%s) (%s)" % (sc(k), z)
    cases = [
        ([D, "(%d / 0)" % k], ["SExpr (%s)" % div0]),
        ([D, "fn g(x: Scalar) -> Scalar = (x / 0)", "(g(%d) + 1)" % k],
         ['SFn "g" ["x"] [] (EBin BDiv (EIdent "x") (%s))' % z,
          'SExpr (EBin BAdd (ECall "g" [%s]) (EScalar 1%%Z))' % sc(k)]),
        ([D, "assert((%d > %d))" % (k, k + 1)], ['SProc "assert" [EBin BGt (%s) (%s)]' % (sc(k), sc(k + 1))]),
        ([D, "assert_eq(%d, %d)" % (k, k + 1)], ['SProc "assert_eq" [%s; %s]' % (sc(k), sc(k + 1))]),
        ([D, Gen.FOREIGN["head"][0], Gen.FOREIGN["tail"][0], "head(tail([%d]))" % k],
         ['SForeign "head"', 'SForeign "tail"', 'SExpr (ECall "head" [ECall "tail" [EList [%s]]])' % sc(k)]),
        ([D, "let a = %d" % k, "print(a)", "(a / 0)"],
         ['SLet "a" (%s)' % sc(k), 'SProc "print" [EIdent "a"]', 'SExpr (EBin BDiv (EIdent "a") (%s))' % z]),
        ([D, "fn g(x: Scalar) -> Scalar = y where y = (x / 0)", "g(%d)" % k],
         ['SFn "g" ["x"] [("y", EBin BDiv (EIdent "x") (%s))] (EIdent "y")' % z, 'SExpr (ECall "g" [%s])' % sc(k)]),
        ([D, "(if (%d < 1) then 1 else (1 / 0))" % k],
         ['SExpr (ECond (EBin BLt (%s) (EScalar 1%%Z)) (EScalar 1%%Z) (EBin BDiv (EScalar 1%%Z) (%s)))' % (sc(k), z)]),
        ([D, '"a{(%d / 0)}b"' % k], ['SExpr (EString [inl "a"; inr (%s, None); inl "b"])' % div0]),
        ([D, "[1, (%d / 0), 3]" % k], ['SExpr (EList [EScalar 1%%Z; %s; EScalar 3%%Z])' % div0]),
        ([D, "fn w(g: Fn[(Scalar) -> Scalar], x: Scalar) -> Scalar = g(x)", "fn h(x: Scalar) -> Scalar = (x / 0)", "w(h, %d)" % k],
         ['SFn "w" ["g"; "x"] [] (ECallable (EIdent "g") [EIdent "x"])',
          'SFn "h" ["x"] [] (EBin BDiv (EIdent "x") (%s))' % z, 'SExpr (ECall "w" [EIdent "h"; %s])' % sc(k)]),
    ]
    return cases


def unit_cases(rng):
    """programs with dimension / base unit definitions, quantities with units, type(…).
    All displayed results are dimensionless, so the integer instance of the model (unit = 1) is
    a faithful model of the magnitudes (base units only: no conversion factors)."""
    D = "dimension Scalar = 1"
    def sc(n):
        return "EScalar %d%%Z" % n
    def q(n, u):
        return "(%d %s)" % (n, u), "EBin BMul (%s) (EUnit %s)" % (sc(n), cstr(u))
    out = []
    for _ in range(6):
        k1, k2, k3, k4 = (rng.randrange(1, 9) for _ in range(4))
        a, ac = q(k1, "m")
        b, bc = q(k2, "s")
        c3, c3c = q(k3, "m")
        head = [("dimension L", "SDim"), ("dimension T", "SDim"),
                ("unit m: L", 'SUnitBase "m"'), ("unit s: T", 'SUnitBase "s"'),
                ("let a = %s" % a, 'SLet "a" (%s)' % ac), ("let b = %s" % b, 'SLet "b" (%s)' % bc)]
        pool = [
            ("type(a)", 'SType "= L"'),
            ("type(((a * a) / b))", 'SType "= L² / T"'),
            ("type([a, a])", 'SType "= List<L>"'),
            ("fn sq(x: L) -> L^2 = (x * x)", 'SFn "sq" ["x"] [] (EBin BMul (EIdent "x") (EIdent "x"))'),
            ("(sq(a) / (m * m))", 'SExpr (EBin BDiv (ECall "sq" [EIdent "a"]) (EBin BMul (EUnit "m") (EUnit "m")))'),
            ("(((a + %s) / m) * (b / s))" % c3,
             'SExpr (EBin BMul (EBin BDiv (EBin BAdd (EIdent "a") (%s)) (EUnit "m")) (EBin BDiv (EIdent "b") (EUnit "s")))' % c3c),
            ("let a = (a * %d)" % k4, 'SLet "a" (EBin BMul (EIdent "a") (%s))' % sc(k4)),
            ("((a / m) - 1)", 'SExpr (EBin BSub (EBin BDiv (EIdent "a") (EUnit "m")) (EScalar 1%Z))'),
            ("fn g(x: L) -> L = (y + x) where y = (x * 2)",
             'SFn "g" ["x"] [("y", EBin BMul (EIdent "x") (EScalar 2%Z))] (EBin BAdd (EIdent "y") (EIdent "x"))'),
            ("(g(a) / m)", 'SExpr (EBin BDiv (ECall "g" [EIdent "a"]) (EUnit "m"))'),
            ("(if (a < %s) then 1 else 0)" % c3, 'SExpr (ECond (EBin BLt (EIdent "a") (%s)) (EScalar 1%%Z) (EScalar 0%%Z))' % c3c),
            ("(a == a)", 'SExpr (EBin BEq (EIdent "a") (EIdent "a"))'),
            ("print((b / s))", 'SProc "print" [EBin BDiv (EIdent "b") (EUnit "s")]'),
            ("unit ft: L", 'SUnitBase "ft"'),
        ]
        body, have = [], set()
        for st in pool:
            if rng.random() < 0.75:
                src = st[0]
                if ("sq(" in src and "fn sq" not in src and "sq" not in have) or \
                   ("g(a)" in src and "g" not in have) or \
                   ("ans" in src and not any(b0[1].startswith("SExpr") for b0 in body)):
                    continue
                if src.startswith("fn sq"):
                    have.add("sq")
                if src.startswith("fn g"):
                    have.add("g")
                body.append(st)
        body.append(("((a / m) + (b / s))", 'SExpr (EBin BAdd (EBin BDiv (EIdent "a") (EUnit "m")) (EBin BDiv (EIdent "b") (EUnit "s")))'))
        body.append(("(ans + 1)", 'SExpr (EBin BAdd (EIdent "ans") (EScalar 1%Z))'))
        stmts = head + body
        src = [D] + [x for x, _ in stmts]
        coq = [y for _, y in stmts]
        if rng.random() < 0.5:
            sess = make_session(rng, src, coq)
            if sess:
                out.append(sess)
                continue
        out.append((src, coq))
    return out


def oversize_cases():
    """conditionals with a branch larger than 65535 bytes (3 bytes per list element):
    run on the implementation only, expected value known by construction"""
    out = []
    for n in (21000, 22000):
        lst = "[" + ",".join(["1"] * n) + "]"
        pre = ["dimension Scalar = 1", Gen.FOREIGN["len"][0]]
        big = 3 * n + 3 + 10 > 65532      # end of the conditional beyond the 16 bit limit
        out.append((pre + ["if true then len(%s) else 7" % lst], "E:CodeTooLarge" if big else "V:%d" % n, n))
        out.append((pre + ["if false then len(%s) else 7" % lst], "E:CodeTooLarge" if big else "V:7", n))
    return out


FUEL_MACH_HANG = 1500      # the implementation did not terminate: only "out of fuel" matters


def coq_case(coq_stmts, mfuel=None):
    if coq_stmts and isinstance(coq_stmts[0], list):      # a session: list of inputs
        return "show_session %d (N.to_nat %d) %s" % (FUEL_REF, mfuel or FUEL_MACH, clist(clist(i) for i in coq_stmts))
    return "show_case %d (N.to_nat %d) %s" % (FUEL_REF, mfuel or FUEL_MACH, clist(coq_stmts))


def case_line(src):
    """harness input line: a program (list of statements) or a session (list of such lists)"""
    if src and isinstance(src[0], list):
        return " ;;; ".join(" ;; ".join(i) for i in src)
    return " ;; ".join(src)


def safe_mismatches(imports, items, tag, base=0, timeout=420):
    """common.coq_mismatches, but a shard that does not finish is bisected; a single case
    that does not finish is reported as @@MODEL-TIMEOUT instead of aborting the check"""
    try:
        return common.coq_mismatches(imports, items, tag, shard_size=max(20, min(120, len(items) // common.NPROC + 1)),
                                     timeout=timeout, prelude="Open Scope string_scope.")
    except (common.Broken, subprocess.TimeoutExpired) as e:
        for f in os.listdir(common.WORK):
            if f.startswith("Cases_%s_" % tag):
                try:
                    os.remove(os.path.join(common.WORK, f))
                except OSError:
                    pass
        timed_out = "timed out" in str(e) or isinstance(e, subprocess.TimeoutExpired)
        if len(items) == 1:
            return {0: "@@MODEL-TIMEOUT" if timed_out else "@@MODEL-ERROR " + str(e)[-300:].replace("\n", " ")}
        h = len(items) // 2
        a = safe_mismatches(imports, items[:h], tag + "a", timeout=timeout)
        b = safe_mismatches(imports, items[h:], tag + "b", timeout=timeout)
        out = dict(a)
        out.update({k + h: v for k, v in b.items()})
        return out


# -------------------------------------------------------------- harness I/O
def run_vm_harness(binary, lines, chunk_timeout=60):
    """like common.run_harness, but a hanging case (non-terminating program) is
    isolated and reported as @@TIMEOUT instead of raising."""
    if not lines:
        return []
    shards = min(common.NPROC, max(1, len(lines) // 100))
    chunks = [lines[i::shards] for i in range(shards)]

    def run(chunk, to):
        try:
            p = subprocess.run([binary, "vm"], input="\n".join(chunk) + "\n", stdout=subprocess.PIPE,
                               stderr=subprocess.PIPE, text=True, errors="replace", timeout=to, env=common.ENV)
        except subprocess.TimeoutExpired:
            return None
        out = p.stdout.split("\n")
        if out and out[-1] == "":
            out.pop()
        if p.returncode != 0 or len(out) != len(chunk):
            return None
        return out

    def one(chunk):
        out = run(chunk, chunk_timeout)
        if out is not None:
            return out
        res = []
        for c in chunk:
            o = run([c], 5) or run([c], 30)     # a slow case under load is not a hang: retry once, generously
            res.append(o[0] if o else "R:@@TIMEOUT-OR-CRASH ## O: ## D:")
        return res

    with cf.ThreadPoolExecutor(max_workers=shards) as ex:
        res = list(ex.map(one, chunks))
    out = [None] * len(lines)
    for s, chunk_out in enumerate(res):
        for k, o in enumerate(chunk_out):
            out[s + k * shards] = o
    return out


def split_impl(line):
    m = re.match(r"^R:(.*?) ## O:(.*?) ## D:(.*)$", line, re.S)
    if not m:
        return line, "", ""
    return m.group(1), m.group(2), m.group(3)


def impl_obs(line):
    """the observation string in the model's format"""
    r, o, d = split_impl(line)
    return "R:%s ## O:%s" % (r, o), d


BIG = re.compile(r"\d{15,}")


def parse_obs(x):
    m = re.match(r"^R:(.*?) ## O:(.*)$", x, re.S)
    if not m:
        return [x], ""
    return m.group(1).split(" ;; "), m.group(2)


def classify(impl_line, model_str):
    """-> (kind, detail).  kinds: ok, overflow, generator, fuel, model-timeout, model-compile, model-machine, impl-vs-ref"""
    io, idump = impl_obs(impl_line)
    if model_str == "@@MODEL-TIMEOUT":
        return "model-timeout", "the model evaluation of this case did not finish"
    if model_str.startswith("@@MODEL-ERROR"):
        return "model-machine", "the model could not be evaluated on this case: " + model_str[13:]
    parts = model_str.split(" || ")
    if len(parts) != 3:
        return "model-machine", "unparsable model output"
    m, s, d = parts
    head_part = impl_line.split(" ## D:")[0]
    if BIG.search(model_str) or BIG.search(impl_line) or "e+" in head_part or "NaN" in head_part or "inf" in head_part \
            or "unmodelled-nan" in s:
        return "overflow", ""      # outside exact integer arithmetic (also mod(x, 0) = NaN)
    iR, iO = parse_obs(io)
    mR, mO = parse_obs(m)
    sR, sO = parse_obs(s)
    if any(x.startswith("T:") for x in iR):
        return "generator", io          # rejected by the type checker: the generator is wrong, not numbat
    crashed = iR == ["P"] or any(x.startswith("@@") for x in iR)
    if "E:CodeTooLarge" in iR or "E:CodeTooLarge" in mR:
        # explicit resource limit of the compiler (16 bit jump offsets): model and implementation must agree
        return ("ok", "") if mR == iR else ("model-compile", "CodeTooLarge: implementation %s, model %s" % (iR, mR))
    if "F" in mR and not crashed:
        return "fuel", "model machine out of fuel"
    any_err = any(x.startswith("E:") for x in iR)
    ok_m = (mR == iR) and (any_err or mO == iO)
    ok_s = (len(sR) == len(iR) and all(a == b or (a.startswith("E:") and b.startswith("E:")) for a, b in zip(sR, iR))
            and (any_err or sO == iO))
    ok_d = (d == idump)
    if ok_m and ok_s and ok_d:
        return "ok", ""
    if crashed:
        return "impl-vs-ref", "implementation %s (panic/hang), source semantics %s" % (io[:200], s[:200])
    if not ok_s and "F" not in sR:
        return "impl-vs-ref", "implementation %s, source semantics %s" % (io[:300], s[:300])
    if not ok_d:
        return "model-compile", "bytecode differs"
    return "model-machine", "implementation %s, model machine %s" % (io[:300], m[:300])


def evaluate(binary, cases, tag):
    """cases: list of (src_lines, coq_stmts). returns list of (impl_line, model_str or None, kind, detail)"""
    lines = [case_line(s) for s, _ in cases]
    impl = run_vm_harness(binary, lines)
    items = []
    for n, (s, c) in enumerate(cases):
        io, idump = impl_obs(impl[n])
        hang = "@@" in io.split(" ## O:")[0]
        items.append((coq_case(c, FUEL_MACH_HANG if hang else None), "%s || %s || %s" % (io, io, idump)))
    bad = safe_mismatches(["VM.Value", "VM.Ast", "VM.Bytecode", "VM.Compile", "VM.Machine", "VM.RefSem", "VM.Exec"],
                          items, tag)
    out = []
    for n in range(len(cases)):
        if n in bad:
            kind, detail = classify(impl[n], bad[n])
            out.append((impl[n], bad[n], kind, detail))
        else:
            out.append((impl[n], None, "ok", ""))
    return out


def shrink(binary, src, coq, want_kind, budget_s=75):
    """delete statements (source line i+1 <-> coq stmt i) while the same kind of failure remains.
    All deletion candidates of a round are evaluated in ONE batch (one coqc run); bounded by wall time."""
    import time
    t0 = time.time()
    pairs = list(zip(src[1:], coq))
    n = 2
    while len(pairs) >= 2 and time.time() - t0 < budget_s:
        chunk = max(1, len(pairs) // n)
        cands = []
        for i in range(0, len(pairs), chunk):
            c = pairs[:i] + pairs[i + chunk:]
            if c:
                cands.append(c)
        try:
            res = evaluate(binary, [([src[0]] + [a for a, _ in c], [b for _, b in c]) for c in cands], "c09shrink")
        except common.Broken:
            break
        hit = [c for c, r in zip(cands, res) if r[2] == want_kind]
        if hit:
            pairs = min(hit, key=len)
            n = max(n - 1, 2)
        elif chunk == 1:
            break
        else:
            n = min(len(pairs), n * 2)
    return [src[0]] + [a for a, _ in pairs], [b for _, b in pairs]


def load_corpus():
    p = os.path.join(common.VERIF, "corpus", "c09.json")
    return json.load(open(p)) if os.path.exists(p) else []


def known_match(src, kind):
    """open findings are matched narrowly: the failure class the faithful model predicts
    (a stale function value is called: checked reference = Stale, model machine = implementation)"""
    if kind != "known-funref":
        return None
    for k in common.load_known():
        if k.get("property") == "C09" and k.get("status") == "open" and k.get("matcher", {}).get("class") == "stale-function-value-called":
            return k
    return None


def run(chk):
    binary, _ = common.build_harness()
    proved = chk.prove("Props.C09", THEOREMS, ["theories/Props/C09.vo", "theories/VM/Exec.vo"], allowed=ALLOWED_AXIOMS)
    # cross-area composition with the dimension checker model (Props/C01C09.v, VM/DimInstance.v)
    failure = getattr(chk, "proof_failure", None)
    proved2 = chk.prove("Props.C01C09", COMPOSITION_THEOREMS, ["theories/Props/C01C09.vo"], allowed=ALLOWED_AXIOMS)
    if not proved2 or failure:
        chk.proof_failure = failure or getattr(chk, "proof_failure", "?")
    proved = proved and proved2
    chk.trusted += [
        "models VM/Compile.v (bytecode_interpreter.rs) and VM/Machine.v (vm.rs) are hand ports, validated on every run "
        "against the real compiler's bytecode (hook numbat::verif::vm::disassembly) and the real results",
        "VM/RefSem.v is the statement of the source semantics (independent evaluator: association-list scopes, static binding)",
        "quantity arithmetic / comparison / formatting / foreign functions / procedures are parameters of the theorems; "
        "the correspondence instantiates them with exact integers (f64 exact below 2^53)",
    ]
    quick = chk.tier == "quick"
    cases, kinds = [], []
    for c in load_corpus():
        cases.append((c["src"], c["coq"]))
        kinds.append("corpus")
    nrand = 850 if quick else 10000
    feats = collections.Counter()
    gen_fail = 0
    for n in range(nrand):
        if n % 25 == 0:
            cases.append(funref_pattern(chk.rng))
            kinds.append("funref-pattern")
            continue
        g = Gen(chk.rng, "fnheavy" if n % 3 == 0 else ("listlib" if n % 3 == 1 else "plain"))
        try:
            s, c = g.program()
        except (LookupError, RuntimeError, IndexError):
            gen_fail += 1
            continue
        feats.update(g.features)
        if n % 4 == 2:
            sess = make_session(chk.rng, s, c)
            if sess:
                cases.append(sess)
                kinds.append("session")
                feats["session"] += 1
                feats["session_with_failing_input"] += int(len(sess[1]) and any("bad" in str(i) or "(1 / 0)" in str(i) or "(1 > 2)" in str(i) for i in sess[0][1:]))
                continue
        cases.append((s, c))
        kinds.append("generated")

    for c in error_cases(chk.rng) + error_cases(chk.rng):
        cases.append(c)
        kinds.append("error-stream")
    for c in unit_cases(chk.rng):
        cases.append(c)
        kinds.append("unit-stream")
    results = []
    B = 4000
    for i in range(0, len(cases), B):
        results += evaluate(binary, cases[i:i + B], "c09_%d" % i)

    tally = collections.Counter(r[2] for r in results)
    outcome_hist = collections.Counter()
    shapes = set()
    nontrivial = 0
    ops_hist = collections.Counter()
    for (impl_line, model, kind, detail), (s, c) in zip(results, cases):
        r, o, d = split_impl(impl_line)
        outcome_hist[r.split(":")[0] if ":" in r else r] += 1
        ops = re.findall(r"[ ,:]([A-Z][A-Za-z]+)", d.split(" G:")[0])
        opset = frozenset(ops)
        for x in opset:
            ops_hist[x] += 1
        interesting = opset & {"Call", "CallCallable", "JumpIfFalse", "BuildStructInstance", "BuildList", "JoinString",
                               "GetUpvalue", "AccessStructField", "FFICallFunction"}
        if kind in ("ok", "known-funref") and len(interesting) >= 2:
            h = common.shape_hash(re.sub(r"\d+", "#", d))
            if h not in shapes:
                shapes.add(h)
                nontrivial += 1

    found = 0
    reported_known = set()
    model_broken = []
    order = sorted(range(len(cases)), key=lambda i: (len(cases[i][1]), sum(len(x) for x in cases[i][1])))
    for n in order:
        (impl_line, model, kind, detail), (s, c) = results[n], cases[n]
        if kind == "known-funref":
            k = known_match(s, kind)
            if k:
                if k["id"] not in reported_known:
                    reported_known.add(k["id"])
                    chk.known(k["id"], "%s: %s  [%s]" % (k["id"], detail, " ; ".join(s[1:])))
                else:
                    chk.known_hits.append(k["id"])
                continue
            kind = "impl-vs-ref"
        if kind == "impl-vs-ref" and found < 2:
            is_session = bool(c) and isinstance(c[0], list)
            ss, cc = shrink(binary, s, c, "impl-vs-ref") if (len(c) > 1 and not is_session) else (s, c)
            rr = evaluate(binary, [(ss, cc)], "c09rep")[0]
            chk.violation({
                "kind": "the implementation's result differs from the source semantics (reference evaluator)",
                "program": ss if is_session else ss[1:], "preamble": None if is_session else ss[0], "coq": cc,
                "session": is_session,
                "implementation": split_impl(rr[0])[0], "implementation_output": split_impl(rr[0])[1],
                "model": rr[1], "detail": rr[3] or detail, "original_case_kind": kinds[n],
                "replay": "echo '%s' | harness/target/debug/nbverif vm" % case_line(ss).replace("'", "'\\''"),
            })
            found += 1
        elif kind in ("model-compile", "model-machine"):
            model_broken.append(n)
        elif kind == "generator":
            pass
    # u16 wrap of jump offsets: implementation only
    over = oversize_cases()
    over_impl = run_vm_harness(binary, [" ;; ".join(src) for src, _, _ in over], chunk_timeout=120)
    over_bad = 0
    for (src, expected, n), line in zip(over, over_impl):
        got = split_impl(line)[0]
        if got == expected:
            continue
        over_bad += 1
        fk = None
        if 3 * n + 3 > 65535:      # the then-branch does not fit a u16 jump operand
            for k in common.load_known():
                if k.get("property") == "C09" and k.get("status") == "open" and \
                        k.get("matcher", {}).get("class") == "conditional-branch-over-65535-bytes":
                    fk = k
        desc = "%s with a %d-element list literal: implementation %s, expected %s" % (
            src[-1][:14] + "…", n, got, expected)
        if fk:
            if fk["id"] not in reported_known:
                reported_known.add(fk["id"])
                chk.known(fk["id"], "%s: %s" % (fk["id"], desc))
            else:
                chk.known_hits.append(fk["id"])
        elif found < 3:
            chk.violation({"kind": "conditional gives a wrong result", "detail": desc,
                           "program_shape": src[-1][:40] + "...", "list_elements": n,
                           "implementation": got, "expected": expected})
            found += 1
    if not found and (model_broken or not proved):
        n = model_broken[0] if model_broken else None
        first = None
        if n is not None:
            if cases[n][1] and isinstance(cases[n][1][0], list):
                ss, cc = cases[n]
            else:
                ss, cc = shrink(binary, cases[n][0], cases[n][1], results[n][2])
            rr = evaluate(binary, [(ss, cc)], "c09rep")[0]
            first = {"program": ss, "coq": cc, "implementation": rr[0], "model": rr[1], "kind": rr[2], "detail": rr[3]}
        chk.violation({
            "kind": "proof or correspondence no longer checks",
            "theorem_or_correspondence": ("correspondence VM/Compile.v+VM/Machine.v vs bytecode_interpreter.rs+vm.rs (%d cases: %s)"
                                          % (len(model_broken), dict(collections.Counter(results[i][2] for i in model_broken)))
                                          if model_broken else "Props/C09.v: " + getattr(chk, "proof_failure", "?")),
            "oracle": "reference evaluator vs implementation agreed on all %d generated programs" % len(cases),
            "first_case": first,
        }, found_input=False)

    gen_rejected = tally.get("generator", 0)
    if tally.get("model-timeout"):
        chk.notes.append("%d case(s) skipped: model evaluation did not finish in time" % tally["model-timeout"])
    chk.cov.update({
        "evaluations": len(cases),
        "distinct_nontrivial": nontrivial,
        "rule": "corpus + seeded typed program generator (lets with shadowing, functions with parameters/where-locals, "
                "recursion with a literal depth bound, function values, conditional callees, |>, structs with shuffled field "
                "order, lists, strings with interpolation, print/assert) + the funref redefinition pattern; non-trivial = "
                "accepted by numbat, agreeing three ways, and its bytecode uses >= 2 of {Call, CallCallable, JumpIfFalse, "
                "BuildStructInstance, AccessStructField, BuildList, JoinString, GetUpvalue, FFICallFunction}; distinct = "
                "distinct bytecode shape (operands erased)",
        "classification": dict(tally),
        "implementation_outcomes": dict(outcome_hist),
        "generator_rejected_by_typechecker": gen_rejected,
        "generator_gave_up": gen_fail,
        "feature_histogram": dict(feats),
        "opcode_coverage_cases": dict(ops_hist),
        "model_mismatches": len(model_broken),
        "oversize_branch_cases": len(over), "oversize_branch_deviations": over_bad,
        "opcodes_of_the_fragment_never_generated": sorted(set(FRAGMENT_OPCODES) - set(ops_hist)),
        "exhaustive": False,
        "samples": [{"program": cases[i][0], "implementation": results[i][0][:300]}
                    for i in (0, len(cases) // 2, len(cases) - 1)],
    })
    chk.assumptions += ["dimensionless integer scalars below 2^53 (cases with larger numbers are discarded and counted as 'overflow')",
                        "single `interpret` call per program (all statements compiled, then run)"]
    if gen_rejected > len(cases) // 5:
        chk.notes.append("generator quality: %d of %d programs rejected by the type checker" % (gen_rejected, len(cases)))


def replay(path):
    r = json.load(open(path))
    if "program" not in r:
        print(json.dumps(r, indent=1))
        return 0
    binary, _ = common.build_harness()
    src = r["program"] if r.get("session") else [r.get("preamble", "dimension Scalar = 1")] + r["program"]
    res = evaluate(binary, [(src, r["coq"])], "c09replay")[0]
    print("implementation:", res[0][:500])
    print("model         :", res[1])
    print("classification:", res[2], res[3])
    return 1 if res[2] not in ("ok", "overflow") else 0
