"""C17 — standard-library modules compose in any order.

proof:  coq/theories/Props/C17.v — general theorems about the depth-first de-duplicated
        inlining pass over ANY module table (C17_once, C17_reimport_noop, C17_closure,
        C17_order_free, C17_env_order_free, C17_imports_succeed) + table lemmas over the
        generated standard-library graph (C17_table_wf, C17_table_clash_free, C17_table_keys,
        C17_stdlib_succeeds).
tie:    translator numbat/modules/**/*.nbt -> Gen/ModuleGraph.v (use lists in order, defined
        names), validated against the implementation (defined names after `use m` = names the
        translator extracted for the modules the implementation reports as imported);
        correspondence: imported_modules (exact order) predicted by the model vs implementation
        for every single module, sampled ordered pairs, random subsets.
oracle: the property itself on the implementation: every import succeeds, re-import changes
        nothing, and order-insensitive digests (names, signatures, unit representations, values
        and types of all variables) agree between both orders of a pair / two orders of a subset.
"""
import collections
import itertools
import json
import os
import re

import common
from props import sesslib as S

MANIFEST = dict(
    category="proof",
    text="Machine-checked proof (Coq) about the model of Resolver::inlining_pass (depth-first, de-duplicated by "
         "imported_modules) over ANY module table, cyclic or not: imported_modules never contains a module twice and "
         "every newly imported module contributes its statements exactly once (C17_once), re-importing is a no-op "
         "(C17_reimport_noop), after a successful import the imported set is exactly the old set plus the modules "
         "reachable from the `use`s (C17_closure), two import orders of the same module set import the same modules and "
         "inline the same statements up to order (C17_order_free), hence — when no name is defined twice — define the "
         "same map name -> defining statement (C17_env_order_free), and on a well-formed finite table every import "
         "succeeds (C17_imports_succeed). Table lemmas by vm_compute over the module graph regenerated from "
         "numbat/modules on every run: every `use` names an existing module, no name is defined twice "
         "(C17_table_wf / C17_table_clash_free / C17_table_keys), so all of the above holds for the real "
         "standard-library graph (C17_stdlib_succeeds, C17_stdlib_order_free). Closedness of the real graph is a table "
         "lemma too: in every module every identifier a definition uses (free identifiers extracted by the translator; "
         "prefixed unit spellings resolved to their unit) is defined earlier in the module or by a module that an "
         "earlier `use` imports transitively, the closure being computed by the resolver model itself "
         "(C17_table_closed, soundness of the checker proved: closedb_sound), and the graph is acyclic "
         "(C17_table_acyclic); general theorem C17_defs_available: on a closed table every statement inlined by any "
         "successful import finds everything it needs in the session (output + earlier imports), in any order; "
         "C17_stdlib_defs_available instantiates it to the real graph; and C17_scoped_in_order: on a closed AND "
         "acyclic table every inlined statement is well-scoped in what comes BEFORE it (earlier output + earlier "
         "imports), for every order (stack invariant of the depth-first pass; acyclicity checker proved sound), with "
         "the instance C17_stdlib_scoped_in_order. NOT proved: that the translator's free-identifier extraction is "
         "what numbat's name resolution and type checker look up, and that a definition means the same in both orders (type checking and evaluation are outside the model) — checked on "
         "the implementation for all single modules, sampled (thorough: all) pairs and random subsets by comparing "
         "names, signatures, unit representations, types, and the raw values of all globals as f64 bit patterns.",
    design_ref="DESIGN.md §6 C17, design/session.md",
    note="Trusted: Coq kernel + vm_compute; hand model Session/Resolver.v; the regex translator of the .nbt files "
         "(validated against the implementation's name tables on every run); its free-identifier extraction "
         "(over-approximates what is bound: parameters, type parameters, where-locals, field names) is not validated "
         "beyond closedness holding; raw global values are read through the hook numbat::verif::qty::raw_global.",
    technique="Coq proof (induction over fuel and program; reachability closure) + generated module graph with "
              "vm_compute table lemmas + correspondence and metamorphic oracle on real Contexts",
)

THEOREMS = ["C17_once", "C17_reimport_noop", "C17_closure", "C17_order_free", "C17_env_order_free",
            "C17_imports_succeed", "C17_table_wf", "C17_table_clash_free", "C17_table_keys",
            "C17_table_closed", "C17_table_acyclic", "C17_stdlib_succeeds", "C17_stdlib_order_free",
            "C17_defs_available", "C17_stdlib_defs_available", "C17_scoped_in_order", "C17_stdlib_scoped_in_order"]


# ------------------------------------------------------------ translator
def strip_comment(line):
    out, instr = [], False
    for ch in line:
        if ch == '"':
            instr = not instr
        if ch == "#" and not instr:
            break
        out.append(ch)
    return "".join(out)


def parse_module(text):
    """ordered items of a module: ('u', module) | ('d', [names]); names carry a namespace prefix
    v: (let / fn / unit, with @aliases) or t: (dimension / struct)"""
    items, aliases = [], []
    for raw in text.split("\n"):
        line = strip_comment(raw).rstrip()
        if not line.strip() or line[0] in " \t":
            continue
        m = re.match(r"@aliases\((.*)\)\s*$", line)
        if m:
            for a in m.group(1).split(","):
                a = a.strip().split(":")[0].strip()
                if a:
                    aliases.append(a)
            continue
        if line.startswith("@"):
            continue
        m = re.match(r"use\s+([A-Za-z_][\w:]*)\s*$", line)
        if m:
            items.append(("u", m.group(1)))
            aliases = []
            continue
        m = re.match(r"(let|fn|unit|dimension|struct)\s+([^\s:=<(\[{]+)", line)
        if m:
            kind, name = m.groups()
            ns = "t:" if kind in ("dimension", "struct") else "v:"
            names = []
            for x in [name] + aliases:
                if ns + x not in names:
                    names.append(ns + x)
            items.append(("d", names))
        aliases = []
    return items


# ---- free identifiers of a definition (phase 2: closedness of the module graph)
KEYWORDS = {"per","to","let","fn","where","and","dimension","unit","use","struct","long","short","both","none","if","then","else",
            "true","false","NaN","inf","print","assert","assert_eq","type","Bool","String","DateTime","Fn","List","Dim","_","ans"}
PREFIXES = ["quecto","ronto","yocto","zepto","atto","femto","pico","nano","micro","milli","centi","deci","deca","hecto","kilo","mega",
            "giga","tera","peta","exa","zetta","yotta","ronna","quetta","kibi","mebi","gibi","tebi","pebi","exbi","zebi","yobi","robi","quebi",
            "q","r","y","z","a","f","p","n","µ","μ","u","m","c","d","da","h","k","M","G","T","P","E","Z","Y","R","Q",
            "Ki","Mi","Gi","Ti","Pi","Ei","Zi","Yi","Ri","Qi"]
DELIMS = set(" \t\r\n+-*/^=<>!&|()[]{},;→×·÷−⋅➞≤≥≠⁻⁰¹²³⁴⁵⁶⁷⁸⁹@?")

def strip_strings(line, interp):
    """remove string literals, collecting {interpolations}"""
    out=[]; i=0
    while i < len(line):
        ch=line[i]
        if ch=='"':
            j=i+1; depth=0; cur=[]
            while j < len(line) and not (line[j]=='"' and depth==0):
                if line[j]=='\\': j+=2; continue
                if line[j]=='{': depth+=1; cur=[] if depth==1 else cur
                elif line[j]=='}':
                    depth-=1
                    if depth==0:
                        e="".join(cur); e=e.split(":")[0] if re.search(r":[^:]*$", e) and not "::" in e else e
                        interp.append(e)
                elif depth>0: cur.append(line[j])
                j+=1
            out.append(' "" '); i=j+1
        else:
            out.append(ch); i+=1
    return "".join(out)

def words(text):
    """(word, prev_char, next_char) for identifier-like chunks"""
    res=[]; i=0; n=len(text)
    while i<n:
        if text[i] in DELIMS or text[i] in '":.':
            i+=1; continue
        j=i
        while j<n and text[j] not in DELIMS and text[j] not in '":.':
            j+=1
        w=text[i:j]
        prev=text[i-1] if i>0 else " "
        # next non-space char
        k=j
        while k<n and text[k]==" ": k+=1
        nxt=text[k] if k<n else " "
        nxt2=text[k:k+2]
        res.append((w,prev,nxt,nxt2))
        i=j
    return res

def strip_decorators(text):
    """remove @decorator(...) blocks (balanced parentheses, strings respected) and bare @decorators"""
    out=[]; i=0; n=len(text); bol=True
    while i<n:
        ch=text[i]
        if bol and ch=="@":
            j=i+1
            while j<n and (text[j].isalnum() or text[j]=="_"): j+=1
            if j<n and text[j]=="(":
                depth=0; instr=False
                while j<n:
                    c=text[j]
                    if instr:
                        if c=="\\": j+=1
                        elif c=='"': instr=False
                    else:
                        if c=='"': instr=True
                        elif c=="(": depth+=1
                        elif c==")":
                            depth-=1
                            if depth==0: j+=1; break
                    j+=1
            i=j; continue
        out.append(ch)
        bol = (ch=="\n") or (bol and ch in " \t")
        i+=1
    return "".join(out)

def statements(text):
    """group lines into statements: a statement starts at a non-indented, non-empty line; decorators attach to next"""
    stmts=[]; cur=[]
    text=strip_decorators(text)
    for raw in text.split("\n"):
        line=strip_comment(raw).rstrip()
        if not line.strip(): continue
        if (line[0] in " \t)]}") and cur: cur.append(line); continue
        if cur and (cur[-1].startswith("@") and len(cur)==sum(1 for l in cur if l.startswith("@"))):
            cur.append(line); continue       # decorators then the statement line
        if cur: stmts.append(cur)
        cur=[line]
    if cur: stmts.append(cur)
    return stmts

def free_names(stmt_lines):
    lines=[l for l in stmt_lines if not l.lstrip().startswith("@")]
    text="\n".join(lines)
    interp=[]
    text=strip_strings(text, interp)
    text=text+" "+" ".join(interp)
    m=re.match(r"\s*(let|fn|unit|dimension|struct|use)\b", text)
    kind=m.group(1) if m else "expr"
    if kind=="use": return kind, set()
    bound=set()
    if kind=="fn":
        # type parameters <A: Dim, B> and parameters (p: T, q)
        mm=re.match(r"\s*fn\s+([^\s:=<(\[{]+)\s*(<[^>]*>)?\s*\(", text)
        if mm and mm.group(2):
            for tp in mm.group(2)[1:-1].split(","):
                bound.add(tp.split(":")[0].strip())
        if mm:
            # parameter list up to the matching parenthesis
            i=mm.end(); depth=1; cur=[]; params=[]
            while i<len(text) and depth:
                c=text[i]
                if c in "([{": depth+=1
                elif c in ")]}":
                    depth-=1
                    if depth==0: break
                if c=="," and depth==1: params.append("".join(cur)); cur=[]
                else: cur.append(c)
                i+=1
            params.append("".join(cur))
            for prm in params:
                nm=prm.split(":")[0].strip()
                if nm: bound.add(nm)
        # where-clause locals:  where x = ...   and y = ...
        for wm in re.finditer(r"\b(?:where|and)\s+([^\s:=]+)\s*(?::[^=]*)?=", text):
            bound.add(wm.group(1))
    if kind=="struct":
        mm=re.match(r"\s*struct\s+([^\s:=<(\[{]+)\s*(<[^>]*>)?", text)
        if mm and mm.group(2):
            for tp in mm.group(2)[1:-1].split(","):
                bound.add(tp.split(":")[0].strip())
    res=set()
    ws=words(text)
    for idx,(w,prev,nxt,nxt2) in enumerate(ws):
        if w[0].isdigit(): continue
        if re.match(r"^[0-9]", w): continue
        if w in KEYWORDS: continue
        if prev=="." : continue                      # field access
        if nxt==":" and nxt2!="::":
            # `name:` is a parameter / field / annotated variable name, not a use
            if kind in("fn",) or True:
                if kind=="fn": bound.add(w)
                continue
        res.add(w)
    # the defined name itself
    dm=re.match(r"\s*(?:let|fn|unit|dimension|struct)\s+([^\s:=<(\[{]+)", text)
    own=dm.group(1) if dm else None
    res.discard(own)
    res-=bound
    # module paths a::b in expressions do not occur
    return kind, res



def parse_module_full(text):
    """like parse_module, plus for every definition the identifiers its text uses that are not bound by it
    (parameters, type parameters, where-locals, field names, keywords, the defined name itself)"""
    items = []
    for st in statements_with_decorators(text):
        deco = [l for l in st if l.lstrip().startswith("@")]
        aliases = []
        for l in deco:
            m = re.match(r"@aliases\((.*)\)\s*$", l.strip())
            if m:
                for a in m.group(1).split(","):
                    a = a.strip().split(":")[0].strip()
                    if a:
                        aliases.append(a)
        body = [l for l in st if not l.lstrip().startswith("@")]
        if not body:
            continue
        kind, fr = free_names(body)
        head = body[0]
        if kind == "use":
            m = re.match(r"use\s+([A-Za-z_][\w:]*)\s*$", head)
            if m:
                items.append(("u", m.group(1)))
            continue
        m = re.match(r"(let|fn|unit|dimension|struct)\s+([^\s:=<(\[{]+)", head)
        names = []
        if m:
            ns = "t:" if m.group(1) in ("dimension", "struct") else "v:"
            for x in [m.group(2)] + aliases:
                if ns + x not in names:
                    names.append(ns + x)
        items.append(("d", names, sorted(fr)))
    return items


def statements_with_decorators(text):
    """statement groups of a module: single-line decorators stay with their statement; multi-line decorator
    arguments (descriptions) are removed first"""
    kept = []
    for raw in text.split("\n"):
        kept.append(raw)
    text2 = "\n".join(kept)
    # remove decorators other than @aliases (they may span lines), keep @aliases lines
    out, i, n, bol = [], 0, len(text2), True
    while i < n:
        ch = text2[i]
        if bol and ch == "@" and not text2.startswith("@aliases", i):
            j = i + 1
            while j < n and (text2[j].isalnum() or text2[j] == "_"):
                j += 1
            if j < n and text2[j] == "(":
                depth, instr = 0, False
                while j < n:
                    c = text2[j]
                    if instr:
                        if c == "\\":
                            j += 1
                        elif c == '"':
                            instr = False
                    else:
                        if c == '"':
                            instr = True
                        elif c == "(":
                            depth += 1
                        elif c == ")":
                            depth -= 1
                            if depth == 0:
                                j += 1
                                break
                    j += 1
            i = j
            continue
        out.append(ch)
        bol = (ch == "\n") or (bol and ch in " \t")
        i += 1
    stmts, cur = [], []
    for raw in "".join(out).split("\n"):
        line = strip_comment(raw).rstrip()
        if not line.strip():
            continue
        if (line[0] in " \t)]}") and cur:
            cur.append(line)
            continue
        if cur and all(l.startswith("@") for l in cur):
            cur.append(line)
            continue
        if cur:
            stmts.append(cur)
        cur = [line]
    if cur:
        stmts.append(cur)
    return stmts


def module_graph_full(repo=None, binary=None):
    """module -> ordered items ('u', module) | ('d', [names], [free identifiers]).
    With `binary` (the harness) the items come from the REAL parser: hook numbat::verif::session::module_items
    applied to the text the BuiltinModuleImporter serves — exact binding structure (parameters, where-locals,
    type parameters, struct fields), free identifiers tagged v: (expression position) / t: (type position).
    Without it, the textual approximation of phase 2 (kept as a cross-check of names and uses)."""
    root = os.path.join(repo or common.REPO, "numbat", "modules")
    g = {}
    mods = S.stdlib_modules(repo)
    if binary is None:
        for m in mods:
            g[m] = parse_module_full(open(os.path.join(root, *m.split("::")) + ".nbt", encoding="utf-8").read())
        return g
    outs = S.run_sessions(binary, [[("G", m)] for m in mods])
    for m, o in zip(mods, outs):
        txt = o[0] if o else "MISSING"
        if txt in ("ERR", "PANIC", "NOMODULE", "MISSING") or txt.startswith("@@"):
            raise common.Broken("module graph hook: module %s: %s" % (m, txt[:100]))
        items = []
        for line in txt.split("\n"):
            if line.startswith("u:"):
                items.append(("u", line[2:]))
            elif line.startswith("d:"):
                names, _, free = line[2:].partition("~")
                items.append(("d", [x for x in names.split(",") if x], [x for x in free.split(",") if x]))
        g[m] = items
    return g


def module_graph(repo=None, full=None):
    """module -> ordered items ('u', module) | ('d', [names])  (definitions that introduce names only)"""
    full = full or module_graph_full(repo)
    root = os.path.join(repo or common.REPO, "numbat", "modules")
    g = {}
    for m, items in full.items():
        g[m] = [(i[0], i[1]) for i in items if i[0] == "u" or i[1]]
        # self-check of the translator: the line-based parser of phase 1 must see the same uses and names
        simple = parse_module(open(os.path.join(root, *m.split("::")) + ".nbt", encoding="utf-8").read())
        if simple != g[m]:
            raise common.Broken("module graph translator: the two parsers disagree on module %s" % m)
    return g


def unit_alias_names(repo=None):
    """all names introduced by `unit` statements (with aliases): the names a prefix can be attached to"""
    root = os.path.join(repo or common.REPO, "numbat", "modules")
    names = set()
    for m in S.stdlib_modules(repo):
        al = []
        for raw in open(os.path.join(root, *m.split("::")) + ".nbt", encoding="utf-8").read().split("\n"):
            line = strip_comment(raw).rstrip()
            mm = re.match(r"@aliases\((.*)\)\s*$", line)
            if mm:
                al = [a.strip().split(":")[0].strip() for a in mm.group(1).split(",") if a.strip()]
                continue
            if line.startswith("@"):
                continue
            mm = re.match(r"unit\s+([^\s:=<(\[{]+)", line)
            if mm:
                names.add(mm.group(1))
                names.update(al)
            if line.strip() and line[0] not in " \t":
                al = []
    return names


def resolution_alternatives(full, repo=None):
    """identifier -> the namespaced names that would satisfy it: itself as value or type name, or the unit it
    is a prefixed spelling of.  Unknown identifiers get the unsatisfiable alternative ?:<identifier>."""
    allv, allt = set(), set()
    for items in full.values():
        for it in items:
            if it[0] == "d":
                for x in it[1]:
                    (allv if x.startswith("v:") else allt).add(x[2:])
    units = unit_alias_names(repo)

    def alts(w):
        a = []
        ns = None
        if w[:2] in ("v:", "t:"):            # exact free identifiers from the parser hook carry their namespace
            ns, w = w[0], w[2:]
        if w in allv and ns in (None, "v"):
            a.append("v:" + w)
        if w in allt and ns in (None, "t"):
            a.append("t:" + w)
        if ns in (None, "v"):
            for p in PREFIXES:
                if w.startswith(p) and w[len(p):] in units and "v:" + w[len(p):] not in a:
                    a.append("v:" + w[len(p):])
        return a or ["?:" + w]
    return alts


def write_graph(g, full=None, repo=None):
    full = full or module_graph_full(repo)
    alts = resolution_alternatives(full, repo)
    lines = []
    for m in sorted(full):
        its = []
        for it in full[m]:
            if it[0] == "u":
                its.append("u:" + it[1])
            else:
                fr = ",".join("|".join(alts(w)) for w in it[2])
                its.append("d:" + ",".join(it[1]) + "~" + fr)
        lines.append(m + "|" + ";".join(its))
    src = "\n".join(lines)
    for ch in '"':
        assert ch not in src
    text = ("(* GENERATED by tools/props/c17.py from numbat/modules/**/*.nbt: per module, in source order,\n"
            "   its `use`s (u:<module>) and its definitions (d:<names>~<free identifiers>): the names a definition\n"
            "   introduces (v: value / t: type namespace) and, for every identifier its text uses without binding\n"
            "   it, the alternatives (separated by |) that would satisfy it. *)\n"
            "From Coq Require Import String List.\nFrom NV Require Import Session.ImportExec.\nImport ListNotations.\n"
            "Open Scope string_scope.\n"
            "(* one string per module (a single literal of this size overflows coqc's stack) *)\n"
            "Definition module_graph_lines : list string := [\n%s\n].\n"
            "Definition stdlib : mtable := Eval vm_compute in parse_graph_lines module_graph_lines.\n"
            % ";\n".join('"%s"' % l for l in lines))
    path = os.path.join(common.COQ, "theories", "Gen", "ModuleGraph.v")
    os.makedirs(os.path.dirname(path), exist_ok=True)
    if not os.path.exists(path) or open(path, encoding="utf-8").read() != text:
        open(path, "w", encoding="utf-8").write(text)
        for ext in (".vo", ".vos", ".vok", ".glob"):      # never trust a same-second timestamp
            try:
                os.remove(path[:-2] + ext)
            except OSError:
                pass


def closure_order(g, seq):
    """python re-implementation of the depth-first de-duplicated pass (only used to explain
    disagreements; the comparison itself is against the Coq model)"""
    imp = []

    def go(m):
        if m in imp or m not in g:
            return
        imp.append(m)
        for k, v in g[m]:
            if k == "u":
                go(v)
    for m in seq:
        go(m)
    return imp


# ------------------------------------------------------------ cases
def seq_fields(seq, batched=False, repeat=None):
    """fresh context; import the modules of seq (one input each, or one input for all);
    names + order-insensitive digest at the end; `repeat`: module imported a second time at the end"""
    f = []
    if batched:
        f.append(("I", "\n".join("use " + m for m in seq)))
    else:
        for m in seq:
            f.append(("I", "use " + m))
    f.append(("n", ""))
    f.append(("s", ""))
    if repeat:
        f.append(("I", "use " + repeat))
        f.append(("n", ""))
        f.append(("s", ""))
    return f


def parse_names(item):
    d = {}
    for part in item.split(";"):
        k, _, v = part.partition("=")
        d[k] = v[1:-1].split(",") if v.startswith("[") and v != "[]" else []
    return d


def translator_names(g, imp):
    vs, ts = set(), set()
    for m in imp:
        for k, v in g.get(m, []):
            if k == "d":
                for x in v:
                    (vs if x.startswith("v:") else ts).add(x[2:])
    return vs, ts


def run(chk):
    binary, _ = common.build_harness()
    full = module_graph_full(binary=binary)          # exact binding structure from the real parser
    g = module_graph(full=full)                      # + self-check against the line-based parser (names, uses)
    write_graph(g, full)
    approx = module_graph_full()                     # the textual extraction of phase 2, for comparison only
    n_exact = sum(len(i[2]) for its in full.values() for i in its if i[0] == "d")
    n_approx = sum(len(i[2]) for its in approx.values() for i in its if i[0] == "d")
    chk.notes.append("free identifiers: %d from the parser hook (exact), %d from the textual approximation" % (n_exact, n_approx))
    proved = chk.prove("Props.C17", THEOREMS, ["theories/Props/C17.vo"])
    if not proved:
        chk.notes.append("proof side: " + str(getattr(chk, "proof_failure", "?"))[:1500])
    chk.trusted += [
        "model Session/Resolver.v: hand port of numbat/src/resolver.rs (inlining_pass, imported_modules)",
        "translator tools/props/c17.py:parse_module (line regex over %d .nbt files) -> Gen/ModuleGraph.v; its name "
        "extraction is compared with the implementation's name tables on every run" % len(g),
        "values of all globals are compared as f64 bit patterns + unit (hook numbat::verif::qty::raw_global), and as "
        "printed by print(); types as printed by type()",
    ]
    chk.assumptions += [
        "BuiltinModuleImporter serves exactly the files under numbat/modules (rust-embed of that folder)",
        "units::currencies is evaluated with the built-in test exchange rates (no network)",
    ]
    quick = chk.tier == "quick"
    mods = sorted(g)
    rng = chk.rng

    cases = []          # (kind, seq, fields)
    for c in (json.load(open(os.path.join(common.VERIF, "corpus", "c17.json")))
              if os.path.exists(os.path.join(common.VERIF, "corpus", "c17.json")) else []):
        cases.append(("corpus", c["seq"], seq_fields(c["seq"], c.get("batched", False), c.get("repeat"))))
    for m in mods:
        cases.append(("single", [m], seq_fields([m], repeat=m)))
    all_pairs = [(a, b) for a in mods for b in mods if a < b]
    pairs = all_pairs if not quick else rng.sample(all_pairs, 200)
    # targeted: modules that define the same name (what C17_table_clash_free rules out)
    definers = collections.defaultdict(list)
    for m in mods:
        for k, v in g[m]:
            if k == "d":
                for x in v:
                    if m not in definers[x]:
                        definers[x].append(m)
    clashes = {x: ms for x, ms in definers.items() if len(ms) > 1}
    for x, ms in sorted(clashes.items())[:20]:
        for a, b in itertools.combinations(ms, 2):
            if (min(a, b), max(a, b)) not in pairs:
                pairs.append((min(a, b), max(a, b)))
    for a, b in pairs:
        cases.append(("pair", [a, b], seq_fields([a, b], repeat=a if rng.random() < 0.3 else None)))
        cases.append(("pair", [b, a], seq_fields([b, a])))
    n_sub = 30 if quick else 400
    light = [m for m in mods if m not in ("all", "prelude")]
    for _ in range(n_sub):
        sub = rng.sample(light, rng.randrange(3, 8))
        o1 = list(sub)
        o2 = list(sub)
        rng.shuffle(o2)
        if rng.random() < 0.5:
            o2.insert(rng.randrange(len(o2)), rng.choice(sub))      # a repeated import in the middle
        cases.append(("subset", o1, seq_fields(o1, batched=rng.random() < 0.5)))
        cases.append(("subset", o2, seq_fields(o2, batched=rng.random() < 0.5, repeat=rng.choice(sub))))

    outs = S.run_sessions(binary, [f for _, _, f in cases], timeout=2400)

    problems = []       # (case index, text) : the property itself fails on the implementation
    tr_problems = []    # translator / model disagreements
    items = []          # model correspondence
    digests = {}
    stats = collections.Counter()
    for ci, (kind, seq, fields) in enumerate(cases):
        o = outs[ci]
        tags = [t for t, _ in fields]
        pos = 0
        imp_n = None
        first_n, first_s = None, None
        n_i = 0
        for t in tags:
            item = o[pos] if pos < len(o) else "MISSING"
            pos += 1
            if t == "I":
                n_i += 1
                stats["imports"] += 1
                if not item.startswith("ok|"):
                    problems.append((ci, "import fails: `%s` answers %s" % (fields[pos - 1][1], item)))
            elif t == "n":
                if first_n is None:
                    first_n = item
                elif item != first_n:
                    problems.append((ci, "re-importing `%s` changed the names: %s -> %s" % (
                        fields[pos - 2][1], first_n[:300], item[:300])))
            elif t == "s":
                if first_s is None:
                    first_s = item
                elif item != first_s:
                    problems.append((ci, "re-importing `%s` changed the session digest: %s -> %s" % (
                        fields[pos - 3][1], first_s, item)))
        if first_n is None or not first_n.startswith("imp="):
            problems.append((ci, "no observation (panic/crash): %r" % (o,)))
            continue
        names = parse_names(first_n)
        digests[ci] = (frozenset(seq), first_s)
        # model: exact imported_modules order
        if all(m in g for m in seq):
            items.append((ci, 'show_imports stdlib "%s"' % ",".join(seq), "imp=[%s]" % ",".join(names["imp"])))
        # translator validation
        vs, ts = translator_names(g, names["imp"])
        impl_v = set(names["vars"]) | set(names["fns"]) | set(x for u in names["units"] for x in u.split("/"))
        impl_t = set(names["dims"])
        vs_vis = set(x for x in vs if not x.startswith("_"))
        dims_tr = set(x for x in ts)
        if impl_v != vs_vis:
            tr_problems.append((ci, "value names differ: only implementation %s ; only translator %s" % (
                sorted(impl_v - vs_vis)[:8], sorted(vs_vis - impl_v)[:8])))
        if not impl_t <= dims_tr:
            tr_problems.append((ci, "dimension names unknown to the translator: %s" % sorted(impl_t - dims_tr)[:8]))

    # order independence: all cases over the same module set must have the same digest
    by_set = collections.defaultdict(list)
    for ci, (st, dg) in digests.items():
        by_set[st].append((ci, dg))
    for st, lst in by_set.items():
        for ci, dg in lst[1:]:
            stats["order_comparisons"] += 1
            if dg != lst[0][1]:
                problems.append((ci, "import order matters: %s gives %s but %s gives %s" % (
                    cases[lst[0][0]][1], lst[0][1], cases[ci][1], dg)))

    bad_model = common.coq_mismatches(["Session.ImportExec", "Gen.ModuleGraph"],
                                      [(t, s) for _, t, s in items], "c17",
                                      shard_size=min(150, max(8, -(-len(items) // common.NPROC))), timeout=2400)

    found = 0
    for ci, text in problems[:3]:
        kind, seq, fields = cases[ci]
        detail = text
        if "import order matters" in text:
            detail += " || " + explain_order(binary, by_set[frozenset(seq)][0][0], ci, cases)
        chk.violation({
            "kind": "standard-library modules do not compose (real numbat Context)",
            "modules_in_order": seq, "fields": fields, "detail": detail,
            "replay": "./check C17 --replay <this file>",
        })
        found += 1
    if not found and (bad_model or tr_problems or not proved):
        k = min(bad_model) if bad_model else None
        chk.violation({
            "kind": "proof, table lemma, translator or correspondence no longer checks",
            "theorem_or_correspondence": (
                "Props/C17.v: " + getattr(chk, "proof_failure", "?") if not proved else
                "imported_modules order: model vs implementation" if bad_model else
                "translator name extraction vs implementation"),
            "model_mismatches": len(bad_model),
            "first_model_mismatch": None if k is None else {
                "modules": cases[items[k][0]][1], "implementation": items[k][2], "model": bad_model[k]},
            "translator_problems": [(cases[ci][1], t) for ci, t in tr_problems[:5]],
            "names_defined_by_two_modules": dict(list(clashes.items())[:10]),
        }, found_input=False)

    shapes = set()
    for ci, (kind, seq, _) in enumerate(cases):
        if ci in digests and len(seq) > 1:
            shapes.add(tuple(seq))
    chk.cov.update({
        "evaluations": len(cases),
        "distinct_nontrivial": len(shapes),
        "rule": "corpus + every module alone (imported twice) + %s ordered pairs in both orders + random subsets of 3-7 "
                "modules in two orders (with repeated imports; one input per module or one batched input). "
                "non-trivial/distinct = distinct ordered sequences of >= 2 modules that were fully observed"
                % ("ALL" if not quick else "%d sampled" % len(pairs)),
        "modules": len(mods), "pairs": len(pairs), "pairs_possible": len(all_pairs),
        "exhaustive": (not quick),
        "exhaustive_scope": "single modules: all; unordered pairs: %s" % ("all" if not quick else "sample"),
        "model_vs_impl_cases": len(items), "model_mismatches": len(bad_model),
        "translator_checks": len(cases), "translator_problems": len(tr_problems),
        "oracle_violations": len(problems),
        "histogram": dict(stats),
        "samples": [{"seq": cases[i][1], "names": (outs[i][len(cases[i][1])] if len(outs[i]) > len(cases[i][1]) else "")[:300]}
                    for i in (0, len(mods) + 3, len(cases) - 1)],
    })


def explain_order(binary, c1, c2, cases):
    """full-text sorted digests of the two orders, first differing section"""
    f1 = [(t, x) for t, x in cases[c1][2] if t == "I"][:len(cases[c1][1])] + [("S", "")]
    f2 = [(t, x) for t, x in cases[c2][2] if t == "I"][:len(cases[c2][1])] + [("S", "")]
    o = S.run_sessions(binary, [f1, f2])
    a, b = o[0][-1].split(";"), o[1][-1].split(";")
    for x, y in zip(a, b):
        if x != y:
            ex, ey = set(x.split(",")), set(y.split(","))
            return "section %s: only first order %s ; only second order %s" % (
                x.split("=")[0], sorted(ex - ey)[:6], sorted(ey - ex)[:6])
    return "full-text digests agree (hash collision?)"


def replay(path):
    r = json.load(open(path))
    if "fields" not in r:
        print(json.dumps(r, indent=1)[:4000])
        return 0
    binary, _ = common.build_harness()
    seq = r["modules_in_order"]
    rev = list(reversed(seq))
    o = S.run_sessions(binary, [seq_fields(seq, repeat=seq[0]), seq_fields(rev)])
    print("order", seq, "->", o[0])
    print("order", rev, "->", o[1])
    n = len(seq)
    ok = all(x.startswith("ok|") for x in o[0][:n] + o[1][:n]) and o[0][n + 1] == o[1][n + 1] \
        and o[0][n] == o[0][n + 3] and o[0][n + 1] == o[0][n + 4]
    print("agrees" if ok else "VIOLATED")
    return 0 if ok else 1
