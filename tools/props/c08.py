"""C08 — no input crashes or hangs the interpreter.

proof:  coq/theories/Props/C08.v over Overflow/Model.v — only the arithmetic cores that panic (Ratio<i128>
        exponent arithmetic, factorial order truncation): checked paths fail exactly where unchecked ones
        panic, the factorial loop terminates for order >= 1, `_refuted` witnesses for the unchecked paths.
tie/oracle: exploration.  harness `crash` runs every generated text through Context::interpret_with_settings
        and renders the diagnostic of every error (codespan-reporting), under catch_unwind, with a watchdog, in the
        dev profile (debug assertions and overflow checks on); each shard is a child process, so a stack overflow
        or abort is observed as the death of the child and attributed to the input that was running.
        Every panic / abort / hang is a failing input of the property; it is reported as a VIOLATION unless an OPEN
        finding of known_findings.json matches it (panic site + message + shape predicate on the input).
"""
import collections
import concurrent.futures as cf
import json
import os
import re
import subprocess
import unicodedata

import common

MANIFEST = dict(
    category="proof",
    text="proof (partial). No theorem can exhibit a Rust panic, stack overflow or hang of the real interpreter; the "
         "claim for arbitrary text rests on an exploration (grammar-generated programs, mutations of examples/ and "
         "modules/, extreme literals, operator runs, deep nesting, random Unicode) run through interpret + diagnostic "
         "rendering under catch_unwind and a watchdog in child processes, in the checked (dev) profile (thorough tier: also a "
         "release build), single inputs and sequences of inputs on one session. Machine-checked (Coq) only for the modelled "
         "arithmetic cores (Ratio<i128> mul/add with lcm, DType::power/try_power, multiply/try_multiply/canonicalize, "
         "UnitFactor::power, factor merging, the guarded run-time paths): the checked paths never panic for any factors and "
         "exponents (C08_checked_paths_total); since the phase-4 repairs the run-time paths only run the unchecked operations "
         "after the checked ones succeeded, and then they cannot panic either (C08_guarded_paths_total, for well-formed "
         "exponents); the parser never hands a truncated factorial order to the VM (C08_factorial_order_exact); the unchecked "
         "operations are the checked ones with 'overflow' turned into a panic (C08_unchecked_is_checked_plus_panic, "
         "C08_ratio_ops, C08_checked_mul_in_range); the factorial loop terminates for every order >= 1 "
         "(C08_factorial_terminates); kernel-computed witnesses of what the unchecked operations do "
         "(C08_power_overflow_refuted, C08_lcm_overflow_refuted, C08_factorial_truncation_refuted, "
         "C08_comparison_nan_refuted on primitive floats). Three classes of crashing inputs remain OPEN findings (NaN "
         "comparison after an overflowing conversion; stack overflow on deep nesting; stack overflow on operator chains "
         "of more than ~5000 terms), "
         "the other defects found by this exploration (17 findings) were fixed in numbat.",
    design_ref="DESIGN.md §6 C08, §7 #4-#7; design/misc.md",
    note="Trusted: Coq kernel; Overflow/Model.v as a description of num-rational 0.4.2 and math.rs; the exploration "
         "harness (harness/src/crash.rs). An exploration finding nothing is not a proof of absence.",
    technique="Coq proofs about the panicking arithmetic cores + crash/hang exploration under catch_unwind and a watchdog",
)

THEOREMS = ["C08_checked_paths_total", "C08_guarded_paths_total", "C08_factorial_order_exact", "C08_unchecked_is_checked_plus_panic", "C08_ratio_ops", "C08_checked_mul_in_range",
            "C08_factorial_terminates", "C08_power_overflow_refuted", "C08_lcm_overflow_refuted",
            "C08_factorial_truncation_refuted", "C08_comparison_nan_refuted"]
# C08_comparison_nan_refuted is computed on the kernel's primitive binary64 floats: Print Assumptions lists the
# primitive type and operations it uses (they are primitives of the kernel, not axioms of this development)
_PRIMS = ("PrimFloat.float PrimFloat.mul PrimFloat.div PrimFloat.eqb PrimFloat.compare PrimFloat.ldshiftexp PrimFloat.next_up "
          "PrimFloat.of_uint63 PrimFloat.sqrt PrimFloat.sub PrimFloat.opp PrimFloat.ltb PrimFloat.leb PrimFloat.add PrimFloat.abs "
          "PrimFloat.normfr_mantissa PrimFloat.next_down PrimFloat.frshiftexp PrimFloat.classify Leibniz.eqb "
          "PrimInt63.compares PrimInt63.diveucl_21 PrimInt63.addmuldiv PrimInt63.addcarryc PrimInt63.tail0 PrimInt63.head0 "
          "PrimInt63.subc PrimInt63.mulc PrimInt63.mods PrimInt63.lxor PrimInt63.ltsb PrimInt63.lesb PrimInt63.land PrimInt63.divs "
          "PrimInt63.addc PrimInt63.sub PrimInt63.mul PrimInt63.mod PrimInt63.ltb PrimInt63.lsr PrimInt63.lsl PrimInt63.lor "
          "PrimInt63.leb PrimInt63.int PrimInt63.eqb PrimInt63.div PrimInt63.asr PrimInt63.add PrimInt63.subcarryc "
          "PrimInt63.diveucl PrimInt63.compare").split()
# Print Assumptions lists the primitives a theorem uses by their short names; coqchk (thorough tier) lists every
# primitive of the loaded PrimFloat/PrimInt63 libraries.  They are kernel primitives, allowed for this check only.
ALLOWED_AXIOMS = ["float", "mul", "div", "eqb", "compare"] + _PRIMS

CASE_TIMEOUT_MS = 15000


def hx(s):
    return s.encode("utf-8").hex()


SEQ_SEP = "\n\u241e\n"          # separates the inputs of a session sequence inside one case text


def case_line(case):
    mode, src = case[0], case[1]
    if mode == 3:
        return "3;%s\n" % ",".join(hx(x) for x in src.split(SEQ_SEP))
    return "%d;%s\n" % (mode, hx(src))


CHILD_MEMORY_LIMIT = 6 * 2 ** 30


def _limit_child():
    """children may not take the machine down: an input that asks for gigabytes of padding dies with an allocation
    failure (reported as an abort) instead of swapping"""
    import resource
    resource.setrlimit(resource.RLIMIT_AS, (CHILD_MEMORY_LIMIT, CHILD_MEMORY_LIMIT))


# ------------------------------------------------------------------ driver
def run_crash(binary, cases, shards=None):
    """cases: list of (mode, source).  Returns one outcome string per case.  Every shard is a child process that is
    restarted after the case that killed it (abort / stack overflow) or made the watchdog fire."""
    shards = shards or min(common.NPROC, max(1, len(cases) // 40))
    chunks = [list(range(i, len(cases), shards)) for i in range(shards)]
    env = dict(common.ENV)
    env["NV_CASE_TIMEOUT_MS"] = str(CASE_TIMEOUT_MS)
    res = [None] * len(cases)

    def one(idxs):
        pos = 0
        while pos < len(idxs):
            todo = idxs[pos:]
            inp = "".join(case_line(cases[i]) for i in todo)
            try:
                p = subprocess.run([binary, "crash"], input=inp.encode(), stdout=subprocess.PIPE, preexec_fn=_limit_child,
                                   stderr=subprocess.PIPE, timeout=CASE_TIMEOUT_MS / 1000 * 3 + 30 * len(todo) ** 0 + 600, env=env)
                out = p.stdout.decode("utf-8", "replace").split("\n")
                rc, err = p.returncode, p.stderr.decode("utf-8", "replace")
            except subprocess.TimeoutExpired as e:
                out = (e.stdout or b"").decode("utf-8", "replace").split("\n")
                rc, err = -999, "driver timeout"
                if out and out[-1] != "":
                    out[-1] = ""            # a partly written line
            if out and out[-1] == "":
                out.pop()
            if rc == -999 and 0 < len(out) < len(todo):
                # the driver's limit for the whole chunk (a loaded machine), not a property of the case that happened to
                # be running: keep what was finished and carry on from there
                for k, o in enumerate(out):
                    res[todo[k]] = o
                pos += len(out)
                continue
            for k, o in enumerate(out[:len(todo)]):
                res[todo[k]] = o
            if len(out) >= len(todo):
                break
            # the child died while running case todo[len(out)]
            k = len(out)
            res[todo[k]] = "@@CRASH rc=%s %s" % (rc, err.strip()[-160:].replace("\n", " "))
            pos += k + 1
            if out and out[-1].startswith("H|"):
                # the watchdog line belongs to case k-1... it was printed as that case's outcome; nothing to fix
                pass
        return True

    with cf.ThreadPoolExecutor(max_workers=shards) as ex:
        list(ex.map(one, chunks))
    # a watchdog line is the outcome of the case that hung: it is the last line of its child, and the next
    # case of that shard was never run -> it got @@CRASH rc=3; rerun those singly
    for idxs in chunks:
        for a, b in zip(idxs, idxs[1:]):
            if res[a] and res[a].startswith("H|") and res[b] and res[b].startswith("@@CRASH rc=3"):
                res[b] = None
    redo = [i for i, r in enumerate(res) if r is None]
    for i in redo:
        res[i] = run_single(binary, cases[i])
    return res


def run_single(binary, case, timeout_ms=None):
    timeout_ms = timeout_ms or CASE_TIMEOUT_MS
    env = dict(common.ENV)
    env["NV_CASE_TIMEOUT_MS"] = str(timeout_ms)
    try:
        p = subprocess.run([binary, "crash"], input=case_line(case).encode(), preexec_fn=_limit_child,
                           stdout=subprocess.PIPE, stderr=subprocess.PIPE, timeout=timeout_ms / 1000 + 60, env=env)
    except subprocess.TimeoutExpired:
        return "H|driver"
    out = p.stdout.decode("utf-8", "replace").split("\n")
    if out and out[0]:
        return out[0]
    return "@@CRASH rc=%s %s" % (p.returncode, p.stderr.decode("utf-8", "replace").strip()[-160:].replace("\n", " "))


def is_failure(o):
    return o.startswith(("P:", "DP:", "H|", "@@CRASH", "X|"))


# ------------------------------------------------------------------ shapes and known findings
def max_nesting(src):
    depth = best = 0
    run = bestrun = 0
    for ch in src:
        if ch in "([{":
            depth += 1
            best = max(best, depth)
        elif ch in ")]}":
            depth = max(0, depth - 1)
        if ch in "-+!^ \t":
            if ch != " " and ch != "\t":
                run += 1
                bestrun = max(bestrun, run)
        else:
            run = 0
    return max(best, bestrun)


def bang_runs(src):
    return [len(m.group(0)) for m in re.finditer(r"!+", src)]


SHAPES = {
    "comparison": lambda s: re.search(r"<|>|≤|≥", s) is not None,
    "power-or-root": lambda s: re.search(r"\^|\*\*|[⁰¹²³⁴⁵⁶⁷⁸⁹]|sqrt|cbrt|sqr", s) is not None,
    "bang-run-multiple-of-65536": lambda s: any(n >= 65536 and n % 65536 == 0 for n in bang_runs(s)),
    "nesting-at-least-1000": lambda s: max_nesting(s) >= 1000,
    "operator-chain-at-least-5000": lambda s: len(re.findall(r"[-+*/×÷<>=&|]|\bper\b|\bto\b|->|→|\s[A-Za-zµ°]", s)) >= 5000,
    "count-recursion-with-non-finite-argument": lambda s: re.search(
        r"\b(range|rand_binom|_poisson|rand_poisson|rand_geom|linspace|take|drop|str_repeat|catalan|fibonacci|binom|"
        r"falling_factorial|factorial)\s*\([^()]*(\binf\b|NaN)", s) is not None,
    "question-mark-in-string-interpolation": lambda s: re.search(r'"[^"]*\{[^}"]*\?', s) is not None,
}


def site_of(outcome):
    """(kind, file, message) of a failure outcome"""
    if outcome.startswith(("P:", "DP:")):
        kind, rest = outcome.split(":", 1)
        rest = rest.rsplit("|", 1)[0]
        m = re.match(r"^(.*?):(\d+): (.*)$", rest)
        if m:
            f = m.group(1)
            f = re.sub(r"^.*/registry/src/[^/]+/", "", f)
            f = re.sub(r"^.*/(numbat[^/]*/src/)", r"\1", f)
            return kind, f, m.group(3)
        return kind, "?", rest
    if outcome.startswith("H|"):
        return "hang", "", ""
    return "abort", "", outcome


def match_known(known, src, outcome):
    kind, f, msg = site_of(outcome)
    for k in known:
        m = k.get("matcher", {})
        if m.get("exact_input") is not None:
            if m["exact_input"] == src:
                return k
            continue
        if m.get("kind") is not None and m.get("kind") != kind:
            continue
        if m.get("kind_any") is not None and kind not in m["kind_any"]:
            continue
        if m.get("file") and m["file"] not in f:
            continue
        if m.get("message") and not re.search(m["message"], msg):
            continue
        if m.get("shape") and not SHAPES[m["shape"]](src):
            continue
        return k
    return None


# a finite numeric literal of magnitude >= 1e6 (7+ digits, or an exponent of 6 or more)
HUGE_LITERAL_RE = re.compile(r"\d[\d_]{6,}|\d(?:\.\d*)?[eE]\+?(?:[6-9]|[1-9]\d+)")

# format specifiers inside string interpolations are not counts of work requested by the user
FORMAT_SPEC_RE = re.compile(r":[^}\"\n]*\}")

RECURSION_RE = re.compile(r"fn\s+([^\s(<]+)")


def unbounded_recursion_possible(src):
    """the property excludes inputs with unbounded recursion: a function that (directly) calls itself, or
    two functions calling each other"""
    names = RECURSION_RE.findall(src)
    for n in names:
        body = src.split("fn " + n, 1)[1] if ("fn " + n) in src else ""
        body = body.split("\nfn ", 1)[0]
        if re.search(r"(?<![\w])" + re.escape(n) + r"\s*\(", body.split("=", 1)[1] if "=" in body else ""):
            return True
    return len(names) >= 2 and any(re.search(re.escape(a) + r"\s*\(", src.split("fn " + b, 1)[1]) for a in names for b in names if a != b
                                   and ("fn " + b) in src and src.index("fn " + b) < src.index("fn " + a))


# ------------------------------------------------------------------ generators
UNITS = ["m", "cm", "km", "s", "ms", "kg", "g", "N", "J", "W", "Hz", "K", "mol", "A", "V", "bit", "byte", "inch", "ft",
         "hour", "day", "rad", "deg", "°", "%", "Rm", "Qm", "qm", "ym", "Ys", "EiB", "light_year", "eV"]
FUNCS1 = ["sqrt", "sqr", "abs", "sin", "cos", "tan", "exp", "ln", "log10", "floor", "ceil", "round", "trunc", "gamma",
          "cbrt", "asin", "acos", "atan", "sinh", "is_nan", "is_infinite", "unit_of", "value_of", "len", "sum", "mean",
          "reverse", "sort", "str_length", "lowercase", "factorial", "bin", "hex", "chr", "ord", "head", "tail", "maximum",
          "minimum", "variance", "stdev", "median", "product", "quantity_cast", "type", "str_rev", "unique"]
NUMS = ["0", "1", "2", "3", "10", "0.5", "1e3", "1e-3", "1e308", "1e-320", "2.5e-5", "1_000", "0x1F", "0b101", "0o17", "NaN", "inf",
        "1e309", "9007199254740993", "170", "171", "1e18", "1e19", "1e38", "1e39", "3.999999999999999", "0.1", "1/3", "-1", "π", "e"]


def gen_expr(rng, depth=0):
    r = rng.random()
    if depth > 4 or r < 0.22:
        n = rng.choice(NUMS)
        if rng.random() < 0.5:
            u = rng.choice(UNITS)
            if rng.random() < 0.25:
                u = u + "^" + rng.choice(["2", "-1", "3", "(1/2)", "(-2/3)", "12", "0.5", "1e30", "(2^100)", "0"])
            return "%s %s" % (n, u)
        return n
    e = lambda: gen_expr(rng, depth + 1)
    if r < 0.45:
        return "%s %s %s" % (e(), rng.choice(["+", "-", "*", "/", "×", "÷", "per", "^", "**", "->", "→", "to", "|>"]), e())
    if r < 0.55:
        return "(%s)" % e()
    if r < 0.65:
        f = rng.choice(FUNCS1)
        return "%s(%s)" % (f, e())
    if r < 0.70:
        return "%s %s %s" % (e(), rng.choice(["<", ">", "<=", ">=", "==", "!=", "&&", "||"]), e())
    if r < 0.75:
        return "if %s then %s else %s" % (e(), e(), e())
    if r < 0.80:
        return "[%s]" % ", ".join(e() for _ in range(rng.randrange(0, 4)))
    if r < 0.84:
        return "-%s" % e()
    if r < 0.87:
        return "%s%s" % (e(), "!" * rng.choice([1, 1, 2, 3, 7]))
    if r < 0.90:
        return '"a{%s}b{%s:%s}"' % (e(), e(), rng.choice([">10", ".3f", "e", "x", "0>5", "+", "#?", "^-1"]))
    if r < 0.93:
        return "%s(%s, %s)" % (rng.choice(["atan2", "mod", "max", "min", "range", "cons", "map", "filter", "foldl", "str_slice",
                                          "round_in", "floor_in", "unit_list", "random", "element", "linspace", "str_repeat"]), e(), e())
    if r < 0.96:
        return "%s²" % e() if rng.random() < 0.5 else "%s⁻¹" % e()
    return rng.choice(["now()", "datetime(\"2020-01-01 00:00 UTC\")", "today()", "?", "true", "false", "\"x\"", "[]",
                       "now() + 1e30 s", "date(\"9999-12-31\") + 400 days", "from_unixtime(1e30 unix_s)", "tz(\"Nowhere/Land\")"])


def gen_program(rng):
    lines = []
    for _ in range(rng.randrange(1, 5)):
        r = rng.random()
        if r < 0.5:
            lines.append(gen_expr(rng))
        elif r < 0.65:
            lines.append("let v%d%s = %s" % (rng.randrange(5), rng.choice(["", ": Length", ": Scalar", ": Time^2"]), gen_expr(rng)))
        elif r < 0.78:
            # non-recursive function
            lines.append("fn g%d(x%s)%s = %s" % (rng.randrange(5), rng.choice(["", ": Length", ": Scalar", ": D"]),
                                                  rng.choice(["", " -> Scalar", " -> Length^2"]),
                                                  gen_expr(rng).replace("1 ", "x ", 1)))
        elif r < 0.84:
            lines.append("unit u%d%s = %s" % (rng.randrange(5), rng.choice(["", ": Length"]), gen_expr(rng)))
        elif r < 0.88:
            lines.append("dimension D%d = %s" % (rng.randrange(5), rng.choice(["Length^2", "Length/Time", "Mass^(1/3)", "Length^(2^70)", "1"])))
        elif r < 0.92:
            lines.append("assert_eq(%s, %s%s)" % (gen_expr(rng), gen_expr(rng), rng.choice(["", ", 1e-3", ", 1 cm"])))
        elif r < 0.96:
            lines.append("print(%s)" % gen_expr(rng))
        else:
            lines.append("struct S%d { a: Length, b: Scalar }\nS%d { a: %s, b: %s }.a" % (
                rng.randrange(3), rng.randrange(3), gen_expr(rng), gen_expr(rng)))
    return "\n".join(lines)


def extreme_literals(rng):
    out = ["1e999999999999", "1e-999999999999", "1" + "0" * 5000, "0." + "0" * 5000 + "1", "9" * 400 + "." + "9" * 400,
           "2^1024", "10^10^10", "2^2^2^2^2^2", "(-1)^0.5", "0^0", "0^-1", "1e308 * 10", "-1e308 * 10", "m^1e30", "m^(1e38)",
           "m^(1/1e30)", "(m^1e19)^1e19", "m^170141183460469231731687303715884105727", "m^-170141183460469231731687303715884105728",
           "sqrt(" * 130 + "m" + ")" * 130, "(" * 300 + "1" + ")" * 300, "[" * 300 + "]" * 300, "-" * 800 + "1", "1" + "+1" * 3000,
           "1" + "^1" * 600, "!" * 700 + "true", "5" + "!" * 300, "5" + "!" * 65535, "5" + "!" * 65537, "3.5!", "(-1)!", "171!", "1e6!",
           "0x" + "f" * 200, "0b" + "1" * 2000, "0o" + "7" * 500, "1e", "1e+", "1.e5", "1._5", "1__0", "0x", "0b2",
           "a" * 10000, "\"" + "x" * 100000 + "\"", "\"{" * 200, "\"{1:" + ">" * 500 + "}\"", "\"{1:9999999999999999999}\"",
           "\"{1:.9999999999}\"", "\"{1:>4294967296}\"", "1 m -> " + "cm " * 500, "1" + " m" * 2000, "m" + "²" * 300, "m⁻" * 50,
           "range(1, 0)", "range(0, 2e3) |> sum", "str_repeat(\"ab\", 100000) |> str_length", "element_at(5, [1])", "head([])",
           "chr(1114112)", "chr(-1)", "chr(55296)", "ord(\"\")", "str_slice(5, 2, \"hello\")", "str_slice(-1, 2, \"hello\")",
           "str_slice(0, 1, \"ä\")", "from_unixtime(1e300 unix_s)", "now() + 1e300 years", "now() - 1e15 years",
           "datetime(\"0000-00-00\")", "datetime(\"99999-01-01 00:00 UTC\")", "format_datetime(\"%Q%%%\", now())",
           "format_datetime(\"%\", now())", "tz(\"\")", "date(\"\")", "1 Rm^12/m < 1 Qm^11", "((m/cm)^1e30)^1e30",
           "fn f(x) = x^(2^126) * x^(2^126)", "5" + "!" * 65536, "(" * 20000 + "1" + ")" * 20000,
           "use " + "a::" * 500 + "b", "use prelude\nuse prelude", "@" * 100, "@aliases(" * 50, "#" * 10000, "\n" * 10000,
           "let x: " + "Length^" * 100 + "2 = 1", "fn f<" + "A, " * 300 + "B>(x: A) = x", "fn f(x: D^(1/0)) = x",
           "dimension Z = Length^(1/0)", "unit q = 1/0", "let 🙂 = 1", "1 ​+ 1", "﻿1", "1 +\x00 1", "１２３", "1٠",
           "1e1_", "5 % 0", "mod(5, 0)", "1 m % 0 m", "bit_and(1e30, 2)" , "gcd(1e30, 7)", "lcm(2^62, 3^39)", "binom(1e4, 5e3)",
           "2^0.5^0.5^0.5^0.5^0.5^0.5^0.5^0.5", "m^(1/3)^(1/3)^(1/3)^(1/3)^(1/3)^(1/3)", "cbrt(" * 90 + "m^3" + ")" * 90,
           "quantity_cast(1, m^1e20)", "1 m^(2^63) + 1 m^(2^63)", "1 m^(2^64)/ 1 m^(2^64)", "(1 m^(2^100)) * (1 m^(2^100))",
           "(1 m^(1/2^100)) * (1 m^(1/3^70))", "1 m^(1/2^100) + 1 m^(1/3^70)", "sqrt(m^(2^126))", "sqr(m^(2^126))", "m^(2^126) * m^(2^126)"]
    return out


def soup(rng, n):
    alphabet = list("0123456789 +-*/^()[]{}<>=!&|.,:;\"'#@_%°µ\n\t\\?") + ["->", "→", "²", "⁻", "¹", "π", "×", "÷", "≤", "≥", "≠", "…", "€", "fn ",
               "let ", "unit ", "use ", "if ", "then ", "else ", "to ", "per ", "struct ", "dimension ", "where ", "and ", "m", "s", "kg", "x", "e", "NaN", "inf", "true", "​", "́", "퟿", "\U0001F600", "‮", "\x7f", "\x01"]
    out = []
    for _ in range(n):
        k = rng.randrange(1, 60)
        if rng.random() < 0.3:
            out.append("".join(chr(rng.choice([rng.randrange(32, 127), rng.randrange(0x80, 0x800), rng.randrange(0x800, 0xD7FF),
                                                  rng.randrange(0xE000, 0xFFFF), rng.randrange(0x10000, 0x10FFFF)])) for _ in range(k)))
        else:
            out.append("".join(rng.choice(alphabet) for _ in range(k)))
    return out


FILLS = ["", ".", "0", "1", "9", "<", ">", "^", "_", "*", " ", "#", "+", "-", "e", "x", "ä", "🙂", ":", "{", "}"]
SIZES = ["", "", "0", "1", "5", "10", "00007", "255", "256", "1000", "65535", "65536", "65537", "70000", "99999", "4294967295",
         "4294967296", "99999999999", "18446744073709551615", "18446744073709551616", "340282366920938463463374607431768211456"]
FMT_VALUES = ["1.5", "1", "-2.25", "0", "1e300", "1e-300", "NaN", "inf", "-inf", "1/3", "1.5 m", "3 km/h", "0 K", "sv", "\"x\"", "\"\"",
              "\"ä🙂\"", "true", "now()", "[1, 2]", "[\"a\"]", "sqrt", "2^70", "1 m^2", "100 %"]


def format_spec(rng):
    """Rust/strfmt format specifier grammar  [[fill]align][sign]['#']['0'][width]['.' precision][type]  with every kind of
    fill character (including '.', digits and the alignment characters themselves) and widths/precisions from 0 to
    beyond u16::MAX, u32::MAX and u64::MAX; 10% are deliberately malformed"""
    fill = rng.choice([".", ".", "0", "7", "<", ">", "^"]) if rng.random() < 0.4 else rng.choice(FILLS)
    align = rng.choice(["<", ">", "^", "<", ">", ""])
    spec = (fill + align) if align else (fill if rng.random() < 0.1 else "")
    plain = rng.random() < 0.5            # half of the specifiers use only what strfmt accepts for every value
    if not plain:
        spec += rng.choice(["", "", "+", "-"]) + rng.choice(["", "", "#"]) + rng.choice(["", "", "0"])
    spec += rng.choice(SIZES)
    if rng.random() < 0.6:
        spec += "." + rng.choice(SIZES)
    spec += rng.choice(["", "", "e"]) if plain else rng.choice(["", "", "", "e", "E", "x", "X", "o", "b", "?", "s", "d", "f", "%", "g"])
    if rng.random() < 0.1:
        i = rng.randrange(len(spec) + 1)
        spec = spec[:i] + rng.choice([".", ":", "$", "*", ",", "1$", "width$", "{}", " "]) + spec[i:]
    return spec


def format_program(rng):
    parts = []
    for _ in range(rng.choice([1, 1, 1, 2, 3])):
        parts.append("%s{%s:%s}" % (rng.choice(["", "a", " "]), rng.choice(FMT_VALUES), format_spec(rng)))
    return "let sv = \"x\"\n\"%s\"" % "".join(parts)


STRFTIME = list("aAbBcCdDeFfgGhHIjklmMnNpPQrRsStTuUVwWxXyYzZ%+:.#-_0^") + ["%", "%%", "%:z", "%::z", "%.f", "%.3f", "%.9f", "%N"]


def strftime_program(rng):
    """format_datetime with every strftime directive, flags (- _ 0 ^ #) and widths up to absurd sizes"""
    fmt = ""
    for _ in range(rng.randrange(1, 5)):
        fmt += rng.choice(["", " ", "-", "T", "x"]) + "%" + rng.choice(["", "", "-", "_", "0", "^", "#"]) + \
            rng.choice(["", "", "", "1", "9", "10", "255", "256", "65536", "99999999999"]) + rng.choice(STRFTIME)
    dt = rng.choice(["now()", "datetime(\"2020-02-29 12:00 UTC\")", "from_unixtime_s(-377705023201)", "from_unixtime_s(253402207200)",
                     "datetime(\"-0044-03-15 12:00 UTC\")", "now() -> tz(\"Asia/Kathmandu\")"])
    if rng.random() < 0.3:
        return "datetime(format_datetime(\"%s\", %s))" % (fmt, dt)
    return "format_datetime(\"%s\", %s)" % (fmt, dt)


FN_SIG_RE = re.compile(r"^fn\s+([^\s(<]+)\s*(?:<[^>]*>)?\s*\(([^)]*)\)", re.M)
ARG_POOL = {
    "Scalar": ["0", "1", "-1", "2", "0.5", "-0.5", "1e308", "-1e308", "1e-320", "NaN", "inf", "-inf", "255", "256", "65536",
               "3.5", "170", "171", "1114111", "1114112", "55296", "-0", "9007199254740993", "18446744073709551616"],
    "String": ['""', '"a"', '"ä"', '"🙂🙂"', '"abc def"', '"{"', '"%"', '"%Y-%m-%d"', '"%Q"', '"2020-01-01"', '"UTC"',
               '"0x"', '"1e400"', '"\\n"', '"a" + "b"', 'str_repeat("ab", 1000)'],
    "Bool": ["true", "false"],
    "DateTime": ["now()", 'datetime("2020-02-29 12:00 UTC")', "from_unixtime_s(253402207200)", "from_unixtime_s(-377705023201)",
                 'datetime("0001-01-01 00:00 UTC")', "today()"],
    "List": ["[]", "[1]", "[1, 2, 3]", "[NaN]", "[inf, -inf]", "[[1], [2]]", '["a", "b"]', "[1 m, 2 cm]", "range(1, 50)", "[true]",
             "[now()]", "[0, 0, 0]", "[1e308, 1e308]"],
    "Fn": ["sqrt", "sin", "id", "sqr", "is_nan", "str_length", "len", "head"],
    "Dim": ["1 m", "0 m", "-1 m", "NaN m", "inf s", "1e308 kg", "1e-320 m", "2.5 cm", "1 m^2", "3 s", "1 deg", "100 %", "1 byte",
            "0 K", "-300 K", "1 m/s", "1 EiB", "1 Qm", "1 qm^3"],
}


COUNT_RECURSIVE = {"range", "rand_binom", "rand_poisson", "rand_geom", "linspace", "take", "drop", "str_repeat", "catalan",
                   "fibonacci", "binom", "falling_factorial", "factorial"}


def stdlib_signatures():
    """(name, [parameter types]) of every function of numbat/modules whose parameter list is on one line"""
    out = []
    for f in corpus_files():
        if os.sep + "modules" + os.sep not in f:
            continue
        for m in FN_SIG_RE.finditer(open(f, encoding="utf-8").read()):
            if m.group(1).startswith("_"):
                continue          # internal helpers are not part of the library's interface
            params = [p.strip() for p in m.group(2).split(",") if p.strip()]
            out.append((m.group(1), [(p.split(":", 1)[1].strip() if ":" in p else "?") for p in params]))
    return out


def stdlib_call(rng, sig):
    """a call of a library function with arguments of (mostly) the declared kinds, chosen from edge values"""
    name, types = sig
    everything = [v for vs in ARG_POOL.values() for v in vs]

    def pick(t):
        if t.startswith("List"):
            return rng.choice(ARG_POOL["List"])
        if t.startswith("Fn"):
            return rng.choice(ARG_POOL["Fn"])
        if t in ARG_POOL:
            return rng.choice(ARG_POOL[t])
        if t == "?" or rng.random() < 0.15:
            return rng.choice(everything)
        return rng.choice(ARG_POOL["Dim"] + ARG_POOL["Scalar"])
    args = [pick(t) for t in types]
    if name in COUNT_RECURSIVE:
        # open finding C08-count-recursion-on-non-finite-argument (one instance is in the corpus); every further
        # instance would only cost a watchdog period; counts of a thousand and more are compute-bound in the debug
        # profile (str_repeat is quadratic: 55296 repetitions take minutes)
        args = [a if not (re.search(r"inf|NaN|\d{4,}", a) or HUGE_LITERAL_RE.search(a)) else "3" for a in args]
    return "%s(%s)" % (name, ", ".join(args))


FAILING_INPUTS = ["1 m + 1 s", "1/0", "undefined_name_xyz", "let", "fn f(", "2 ^ (1 m)", "assert_eq(1, 2)", "error(\"boom\")", "unit", "1 +",
                  "use does::not::exist", "struct { }", "len(1)", "head([])", "5 -> m", "let v0: Time = 1 m", "datetime(\"nonsense\")", "(-1)!"]


def session_sequence(rng):
    """several inputs for ONE session: definitions (with re-definitions of the same names), module imports, uses of
    earlier names, and inputs that fail at every stage (parse, names, types, run time) in between"""
    seq = []
    for _ in range(rng.randrange(3, 9)):
        r = rng.random()
        if r < 0.3:
            seq.append(rng.choice(FAILING_INPUTS))
        elif r < 0.4:
            seq.append("use " + rng.choice(["units::stoney", "units::hartree", "extra::astronomy", "math::distributions", "units::currencies",
                                            "datetime::human", "extra::color", "chemistry::elements", "prelude"]))
        elif r < 0.5:
            seq.append("v%d + g%d(v%d) -> u%d" % tuple(rng.randrange(5) for _ in range(4)))
        else:
            seq.append(gen_program(rng))
    return seq


def corpus_files():
    fs = []
    for root in (os.path.join(common.REPO, "examples"), os.path.join(common.REPO, "numbat", "modules")):
        for d, _, names in os.walk(root):
            for n in sorted(names):
                if n.endswith(".nbt"):
                    fs.append(os.path.join(d, n))
    return sorted(fs)


def mutate(rng, text):
    lines = text.split("\n")
    # work on a window of the file so that programs stay small
    if len(lines) > 12:
        a = rng.randrange(0, len(lines) - 8)
        lines = lines[a:a + rng.randrange(3, 12)]
    s = "\n".join(lines)
    for _ in range(rng.randrange(1, 4)):
        if not s:
            break
        r = rng.random()
        i = rng.randrange(len(s))
        if r < 0.2:
            j = min(len(s), i + rng.randrange(1, 12))
            s = s[:i] + s[j:]
        elif r < 0.4:
            j = min(len(s), i + rng.randrange(1, 12))
            s = s[:j] + s[i:j] * rng.randrange(1, 4) + s[j:]
        elif r < 0.6:
            s = re.sub(r"\d+(\.\d+)?", lambda m: rng.choice(["0", "1e308", "1e-320", "-1", "1e30", "2^200", "NaN", "inf", m.group(0)]), s, count=rng.randrange(1, 3))
        elif r < 0.75:
            s = s[:i] + rng.choice(["^", "!", "->", "(", ")", "\"", "{", "}", "[", "]", "-", " per ", "²", "⁻¹", ",", ":", "?", "\n", "°", "@", "1e400", "_"]) + s[i:]
        elif r < 0.85:
            ops = ["+", "-", "*", "/", "^", "->", "<", "=="]
            a, b = rng.choice(ops), rng.choice(ops)
            s = s.replace(a, b, 1)
        else:
            s = s[:i]
    return s


def run(chk):
    binary, _ = common.build_harness()
    proved = chk.prove("Props.C08", THEOREMS, ["theories/Props/C08.vo"], allowed=ALLOWED_AXIOMS)
    chk.trusted += [
        "Overflow/Model.v describes num-rational 0.4.2 Ratio<i128> mul/add and math.rs factorial by hand; it is not tied to the code by a correspondence "
        "(a panic cannot be diffed against a model value) — its witnesses are replayed on the implementation every run (corpus)",
        "harness/src/crash.rs: interpret_with_settings + codespan rendering under catch_unwind, watchdog %d ms, one child process per shard" % CASE_TIMEOUT_MS,
        "dev profile: debug assertions and overflow checks on",
    ]
    quick = chk.tier == "quick"
    rng = chk.rng
    known = [f for f in common.load_known() if f.get("property") == "C08" and f.get("status") == "open"]

    cases = []          # (mode, source, family)
    corpus = json.load(open(os.path.join(common.VERIF, "corpus", "c08.json")))
    for c in corpus:
        src = c["source"] if "source" in c else eval(c["python"], {"__builtins__": {}})
        cases.append((0, src, "corpus"))
    for s in extreme_literals(rng):
        cases.append((0, s, "extreme"))
    for _ in range(900 if quick else 8000):
        cases.append((rng.choice([0, 0, 0, 1]), gen_program(rng), "grammar"))
    files = corpus_files()
    texts = {f: open(f, encoding="utf-8").read() for f in files}
    for _ in range(700 if quick else 6000):
        f = rng.choice(files)
        cases.append((0, mutate(rng, texts[f]), "mutation"))
    for s in soup(rng, 500 if quick else 4000):
        cases.append((rng.choice([0, 1]), s, "soup"))
    for _ in range(500 if quick else 5000):
        cases.append((rng.choice([0, 0, 1]), format_program(rng), "format-spec"))
    for _ in range(200 if quick else 2000):
        cases.append((0, strftime_program(rng), "strftime"))
    for _ in range(250 if quick else 2500):
        cases.append((3, SEQ_SEP.join(session_sequence(rng)), "session-sequence"))
    sigs = stdlib_signatures()
    for _ in range(700 if quick else 6000):
        cases.append((0, stdlib_call(rng, rng.choice(sigs)), "stdlib-call"))

    outs = run_crash(binary, [(m, s) for m, s, _ in cases])

    # thorough tier: the same corpus / extreme / grammar / sequence inputs once more on a RELEASE build of the harness
    # (no overflow checks, no debug assertions: arithmetic wraps instead of panicking, so the failure mode there is a hang
    # or an abort, not a panic)
    release_note = None
    if not quick:
        rel_dir = os.path.join(common.HARNESS, "target-release")
        rc, out = common.sh(["cargo", "build", "--release", "--offline", "--quiet", "--target-dir", rel_dir],
                            cwd=common.HARNESS, timeout=3000)
        rel_bin = os.path.join(rel_dir, "release", "nbverif")
        if rc != 0 or not os.path.exists(rel_bin):
            release_note = "release build of the harness failed: " + out[-300:]
        else:
            rel_cases = [(m, s, f + "@release") for m, s, f in cases if f in ("corpus", "extreme", "format-spec")] + \
                        [(m, s, f + "@release") for m, s, f in cases if f in ("grammar", "session-sequence", "stdlib-call")][:3000]
            rel_outs = run_crash(rel_bin, [(m, s) for m, s, _ in rel_cases])
            cases += rel_cases
            outs += rel_outs
            release_note = "release profile: %d inputs" % len(rel_cases)

    fam = collections.Counter()
    outcome_hist = collections.Counter()
    fails = []
    excluded_recursion = 0
    excluded_huge_work = 0
    slow = []
    for (m, s, family), o in zip(cases, outs):
        fam[family] += 1
        tag = o.split("|")[0].split(":")[0] if not o.startswith("@@") else "abort"
        outcome_hist[family + ":" + tag] += 1
        if not is_failure(o):
            try:
                ms = int(o.rsplit("|", 1)[1])
                if ms > 3000:
                    slow.append((ms, s[:80]))
            except (ValueError, IndexError):
                pass
            continue
        if site_of(o)[0] in ("hang", "abort") and unbounded_recursion_possible(s):
            excluded_recursion += 1
            continue
        if site_of(o)[0] == "hang" and HUGE_LITERAL_RE.search(FORMAT_SPEC_RE.sub("}", s)):
            # e.g. falling_factorial(20, 1e30): the work asked for is proportional to a huge finite literal
            excluded_huge_work += 1
            continue
        fails.append((m, s, family, o))

    # the refuted-lemma witnesses must still crash the implementation (else the finding is fixed: say so)
    reported = 0
    slow_under_load = []
    seen_sites = set()
    hits = collections.Counter()
    for m, s, family, o in fails:
        k = match_known(known, s, o)
        if k:
            hits[k["id"]] += 1
            if hits[k["id"]] <= 2:
                chk.known(k["id"], "%s: %s <- %r%s" % (k["id"], o[:150], s[:60], "…" if len(s) > 60 else ""))
            continue
        site = site_of(o)[:2] + (site_of(o)[2][:40],)
        if site in seen_sites or reported >= 5:
            continue
        if site_of(o)[0] == "hang" or "driver timeout" in o:
            # a watchdog hit is wall-clock: on a loaded machine a slow input looks like a hang.  Only an input that
            # still does not finish alone with 8x the time is reported.
            again = run_single(rel_bin if family.endswith("@release") else binary, (m, s), timeout_ms=8 * CASE_TIMEOUT_MS)
            if not is_failure(again):
                slow_under_load.append(s[:80])
                continue
            o = again
        seen_sites.add(site)
        small = shrink(binary, m, s, o)
        o2 = run_single(binary, (m, small))
        chk.violation({
            "kind": "interpreter %s on a text input" % {"P": "panics", "DP": "panics while rendering the diagnostic",
                                                         "hang": "hangs", "abort": "aborts"}[site_of(o)[0]],
            "mode": {0: "session with prelude", 1: "fresh context without prelude", 2: "persistent session",
                     3: "sequence of inputs on one session (inputs separated by a line with U+241E)"}[m],
            "source": small, "source_hex": hx(small), "implementation": o2, "family": family,
            "original_length": len(s),
            "replay": "printf '%s' | harness/target/debug/nbverif crash" % case_line((m, small)).replace("\n", "\\n") if len(small) < 2000 else "see source_hex",
        })
        reported += 1
    if release_note:
        chk.notes.append(release_note)
    if slow_under_load:
        chk.notes.append("watchdog hits that finished when rerun alone with 8x the time (machine load, not hangs): %d, e.g. %r"
                         % (len(slow_under_load), slow_under_load[:2]))
    if known_hits_summary := {k: v for k, v in hits.items()}:
        chk.notes.append("known findings hit: %s" % known_hits_summary)
    if not reported and not proved:
        chk.violation({"kind": "proof no longer checks", "theorem_or_correspondence": "Props/C08.v: " + getattr(chk, "proof_failure", "?"),
                       "oracle": "exploration found no new failing input among %d cases" % len(cases)}, found_input=False)

    shapes = {(f, common.shape_hash(s)) for m, s, f in cases}
    chk.cov.update({
        "evaluations": len(cases),
        "distinct_nontrivial": len({h for f, h in shapes}),
        "rule": "corpus (known crashers and past findings) + extreme literals/operator runs/deep nesting + grammar-generated programs "
                "(expressions, lets, non-recursive functions, units, dimensions, structs, strings with format specs, lists, date-times) + "
                "mutations of windows of examples/*.nbt and numbat/modules/**/*.nbt + random Unicode/token soup + calls of every library "
                "function (signatures read from numbat/modules) with edge-value arguments of the declared kinds + string interpolations "
                "with format specifiers from the full grammar [[fill]align][sign][#][0][width][.precision][type] (every fill character, "
                "sizes up to beyond u64::MAX, numeric/string/quantity/date values) + format_datetime with every strftime directive, "
                "flag and absurd widths + SEQUENCES of 3-8 inputs on one session (definitions, re-definitions, imports, uses, inputs failing "
                "at every stage in between); each in a clone of a "
                "prelude session or in a fresh context; distinct = distinct source texts (every text is run through the whole pipeline)",
        "exhaustive": False,
        "families": dict(fam), "outcomes": dict(outcome_hist),
        "failures_total": len(fails), "failures_matched_by_open_findings": sum(hits.values()),
        "excluded_unbounded_recursion": excluded_recursion,
        "excluded_hangs_with_huge_finite_literal": excluded_huge_work,
        "slowest_ms": sorted(slow, reverse=True)[:3],
        "samples": [{"mode": cases[i][0], "source": cases[i][1][:200], "outcome": outs[i]}
                    for i in (0, len(corpus) + 3, len(cases) // 2, len(cases) - 1)],
    })
    chk.assumptions += ["inputs that define (mutually) recursive functions are excluded from hang/stack-overflow reporting, as the property excludes unbounded recursion",
                        "a watchdog hit on an input containing a finite literal >= 1e6 is not reported (compute-bound by construction, e.g. falling_factorial(20, 1e30)); panics and aborts on such inputs are",
                        "watchdog %d ms per input" % CASE_TIMEOUT_MS]


def shrink(binary, mode, src, outcome):
    """delta-debug the source text by characters, keeping the same failure site"""
    site = site_of(outcome)[:2]
    if len(src) > 20000:
        return src
    if site[0] == "hang":
        # every attempt costs a watchdog period: only try dropping whole lines
        lines = src.split("\n")
        for i in range(len(lines) - 1, -1, -1):
            if len(lines) <= 1:
                break
            cand = lines[:i] + lines[i + 1:]
            o = run_single(binary, (mode, "\n".join(cand)))
            if o.startswith("H|"):
                lines = cand
        return "\n".join(lines)

    def fails(chars):
        o = run_single(binary, (mode, "".join(chars)))
        return is_failure(o) and site_of(o)[:2] == site

    try:
        small = common.shrink_list(list(src), fails, max_rounds=60)
    except Exception:
        return src
    return "".join(small)


def replay(path):
    r = json.load(open(path))
    if "source_hex" not in r:
        print(json.dumps(r, indent=1, ensure_ascii=False))
        return 0
    binary, _ = common.build_harness()
    mode = 3 if str(r.get("mode", "")).startswith("sequence") else \
        {"session with prelude": 0, "fresh context without prelude": 1, "persistent session": 2}.get(r.get("mode"), 0)
    o = run_single(binary, (mode, bytes.fromhex(r["source_hex"]).decode("utf-8")))
    print("implementation:", o)
    return 1 if is_failure(o) else 0
