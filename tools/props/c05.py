"""C05 — automatic unit simplification never changes the quantity.

proof:  coq/theories/Props/C05.v (C05_preserves_partial, C05_preserves_registry_partial,
        C05_respects_conversion, C05_back) over Qty/Model.v full_simplify / full_simplify_with_registry
tie:    random products/quotients/powers of table units with prefixes: Quantity::full_simplify by direct
        call vs the model (vm_compute; unit factor list and value), the session's registry-based
        simplification (hook numbat::verif::qty::simplify) and the three call sites through
        Context::interpret (displayed result, print, string interpolation) with the raw global read back
oracle: simplified value denotes the raw value (exact arithmetic from the definitions), same dimension
        (non-zero values), explicit conversions are left alone, conversion back restores the magnitude
"""
import collections
import json
import os
from fractions import Fraction

import common
from props import qtylib
from props.qtylib import F, Obs

MANIFEST = dict(
    category="proof",
    text="Machine-checked proof (Coq, partial), exact-arithmetic level, over the model of Quantity::full_simplify "
         "(heuristics 1-3 with is_multiple_of and the sort-key grouping) and full_simplify_with_registry with an "
         "abstract registry (any candidate units, any tolerance tests): full_simplify never panics, for any number type "
         "(C05_no_panic, after the fix of finding C05-h3-unwrap-panic); the simplified value denotes the same physical "
         "magnitude and, for non-zero values, has the same dimension vector (C05_preserves_partial; magnitude also "
         "through the registry step, C05_preserves_registry_partial — both under the hypothesis that the group targets "
         "built by heuristic 3 have integer exponents, which keeps sizes rational), a value produced by an explicit "
         "conversion is returned unchanged by both functions (C05_respects_conversion, any number type), and "
         "converting a simplified result back restores the magnitude (C05_back). Closed under the global context. "
         "Validated by correspondence only: which unit the registry picks and that the three call sites (result "
         "display, print, string interpolation) apply exactly this function.",
    design_ref="DESIGN.md §6 C05; design/qty.md",
    note="Trusted: Coq kernel + vm_compute; Qty/Model.v hand port; hook dump/translator; hooks raw_global and simplify; "
         "sort_unstable modelled by a stable sort (tie order of equal sort keys is not specified by Rust).",
    technique="Coq proof (partial) + model/implementation correspondence on random unit products",
)

THEOREMS = ["C05_no_panic", "C05_preserves_partial", "C05_preserves_registry_partial", "C05_respects_conversion", "C05_text_respects_conversion", "C05_back"]
REL = 1e-9


def denotes_same(tbl, raw_v, raw_u, ob):
    """simplified observation ob vs raw (value, unit)"""
    if ob.kind == "P":
        return "simplification panicked"
    if ob.kind != "Q":
        return "simplification gave %s" % ob.raw[:60]
    if not ob.finite():
        return None
    if not (tbl.exact_unit(raw_u) and tbl.exact_unit(ob.unit)):
        return None
    a = Fraction(ob.value) * tbl.scale(ob.unit)
    b = Fraction(raw_v) * tbl.scale(raw_u)
    if not qtylib.rel_close(a, b, REL):
        return "simplified value denotes %r base units, the raw value %r" % (float(a), float(b))
    if raw_v != 0.0 and tbl.dim(ob.unit) != tbl.dim(raw_u):
        return "simplified unit %s has another dimension than %s" % (qtylib.show_unit(ob.unit), qtylib.show_unit(raw_u))
    return None


def run(chk):
    binary, tbl = qtylib.session()
    proved = chk.prove("Props.C05", THEOREMS, ["theories/Props/C05.vo", "theories/Qty/Prelude.vo", "theories/Qty/DisplayExec.vo", "theories/Qty/PreludeF.vo"],
                       extra_obligations=["Qty.Prelude.prelude_wf", "Qty.Prelude.prelude_exact_int",
                                          "Qty.Prelude.prelude_exact_pos"])
    chk.trusted += [
        "model Qty/Model.v: full_simplify (heuristics 1-3), is_multiple_of, chunk_by_key, full_simplify_with_registry (registry abstract)",
        "hooks numbat::verif::qty::{simplify, raw_global}; Gen/PreludeUnits.v generated on every run",
        "correspondence: coqc vm_compute of Qty.Exec.r_simp vs Quantity::full_simplify (direct call)",
    ]
    quick = chk.tier == "quick"
    rng = chk.rng
    gen = qtylib.Gen(rng, tbl)
    one = qtylib.f2bits(1.0)
    cases = []
    for c in json.load(open(os.path.join(common.VERIF, "corpus", "c05.json"))):
        cases.append(dict(kind="corpus", v=c["v"], u=qtylib.parse_unit(c["u"])))
    special = ["percent", "permille", "partspermillion", "radian", "degree", "hertz", "becquerel", "dozen", "steradian"]
    special = [s for s in special if s in tbl.by_name]
    for _ in range(900 if quick else 8000):
        r = rng.random()
        if r < 0.55:
            u = gen.unit(4)
        elif r < 0.75:      # dimensionless combinations: u / u' of the same dimension
            a = gen.unit(2)
            b = gen.unit_of_dim(tbl.dim(a))
            if b is None:
                continue
            u = a + qtylib.upower(b, -1)
        elif r < 0.9:       # percent-like and equal-base-representation units mixed in
            u = gen.unit(2) + [gen.factor(rng.choice(special), exp=rng.choice([1, 1, -1, 2]))]
        else:               # derived-unit patterns (J/s, N*m, Pa*m^2 ...)
            a = gen.factor(rng.choice([n for n in ("joule", "newton", "pascal", "watt", "volt", "coulomb") if n in tbl.by_name]))
            u = [a, gen.factor(rng.choice(["second", "metre", "ampere"]), exp=rng.choice([1, -1, 2, -2]))]
        rng.shuffle(u)
        if qtylib.range_risk(tbl, ("lit", one, u), 150):
            continue
        v = rng.choice([1.0, 2.5, -3.0, 0.0, 1e-6, 4.2e7, rng.uniform(0.1, 100)])
        cases.append(dict(kind="random", v=v, u=u))
    # registry candidates: products with a prefix on every factor, sizes from 1e-45 to 1e45 in base units
    for _ in range(600 if quick else 6000):
        u = gen.registry_product()
        if u is None:
            continue
        cases.append(dict(kind="registry-product", v=rng.choice([1.0, 6.0, 2.5, -3.0, rng.uniform(0.1, 100)]), u=u))
    lines = []
    for c in cases:
        q = qtylib.rpn_q(qtylib.f2bits(c["v"]), c["u"])
        c["at"] = len(lines)
        lines += ["R %s simp" % q, "R %s simpr" % q,
                  "R %s simpr %s conv" % (q, qtylib.rpn_q(one, c["u"])),         # back to the raw unit
                  "R %s %s convto simpr" % (q, qtylib.rpn_q(one, c["u"][::-1]))]  # explicit conversion, then simplify
    # call sites through interpret
    srcs, convs = [], []
    for c in rng.sample(cases, min(len(cases), 250 if quick else 1500)):
        s = qtylib.spell_unit(tbl, c["u"], rng)
        if s is None:
            continue
        lit = repr(c["v"])
        src = "let x = (%s) * %s␤print(x)␤print(\"{x}\")␤x" % (lit if not lit.startswith("-") else "(%s)" % lit, s)
        srcs.append(dict(case=c, src=src, at=len(lines)))
        lines.append("S@x " + src)
        if len(c["u"]) >= 2:
            # an explicit conversion (to the same unit, factors reversed) must come back unsimplified from interpret
            tgt = qtylib.spell_unit(tbl, c["u"][::-1], rng)
            convs.append(dict(case=c, at=len(lines), src="((%s) * %s) -> (%s)" % (lit, s, tgt)))
            lines.append("S ((%s) * %s) -> (%s)" % (lit, s, tgt))
    outs = common.run_harness(binary, "qty", lines)

    failing, items, idx, panics = [], [], [], []
    picked_by_registry = not_simplified = 0
    for n, c in enumerate(cases):
        o_simp, o_reg, o_back, o_conv = [Obs(outs[c["at"] + k]) for k in range(4)]
        c["obs"] = [o_simp.raw, o_reg.raw]
        if o_simp.kind == "P":
            # the implementation panicked inside full_simplify: does the faithful model predict it?
            panics.append(n)
            c["panic"] = True
            if tbl.exact_unit(c["u"]):
                items.append(("r_simp PX_env prelude_n_exact %s %s %s" % (
                    qtylib.coq_Q(0), qtylib.coq_Q(0), tbl.coq_q(qtylib.f2bits(c["v"]), c["u"])), "P"))
                idx.append(n)
            continue
        for name, ob in (("full_simplify", o_simp), ("registry simplification", o_reg)):
            why = denotes_same(tbl, c["v"], c["u"], ob)
            if why:
                failing.append((c, "%s: %s" % (name, why)))
        if o_back.kind == "Q" and o_back.finite() and tbl.exact_unit(c["u"]) and o_reg.kind == "Q" and tbl.exact_unit(o_reg.unit):
            if o_back.unit != c["u"] or not qtylib.rel_close(o_back.value, c["v"], 1e-9):
                failing.append((c, "converting the simplified value back gives %s, the raw magnitude is %r" % (o_back.raw[:60], c["v"])))
        elif o_back.kind not in ("Q",):
            failing.append((c, "converting the simplified value back to the raw unit gave %s" % o_back.raw[:60]))
        if o_conv.kind == "Q":
            if o_conv.unit != c["u"][::-1] or o_conv.simp != "n":
                failing.append((c, "a value with an explicitly chosen unit was changed by simplification: %s" % o_conv.raw[:80]))
        if o_reg.kind == "Q" and o_simp.kind == "Q":
            if o_reg.unit != o_simp.unit:
                picked_by_registry += 1
                if len(o_reg.unit) >= len(o_simp.unit):
                    failing.append((c, "registry simplification replaced %s by the not simpler %s" % (
                        qtylib.show_unit(o_simp.unit), qtylib.show_unit(o_reg.unit))))
            if o_simp.unit == c["u"]:
                not_simplified += 1
        # model vs direct full_simplify
        if o_simp.kind == "Q" and o_simp.finite() and tbl.exact_unit(c["u"]):
            scope = tbl.exact_unit(o_simp.unit)
            tol = abs(Fraction(o_simp.value)) * Fraction(REL)
            items.append(("r_simp_text PX_env prelude_n_exact %s %s %s" % (
                qtylib.coq_Q(tol), qtylib.coq_Q(Fraction(o_simp.value)), tbl.coq_q(qtylib.f2bits(c["v"]), c["u"])),
                (o_simp.expected_model_string() + "|" + qtylib.display_shape_of(o_simp.display)) if scope else "OOS"))
            idx.append(n)
    site_checked = 0
    for s in srcs:
        parts = outs[s["at"]].split("\t")
        res = Obs(parts[0])
        prints = [p[2:] for p in parts[1:] if p.startswith("p:")]
        raw = qtylib.obs_of_src(outs[s["at"]])
        c = s["case"]
        if c.get("panic"):
            continue        # judged above (known finding or violation)
        reg = Obs(outs[c["at"] + 1])
        if res.kind != "Q" or raw.kind != "Q" or reg.kind != "Q":
            failing.append((c, "through interpret: %s" % outs[s["at"]][:100]))
            continue
        if raw.unit != c["u"] or raw.bits != qtylib.f2bits(c["v"]):
            continue        # the source built another raw value than intended: not comparable
        site_checked += 1
        if res.unit != reg.unit or res.bits != reg.bits:
            failing.append((c, "displayed result %s differs from simplify(raw) = %s" % (res.raw[:60], reg.raw[:60])))
        text = reg.display
        if len(prints) != 2 or prints[0] != text or prints[1] != text:
            failing.append((c, "print / string interpolation show %r, simplify(raw) displays %r" % (prints, text)))
    for cv in convs:
        c = cv["case"]
        ob = Obs(outs[cv["at"]])
        if c.get("panic") or ob.kind != "Q":
            continue
        if ob.unit != c["u"][::-1] or ob.simp != "n":
            failing.append((c, "`%s` came back simplified from interpret: %s" % (cv["src"], ob.raw[:80])))
    bad = qtylib.coq_mismatches(items, "c05", shard_size=60)
    mism = {idx[k]: v for k, v in bad.items()}
    oos = [n for n in mism if mism[n] == "OOS"]
    for n in oos:           # guard of the exact model (non-integer exponents on the heuristic-3 path): not compared
        del mism[n]
    known_panics = []
    for n in panics:
        c = cases[n]
        f = qtylib.known_match("C05", lambda f: f["id"] == "C05-h3-unwrap-panic")
        if n not in mism and n not in oos and tbl.exact_unit(c["u"]) and f:
            known_panics.append(n)      # the model of the current code predicts this very panic (heuristic 3 unwrap)
        else:
            mism.pop(n, None)
            failing.append((c, "full_simplify panicked"))
    if known_panics:
        c = cases[known_panics[0]]
        chk.known("C05-h3-unwrap-panic", "C05-h3-unwrap-panic: Quantity::full_simplify panics (heuristic 3 `.unwrap()`), predicted by the "
                  "model, on %d generated quantities; first: %r %s   (witness: gallon * mpg)" % (
                      len(known_panics), c["v"], qtylib.show_unit(c["u"])))
    # tie order of equal sort keys is unspecified for sort_unstable: a mismatch that is only a
    # permutation of the same factors is not counted
    order_only = 0
    for n in list(mism):
        m = mism[n]
        o = Obs(outs[cases[n]["at"]])
        if m.startswith("ok:"):
            mu = qtylib.parse_unit(m.split("|")[0].split(":")[1])
            if sorted(mu) == sorted(o.unit):
                order_only += 1
                del mism[n]

    if os.environ.get("NV_DEBUG"):
        for n in list(mism)[:12]:
            print("MISMATCH", cases[n]["v"], qtylib.show_unit(cases[n]["u"]), "| impl", cases[n]["obs"][0][:150], "| model", mism[n][:150])
    for c, why in failing[:3]:
        chk.violation({"kind": "unit simplification changed the quantity / touched an explicitly converted value",
                       "value": c["v"], "unit": qtylib.show_unit(c["u"]),
                       "harness_line": "R %s simpr" % qtylib.rpn_q(qtylib.f2bits(c["v"]), c["u"]),
                       "implementation": c.get("obs"), "detail": why, "replay": "./check C05 --replay <this file>"})
    if not failing and (mism or not proved):
        n = min(mism) if mism else None
        chk.violation({"kind": "proof or correspondence no longer checks",
                       "theorem_or_correspondence": ("correspondence Qty/Model.v full_simplify vs Quantity::full_simplify" if mism
                                                     else "Props/C05.v or table lemma: " + getattr(chk, "proof_failure", "?")),
                       "mismatching_cases": len(mism),
                       "first_case": None if n is None else {"value": cases[n]["v"], "unit": qtylib.show_unit(cases[n]["u"]),
                                                             "implementation": cases[n]["obs"][0], "model": mism[n]}},
                      found_input=False)
    shapes = {tuple(sorted((f.name, f[3]) for f in c["u"])) for c in cases if len(c["u"]) >= 2}
    chk.cov.update({
        "evaluations": len(lines),
        "distinct_nontrivial": len(shapes),
        "rule": "seeded random products/quotients/powers of table units with prefixes (general, dimensionless u/u', percent-like, "
                "derived-unit patterns); per case: full_simplify, registry simplification, conversion back, explicit conversion then "
                "simplification; a sample through interpret (result, print, interpolation, raw global); non-trivial = at least two "
                "factors; distinct = distinct multiset of (unit, exponent)",
        "exhaustive": False, "cases": len(cases), "units_used": len(gen.used_units),
        "changed_by_registry": picked_by_registry, "left_unchanged": not_simplified,
        "call_site_programs_checked": site_checked, "explicit_conversions_through_interpret": len(convs),
        "model_evaluations": len(items), "model_mismatches": len(mism), "model_order_only_differences": order_only,
        "model_not_compared_guard": len(oos), "panics_predicted_by_model": len(known_panics),
        "oracle_failures": len(failing), "oracle_failure_kinds": dict(collections.Counter(c["kind"] for c, _ in failing)),
        "relative_tolerance": REL,
        "samples": [{"value": cases[i]["v"], "unit": qtylib.show_unit(cases[i]["u"]), "implementation": cases[i]["obs"]}
                    for i in (0, len(cases) // 2, len(cases) - 1)],
    })
    chk.assumptions += ["zero values: numbat treats 0 as dimension-polymorphic (heuristic 1 turns `0 m` into `0`); the dimension clause is "
                        "checked for non-zero values only",
                        "tie order among factors with equal sort keys is unspecified (sort_unstable); order-only differences are not counted"]


def replay(path):
    r = json.load(open(path))
    if "harness_line" not in r:
        print(json.dumps(r, indent=1))
        return 0
    binary, tbl = qtylib.session()
    o = common.run_harness(binary, "qty", [r["harness_line"]], shards=1)[0]
    print(r["harness_line"], "=>", o)
    why = denotes_same(tbl, r["value"], qtylib.parse_unit(r["unit"]), Obs(o))
    print("property:", why or "holds")
    return 1 if why else 0
