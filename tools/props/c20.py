"""C20 — HTML rendering never emits user-controlled markup.

proof:  coq/theories/Props/C20.v — for every markup (HtmlFormatter) and every sequence of
        set_color/reset/write calls (HtmlWriter) the output is read back by the verified
        reader `read_html` as the renderer's own spans only, properly nested, around text
        that decodes to exactly the input text.
tie:    (1) correspondence, byte-exact: HtmlFormatter::format and HtmlWriter on generated
            markups / op sequences vs Format.Html.render / wrun (vm_compute in coqc);
        (2) end to end: adversarial programs through Context::interpret exactly as
            numbat-wasm does for FormatType::Html (results through HtmlFormatter,
            diagnostics through codespan-reporting into HtmlWriter); the produced HTML must
            be accepted by the Coq reader `read_html` (evaluated in coqc on the real output).
oracle: a Python port of the reader, used to shrink failing inputs; it is cross-checked
        against the Coq reader on every end-to-end output.
"""
import collections
import json

import common

MANIFEST = dict(
    category="proof",
    text="Machine-checked proof (Coq) over a byte-level model of html_formatter.rs: for EVERY markup and EVERY "
         "sequence of HtmlWriter calls with arbitrary text, the output contains only the renderer's own "
         "<span class=\"numbat-…\"> / </span> tags, properly nested, and the text between them is the escaped input "
         "(C20_markup, C20_writer, C20_unescape, C20_escape_clean, C20_reader_only_own_tags; closed under the global "
         "context). Tied to the code by a byte-exact correspondence check of HtmlFormatter/HtmlWriter against the model "
         "and by running the verified reader inside coqc on real end-to-end HTML (results and diagnostics of every error "
         "kind, produced the way numbat-wasm produces them). The genuine defect found (HtmlWriter copied diagnostic text "
         "verbatim) is repaired by a fix: commit; C20_verbatim_writer_refuted records the witness.",
    design_ref="DESIGN.md §6 C20",
    note="Trusted: Coq kernel + vm_compute; the hand port of html_formatter.rs (Format/Html.v) validated byte-exactly by "
         "correspondence; html_escape::encode_text is modelled by its three-character map; codespan-reporting's own "
         "output is not modelled — the writer theorem covers whatever it writes, and its real output is only scanned. "
         "Formatter::format is modelled for both indentation settings (C20_format).",
    technique="Coq proof (scanner/printer round trip, all inputs) + byte-exact model/implementation correspondence + verified reader run on real output",
)

THEOREMS = ["C20_escape_clean", "C20_unescape", "C20_reader_only_own_tags", "C20_markup", "C20_format",
            "C20_writer", "C20_verbatim_writer_refuted"]

ALLOWED_CLASSES = ["emphasized", "dimmed", "string", "keyword", "value", "unit", "identifier",
                   "type-identifier", "operator", "decorator",
                   "diagnostic-red", "diagnostic-blue", "diagnostic-bold"]

PAYLOADS = ["<", ">", "&", "<b>", "</span>", "<img src=x onerror=alert(1)>", "&lt;", "&amp;", "&#60;",
            "<span class=\"numbat-value\">", "<script>alert(1)</script>", "a<b", "x>y", "&&", "<<>>",
            "\"", "'", "é", "→", "😀", " ", "\n", "", "numbat", "1 < 2 > 1", "<!--", "-->", "<a href='x'>",
            "]]>", "<\n>", "&;", "<span", "span>", "</", "/>"]


def hexs(b):
    return b.hex()


# --------------------------------------------------------- Python reader (oracle)
def py_read(data):
    """port of Format.Html.scan; returns (ok, tags, text_bytes)"""
    st, acc, tags, text, inside = "T", bytearray(), [], bytearray(), False
    ok_nest = True
    for c in data:
        if st == "T":
            if c == 0x3c:
                st, acc = "G", bytearray()
            elif c == 0x26:
                st, acc = "E", bytearray()
            elif c == 0x3e:
                return False, tags, bytes(text)
            else:
                text.append(c)
        elif st == "E":
            if c == 0x3b:
                d = {b"amp": 0x26, b"lt": 0x3c, b"gt": 0x3e}.get(bytes(acc))
                if d is None:
                    return False, tags, bytes(text)
                text.append(d)
                st = "T"
            else:
                acc.append(c)
        else:
            if c == 0x3e:
                body = bytes(acc)
                if body == b"/span":
                    tags.append("C")
                    if not inside:
                        ok_nest = False
                    inside = False
                elif body.startswith(b'span class="numbat-') and body.endswith(b'"') and \
                        body[len(b'span class="numbat-'):-1].decode("latin1") in ALLOWED_CLASSES:
                    tags.append("O(%s)" % body[len(b'span class="numbat-'):-1].decode())
                    if inside:
                        ok_nest = False
                    inside = True
                else:
                    return False, tags, bytes(text)
                st = "T"
            elif c == 0x3c:
                return False, tags, bytes(text)
            else:
                acc.append(c)
    if st != "T":
        return False, tags, bytes(text)
    return True, tags, bytes(text), (ok_nest and not inside)


def py_read_str(data):
    r = py_read(data)
    if not r[0]:
        return "REJECT"
    return "OK tags=%s nested=%d text=%s" % (",".join(r[1]), 1 if r[3] else 0, r[2].hex())


# ------------------------------------------------------------- generators
def rand_text(rng):
    n = rng.choice([0, 1, 1, 2, 2, 3, 4])
    return "".join(rng.choice(PAYLOADS) if rng.random() < 0.7 else
                   rng.choice(["abc", "x", "12.5", "m/s", "_", "α"]) for _ in range(n))


def gen_f(rng):
    return (rng.random() < 0.5,
            [(rng.randrange(12), rand_text(rng).encode()) for _ in range(rng.randrange(0, 7))])


INFO_TEMPLATES = [
    ('@name("{S}")\n@description("{S2}")\nlet snail{N} = 1', "snail{N}"),
    ('@name("{S}")\n@url("{S2}")\nunit zork{N}: Length = 2 m', "zork{N}"),
    ('@description("{S}")\n@example("{S2}")\nfn fun{N}(x) = x', "fun{N}"),
    ('@name("{S}")\n@aliases(zk{N}: short)\nunit zonk{N} = 3 s', "zk{N}"),
    ('dimension Dim{N}\n@name("{S}")\nunit ud{N}: Dim{N}', "ud{N}"),
    ('let x{N} = "{S}"', "x{N}"), ('let y{N} = 1', "{R}"), ('1', "{R}"),
]


def gen_i(rng, n):
    t, kw = rng.choice(INFO_TEMPLATES)
    f = dict(S=nb_str(rand_text(rng)), S2=nb_str(rand_text(rng)), R=rand_text(rng) or "<", N=n)
    return t.format(**f), kw.format(**f)


def gen_w(rng):
    ops = []
    for _ in range(rng.randrange(1, 9)):
        r = rng.random()
        if r < 0.25:
            ops.append(("c", rng.randrange(4), rng.random() < 0.4))
        elif r < 0.35:
            ops.append(("r",))
        else:
            t = rand_text(rng)
            b = t.encode()
            if t and rng.random() < 0.3:
                # split a write at a character boundary (BufferedWriter::to_string is
                # from_utf8_lossy, so a span tag between the halves of a multi-byte
                # character would be reported as U+FFFD — not what codespan does)
                k = rng.randrange(len(t) + 1)
                ops.append(("w", t[:k].encode()))
                ops.append(("w", t[k:].encode()))
            else:
                ops.append(("w", b))
    return ops


def nb_str(p):
    return p.replace("\\", "\\\\").replace('"', '\\"').replace("{", "\\{").replace("}", "\\}")


TEMPLATES = [
    ("ok", '"{S}"'), ("ok", 'print("{S}")'), ("ok", 'let s = "{S}"\ns'), ("ok", '"{S} {{1 m}} {S2}"'),
    ("ok", 'str_append("{S}", "{S2}")'), ("ok", '["{S}", "{S2}"]'),
    ("ok", 'struct A {{ t: String }}\nA {{ t: "{S}" }}'),
    ("ok", '@name("{S}")\nunit foo{N}: Length = 2 m\nfoo{N}'),
    ("ok", '@url("{S}")\n@name("{S2}")\nunit bar{N} = 3 s\n2 bar{N}'),
    ("runtime", 'error("{S}")'), ("runtime", 'assert_eq("{S}", "{S2}x")'), ("runtime", 'assert("{S}" == "{S2}y")'),
    ("runtime", 'print("{S}")\nerror("{S2}")'),
    ("typecheck", '1 m + "{S}"'), ("typecheck", '"{S}" + 1'), ("typecheck", 'let x: Length = "{S}"'),
    ("typecheck", 'fn f(x: String) -> String = x\nf(1, "{S}")'), ("typecheck", 'if "{S}" then 1 else 2'),
    ("typecheck", 'unknown_{N}("{S}")'), ("typecheck", '"{S}".field'),
    ("parse", 'let x = {R}'), ("parse", '1 m + {R} 2 s'), ("parse", '{R}'), ("parse", 'fn f({R}) = 1'),
    ("parse", '"{S}" {R}'), ("parse", '1 + # {R}\n'), ("parse", 'use {R}::x'), ("parse", 'struct {R} {{}}'),
    ("parse", '"unterminated {S}'), ("parse", "a {R} b {R} c"),
    ("resolver", 'use nope::m{N}'), ("nameres", 'let m = 1 # {R}'), ("nameres", 'unit m # {R}'),
    ("nameres", 'let foo{N} = 1 # {R}\nlet foo{N} = 2 # shadow {R}\nunit foo{N}'),
    ("ok", 'a{N} < b{N} > c{N}'.replace("a{N}", "1").replace("b{N}", "2").replace(" > c{N}", "")),
    ("typecheck", '1 < 2 > 3 # {R}'),
]


def gen_e(rng, n):
    kind, t = rng.choice(TEMPLATES)
    src = t.format(S=nb_str(rand_text(rng)), S2=nb_str(rand_text(rng)), R=rand_text(rng) or "<", N=n)
    return kind, src


# ------------------------------------------------------------- coq terms
def coq_nats(b):
    return "[" + ";".join(str(x) for x in b) + "]"


def coq_bs(b):
    """a Coq string literal holding exactly these bytes (valid UTF-8, no NUL)"""
    return common.coq_string(b.decode("utf-8"))


def coq_f(case):
    indent, parts = case
    return "format_hs %s [%s]" % ("true" if indent else "false",
                                  ";".join("(%d, %s)" % (t, coq_bs(b)) for t, b in parts))


def coq_w(ops):
    it = []
    for o in ops:
        if o[0] == "r":
            it.append('(0,0,false,"")')
        elif o[0] == "c":
            it.append('(1,%d,%s,"")' % (o[1], "true" if o[2] else "false"))
        else:
            it.append("(2,0,false,%s)" % coq_bs(o[1]))
    return "wrun_hs [%s]" % ";".join(it)


def line_f(case):
    indent, parts = case
    return "F %d " % (1 if indent else 0) + ",".join("%d:%s" % (t, hexs(b)) for t, b in parts)


def line_w(ops):
    out = []
    for o in ops:
        if o[0] == "r":
            out.append("r")
        elif o[0] == "c":
            out.append("c:%d:%d" % (o[1], 1 if o[2] else 0))
        else:
            out.append("w:" + hexs(o[1]))
    return "W " + ",".join(out)


def run(chk):
    binary, _ = common.build_harness()
    proved = chk.prove("Props.C20", THEOREMS, ["theories/Props/C20.vo", "theories/Format/HtmlExec.vo"])
    chk.trusted += [
        "model Format/Html.v is a hand port of numbat/src/html_formatter.rs (html_format, HtmlFormatter::format_part, HtmlWriter::{write,set_color,reset}); html_escape::encode_text = the map & < >",
        "correspondence is byte-exact (hex) via coqc vm_compute; end-to-end HTML is produced by harness/src/html.rs following numbat-wasm/src/lib.rs (FormatType::Html)",
        "codespan-reporting is not modelled; C20_writer quantifies over every call sequence it could make",
    ]
    quick = chk.tier == "quick"
    rng = chk.rng
    corpus = json.load(open(common.VERIF + "/corpus/c20.json"))
    nf, nw, ne = (600, 600, 1200) if quick else (6000, 6000, 12000)
    fcases = [gen_f(rng) for _ in range(nf)]
    wcases = [gen_w(rng) for _ in range(nw)]
    ecases = [("corpus", c["src"]) for c in corpus if "src" in c] + [gen_e(rng, n) for n in range(ne)]
    icases = [(c["setup"], c["keyword"]) for c in corpus if "setup" in c] + \
             [gen_i(rng, n) for n in range(ne // 4)]

    lines = [line_f(c) for c in fcases] + [line_w(c) for c in wcases] + \
            ["E " + hexs(src.encode()) for _, src in ecases] + \
            ["I %s|%s" % (hexs(a.encode()), hexs(b.encode())) for a, b in icases]
    import time
    t1 = time.time()
    out = common.run_harness(binary, "html", lines, shards=common.NPROC)
    chk.notes.append("harness %.1fs" % (time.time() - t1))
    fo, wo, eo = out[:nf], out[nf:nf + nw], out[nf + nw:nf + nw + len(ecases)]
    io = out[nf + nw + len(ecases):]
    # every end-to-end case yields up to two documents (indent=false / indent=true); `info` cases one
    docs = []          # (kind, source description, replay line, html bytes)

    def unhex(h):
        try:
            return bytes.fromhex(h) if h not in ("", "-") else b""
        except ValueError:
            return b""
    for (k0, src), o in zip(ecases, eo):
        f = o.split(" ")
        docs.append((f[0], src, "E " + hexs(src.encode()), unhex(f[1] if len(f) > 1 else "")))
        if len(f) > 2 and f[2] not in ("", "-"):
            docs.append((f[0] + "+indent", src, "E " + hexs(src.encode()), unhex(f[2])))
    for (setup, kw), o in zip(icases, io):
        f = o.split(" ")
        docs.append(("info:" + f[0], "%s  ;  info %s" % (setup, kw),
                     "I %s|%s" % (hexs(setup.encode()), hexs(kw.encode())), unhex(f[1] if len(f) > 1 else "")))

    items = [(coq_f(c), fo[n]) for n, c in enumerate(fcases)] + \
            [(coq_w(c), wo[n]) for n, c in enumerate(wcases)]
    # the verified reader, run on the real end-to-end output
    ekind = [d[0] for d in docs]
    ehtml = [d[3] for d in docs]
    e_expect = [py_read_str(h) for h in ehtml]
    items += [("read_hs %s" % coq_bs(h), e_expect[n]) for n, h in enumerate(ehtml)]
    t1 = time.time()
    bad = common.coq_mismatches(["Format.Html", "Format.HtmlExec"], items, "c20", shard_size=150)
    chk.notes.append("coqc model evaluation %.1fs" % (time.time() - t1))

    fw_bad = {n: m for n, m in bad.items() if n < nf + nw}
    rd_bad = {n - nf - nw: m for n, m in bad.items() if n >= nf + nw}
    if rd_bad:
        n = min(rd_bad)
        raise common.Broken("Python reader and Coq reader disagree on real output of %r: coq=%s python=%s" % (
            docs[n][1], rd_bad[n], e_expect[n]))

    found = 0
    # end-to-end failures: the verified reader rejects the HTML (foreign tag / raw metacharacter)
    def doc_ok(r):
        return r.startswith("OK") and " nested=1 " in r

    def rerun(line, which):
        o = common.run_harness(binary, "html", [line], shards=1)[0].split(" ")
        if o[0] == "panic":
            return None
        idx = 2 if which.endswith("+indent") else 1
        return unhex(o[idx] if len(o) > idx else "")

    for n, (k, src, line, html) in enumerate(docs):
        if k.startswith("panic") or doc_ok(e_expect[n]):
            continue        # crashes belong to C08
        if line.startswith("E "):
            def fails(chars, k=k):
                h = rerun("E " + hexs("".join(chars).encode()), k)
                return h is not None and not doc_ok(py_read_str(h))
            small = "".join(common.shrink_list(list(src), fails))
            line2 = "E " + hexs(small.encode())
            h = rerun(line2, k) or b""
        else:
            small, line2, h = src, line, html
        chk.violation({
            "kind": "HTML output contains markup that is not one of the renderer's own spans (or a raw metacharacter)",
            "input": small, "rendering": k, "html": h.decode("utf-8", "replace"),
            "original_input": src, "harness_line": line2,
            "replay": "printf '%s\\n' | harness/target/debug/nbverif html | cut -d' ' -f2- | tr ' ' '\\n' | xxd -r -p" % line2,
        })
        found += 1
        if found >= 3:
            break
    # API-level failures: formatter / writer output that the reader rejects or whose text differs
    if not found:
        for n in sorted(fw_bad):
            is_f = n < nf
            impl = bytes.fromhex(fo[n] if is_f else wo[n - nf])
            want = b"".join(b for _, b in fcases[n][1]) if is_f else b"".join(o[1] for o in wcases[n - nf] if o[0] == "w")
            r = py_read(impl)
            text_ok = r[0] and (r[2].replace(b" ", b"") == want.replace(b" ", b"") if is_f and fcases[n][0]
                                else r[2] == want)
            if (not r[0]) or not text_ok or not r[3]:
                chk.violation({
                    "kind": "HtmlFormatter/HtmlWriter output is not the renderer's own spans around the escaped input",
                    "api": "HtmlFormatter::format" if is_f else "HtmlWriter",
                    "case": line_f(fcases[n]) if is_f else line_w(wcases[n - nf]),
                    "html": impl.decode("utf-8", "replace"),
                    "replay": "echo '<case>' | harness/target/debug/nbverif html | xxd -r -p",
                })
                found += 1
                break
    if not found and (fw_bad or not proved):
        n = min(fw_bad) if fw_bad else None
        chk.violation({
            "kind": "proof or correspondence no longer checks",
            "theorem_or_correspondence": ("correspondence Format.Html vs numbat/src/html_formatter.rs (byte-exact output)"
                                          if fw_bad else "Props/C20.v: " + getattr(chk, "proof_failure", "?")),
            "mismatching_cases": len(fw_bad),
            "first_case": None if n is None else {
                "case": line_f(fcases[n]) if n < nf else line_w(wcases[n - nf]),
                "implementation_hex": fo[n] if n < nf else wo[n - nf], "model_hex": fw_bad[n]},
        }, found_input=False)

    meta = sum(1 for d in docs if any(c in d[1] for c in "<>&"))
    shapes = set((ekind[n], e_expect[n].split(" text=")[0]) for n in range(len(docs)))
    kinds = collections.Counter(ekind)
    chk.cov.update({
        "evaluations": len(lines),
        "distinct_nontrivial": len(set(fo)) + len(set(wo)) + len(shapes),
        "rule": "formatter markups + writer op sequences (byte-exact vs model) + end-to-end programs from templates of every outcome "
                "kind with adversarial payloads; distinct = distinct outputs (F, W) / distinct (outcome kind, tag sequence) (E); "
                "non-trivial = all of them contain generated payload text",
        "end_to_end_outcomes": dict(kinds),
        "end_to_end_with_metacharacters": meta,
        "formatter_cases": nf, "formatter_cases_with_indent": sum(1 for c in fcases if c[0]),
        "writer_cases": nw, "end_to_end_cases": len(ecases), "info_cases": len(icases),
        "documents_read_by_the_coq_reader": len(docs),
        "model_mismatches": len(fw_bad),
        "samples": [{"case": lines[0], "implementation": fo[0]},
                    {"case": lines[nf], "implementation": wo[0]},
                    {"input": docs[-1][1], "outcome": ekind[-1], "reader": e_expect[-1][:200]}],
    })
    chk.assumptions += ["UTF-8 text; escaping is byte-wise on ASCII & < >"]


def replay(path):
    r = json.load(open(path))
    if "input" not in r:
        print(json.dumps(r, indent=1))
        return 0
    binary, _ = common.build_harness()
    line = r.get("harness_line") or ("E " + hexs(r["input"].encode()))
    o = common.run_harness(binary, "html", [line], shards=1)[0].split(" ")
    rc = 0
    for h in o[1:]:
        html = bytes.fromhex(h) if h not in ("", "-") else b""
        res = py_read_str(html)
        print(o[0], html.decode("utf-8", "replace"))
        print("reader:", res[:300])
        if not (res.startswith("OK") and " nested=1 " in res):
            rc = 1
    return rc
