"""C18 — lists behave as immutable values despite internal sharing.

proof:  coq/theories/Props/C18.v  (C18_refines, C18_no_panic, C18_others_unchanged, C18_reachable_inv)
tie:    correspondence — the same operation histories run on real NumbatList<u64>
        handles (harness `list`) and on ListM.Model (vm_compute in coqc); per step
        the output, the representation of every handle (sharing class, view,
        strong count, allocation length — hook NumbatList::verif_repr) and the
        contents of every live handle must agree.
oracle: the pure-sequence specification executed here in Python.
"""
import collections
import itertools
import json

import common

MANIFEST = dict(
    category="proof",
    text="Machine-checked refinement proof (Coq): for every operation history, over any number of handles, the "
         "Arc/VecDeque/view model of numbat/src/list.rs returns exactly what plain immutable sequences return, "
         "never panics, and leaves every other handle's contents unchanged (C18_refines, C18_no_panic, "
         "C18_others_unchanged, C18_reachable_inv; all closed under the global context). The model is tied to the "
         "code by a per-step correspondence check on real NumbatList handles that also compares the internal "
         "representation (sharing classes, views, strong counts, allocation lengths) through a hook.",
    design_ref="DESIGN.md §6 C18",
    note="Trusted: Coq kernel + vm_compute; the hand port of list.rs in coq/theories/ListM/Model.v (validated by the "
         "correspondence on bounded-exhaustive and random histories, not proved against Rust); Arc::strong_count = "
         "number of live handles; element equality reflexive; memory safety is Rust's.",
    technique="Coq refinement proof (invariant + induction over histories) + model/implementation correspondence by vm_compute",
)

THEOREMS = ["C18_refines", "C18_no_panic", "C18_others_unchanged", "C18_reachable_inv"]


# ---- pure specification (oracle): slots hold Python lists or None
def spec_run(k, ops):
    slots = [None] * k
    outs = []
    for op in ops:
        p = op.split(":")
        a = [int(x) for x in p[1:]]
        t = p[0]
        o = "x"
        if t == "n":
            if a[0] < k:
                slots[a[0]] = []
                o = "u"
        elif t == "c":
            if a[0] < k and slots[a[0]] is not None and a[1] < k:
                slots[a[1]] = list(slots[a[0]])
                o = "u"
        elif t == "d":
            if a[0] < k and slots[a[0]] is not None:
                slots[a[0]] = None
                o = "u"
        elif t == "l":
            if a[0] < k and slots[a[0]] is not None:
                o = "n:%d" % len(slots[a[0]])
        elif t == "i":
            if a[0] < k and slots[a[0]] is not None:
                o = "l:" + ".".join(map(str, slots[a[0]]))
        elif t == "t":
            if a[0] < k and slots[a[0]] is not None:
                if slots[a[0]]:
                    slots[a[0]] = slots[a[0]][1:]
                    o = "u"
                else:
                    o = "E"
        elif t == "h":
            if a[0] < k and slots[a[0]] is not None:
                o = "o:%s" % (slots[a[0]][0] if slots[a[0]] else "-")
                slots[a[0]] = None
        elif t == "f":
            if a[0] < k and slots[a[0]] is not None:
                slots[a[0]] = [a[1]] + slots[a[0]]
                o = "u"
        elif t == "b":
            if a[0] < k and slots[a[0]] is not None:
                slots[a[0]] = slots[a[0]] + [a[1]]
                o = "u"
        elif t == "e":
            if a[0] < k and a[1] < k and slots[a[0]] is not None and slots[a[1]] is not None:
                o = "b:%d" % (slots[a[0]] == slots[a[1]])
        contents = " ".join("-" if s is None else "[" + ".".join(map(str, s)) + "]" for s in slots)
        outs.append((o, contents))
    return outs


def impl_vs_spec(k, ops, impl_line):
    """first step at which the implementation departs from the pure spec, or None"""
    steps = impl_line.split(";") if impl_line else []
    spec = spec_run(k, ops)
    for n, (o, contents) in enumerate(spec):
        if n >= len(steps):
            return n, "implementation stopped (panic/abort): %r" % (impl_line[-80:],)
        parts = steps[n].split("|")
        if parts[0] != o or (len(parts) > 2 and parts[2] != contents):
            return n, "step %d (%s): implementation %r, immutable sequences give %r|%r" % (
                n, ops[n], steps[n], o, contents)
    return None


def coq_op(op):
    p = op.split(":")
    name = {"n": "New", "c": "Clone", "d": "Drop", "l": "Len", "i": "Iter", "t": "Tail",
            "h": "Head", "f": "PushFront", "b": "PushBack", "e": "Eqq"}[p[0]]
    args = p[1:]
    if p[0] in ("f", "b"):
        return "%s %s %s%%N" % (name, args[0], args[1])
    return "%s %s" % (name, " ".join(args))


def coq_case(k, ops):
    return "show_case %d [%s]%%list" % (k, "; ".join(coq_op(o) for o in ops))


def alphabet(k, vals, observers=True):
    al = []
    for i in range(k):
        al += ["n:%d" % i, "d:%d" % i, "t:%d" % i, "h:%d" % i]
        for v in vals:
            al += ["f:%d:%d" % (i, v), "b:%d:%d" % (i, v)]
        for j in range(k):
            if i != j:
                al.append("c:%d:%d" % (i, j))
    if observers:
        for i in range(k):
            for j in range(i, k):
                al.append("e:%d:%d" % (i, j))
    return al


def exhaustive(k, vals, length):
    """all histories of exactly `length` ops in which no op addresses a dead
    slot (those are no-ops on both sides) — prefixes are covered because every
    step is observed."""
    al = alphabet(k, vals)
    res = []

    def live_after(live, op):
        p = op.split(":")
        a = [int(x) for x in p[1:]]
        t = p[0]
        if t == "n":
            return live | {a[0]}
        if t in ("d", "h"):
            return (live - {a[0]}) if a[0] in live else None
        if t == "c":
            return (live | {a[1]}) if a[0] in live else None
        if t == "e":
            return live if (a[0] in live and a[1] in live) else None
        return live if a[0] in live else None

    def rec(prefix, live):
        if len(prefix) == length:
            res.append(list(prefix))
            return
        for op in al:
            nl = live_after(live, op)
            if nl is None:
                continue
            if op.startswith("n:") and int(op[2:]) in live and len(prefix) + 1 < length:
                pass  # re-creating over a live handle is a drop + new: keep
            prefix.append(op)
            rec(prefix, frozenset(nl))
            prefix.pop()

    rec([], frozenset())
    return res


def random_history(rng, k, nvals, length):
    ops = []
    live = set()
    for _ in range(length):
        r = rng.random()
        if not live or r < 0.08:
            i = rng.randrange(k)
            ops.append("n:%d" % i)
            live.add(i)
            continue
        i = rng.choice(sorted(live)) if rng.random() < 0.95 else rng.randrange(k)
        r = rng.random()
        if r < 0.20:
            ops.append("b:%d:%d" % (i, rng.randrange(nvals)))
        elif r < 0.38:
            ops.append("f:%d:%d" % (i, rng.randrange(nvals)))
        elif r < 0.55:
            j = rng.randrange(k)
            ops.append("c:%d:%d" % (i, j))
            if i in live:
                live.add(j)
        elif r < 0.72:
            ops.append("t:%d" % i)
        elif r < 0.78:
            ops.append("h:%d" % i)
            live.discard(i)
        elif r < 0.83:
            ops.append("d:%d" % i)
            live.discard(i)
        elif r < 0.90:
            ops.append("e:%d:%d" % (i, rng.randrange(k)))
        elif r < 0.95:
            ops.append("l:%d" % i)
        else:
            ops.append("i:%d" % i)
    return ops


# ---------------------------------------------------------------- source level (ffi/lists.rs + VM)
class ListProg:
    """random Numbat programs over list values: nested cons / cons_end / tail / head / len / == on
    variables that share storage and on temporaries; the expected print output is computed on
    Python lists (the immutable-sequence specification)."""

    def __init__(self, rng):
        self.rng = rng
        self.vars = {}          # name -> python list
        self.stmts = []
        self.expected = []      # printed lines
        self.error = None

    def lit(self, l):
        return "[" + ", ".join(str(x) for x in l) + "]"

    def expr(self, depth):
        """-> (source, value) with value a python list; raises IndexError for tail of empty"""
        r = self.rng.random()
        if depth <= 0 or r < 0.25:
            if self.vars and self.rng.random() < 0.75:
                n = self.rng.choice(sorted(self.vars))
                return n, list(self.vars[n])
            l = [self.rng.randrange(10) for _ in range(self.rng.randrange(1, 5))]
            return self.lit(l), l
        src, v = self.expr(depth - 1)
        x = self.rng.randrange(10, 99)
        if r < 0.50:
            return "cons(%d, %s)" % (x, src), [x] + v
        if r < 0.70:
            return "cons_end(%d, %s)" % (x, src), v + [x]
        if not v:
            raise IndexError
        return "tail(%s)" % src, v[1:]

    def build(self, nstmts):
        for i in range(nstmts):
            r = self.rng.random()
            try:
                src, v = self.expr(self.rng.randrange(1, 6))
            except IndexError:
                continue
            if r < 0.45:
                name = "l%d" % len(self.vars) if (not self.vars or self.rng.random() < 0.6) \
                    else self.rng.choice(sorted(self.vars))
                self.stmts.append("let %s = %s" % (name, src))
                self.vars[name] = v
            elif r < 0.60:
                self.stmts.append("print(%s)" % src)
                self.expected.append(self.lit(v))
            elif r < 0.72:
                self.stmts.append("print(len(%s))" % src)
                self.expected.append(str(len(v)))
            elif r < 0.82 and v:
                self.stmts.append("print(head(%s))" % src)
                self.expected.append(str(v[0]))
            elif self.vars:
                o = self.rng.choice(sorted(self.vars))
                self.stmts.append("print(%s == %s)" % (src, o))
                self.expected.append("true" if v == self.vars[o] else "false")
            # every variable must still hold what the specification says
            if self.vars and self.rng.random() < 0.5:
                n = self.rng.choice(sorted(self.vars))
                self.stmts.append("print(%s)" % n)
                self.expected.append(self.lit(self.vars[n]))
        for n in sorted(self.vars):
            self.stmts.append("print(%s)" % n)
            self.expected.append(self.lit(self.vars[n]))
        return self


def all_continue(res):
    """harness `vm` result field: one outcome per interpret call, every one must be C (no value, no error)"""
    res = res.strip()
    return res.startswith("R:") and all(x.strip() == "C" for x in res[2:].split(";;"))


def run_source_level(chk, binary, nprog):
    progs = [ListProg(chk.rng).build(chk.rng.randrange(4, 14)) for _ in range(nprog)]
    progs = [p for p in progs if p.stmts]      # a program may come out empty (every draw hit tail of [])
    fixed = ListProg(chk.rng)
    fixed.stmts = ["print(cons(1, cons(2, tail([7, 8, 9]))))", "let a = [1, 2, 3]", "let b = tail(a)",
                   "let c = cons(9, b)", "print(a)", "print(b)", "print(c)", "print(cons_end(4, tail(tail(a))))", "print(a)"]
    fixed.expected = ["[1, 2, 8, 9]", "[1, 2, 3]", "[2, 3]", "[9, 2, 3]", "[4]".replace("[4]", "[3, 4]"), "[1, 2, 3]"]
    progs.insert(0, fixed)
    lines = ["use core::lists ;;; " + " ;; ".join(p.stmts) for p in progs]
    out = common.run_harness(binary, "vm", lines)
    bad = []
    for p, o in zip(progs, out):
        head = o.split(" ## D:")[0]
        res, _, printed = head.partition(" ## O:")
        got = printed.split("\u241e") if printed else []
        if not all_continue(res) or got != p.expected:
            bad.append((p, res.strip(), got))
    return progs, bad


def run(chk):
    binary, _ = common.build_harness()
    proved = chk.prove("Props.C18", THEOREMS,
                       ["theories/Props/C18.vo", "theories/ListM/Exec.vo"])
    chk.trusted += [
        "model ListM/Model.v is a hand port of numbat/src/list.rs (new, clone, drop, len, iter, tail, head, make_mut, push_front, push_back, PartialEq)",
        "hook NumbatList::verif_repr (cfg feature verif) reports alloc pointer, view, strong count, alloc length",
        "correspondence: coqc vm_compute of ListM.Exec.show_case vs harness/src/list.rs",
        "element equality is assumed reflexive (Value::PartialEq is not for NaN)",
    ]
    quick = chk.tier == "quick"
    cases = []
    # corpus first
    corpus = json.load(open(common.VERIF + "/corpus/c18.json"))
    for c in corpus:
        cases.append((c["k"], c["ops"], "corpus"))
    ex_specs = [(2, [1], 4), (3, [1, 2], 3)] if quick else [(2, [1], 5), (3, [1, 2], 4)]
    ex_counts = {}
    for (k, vals, ln) in ex_specs:
        hs = exhaustive(k, vals, ln)
        ex_counts["k=%d vals=%d len=%d" % (k, len(vals), ln)] = len(hs)
        cases += [(k, h, "exhaustive") for h in hs]
    nrand = 2000 if quick else 8000
    for n in range(nrand):
        k = chk.rng.choice([2, 3, 4, 5])
        ln = chk.rng.randrange(5, 41 if quick else 81)
        cases.append((k, random_history(chk.rng, k, 4, ln), "random"))

    lines = ["%d;%s" % (k, ",".join(ops)) for k, ops, _ in cases]
    impl = common.run_harness(binary, "list", lines)
    items = [(coq_case(k, ops), impl[n]) for n, (k, ops, _) in enumerate(cases)]
    bad = common.coq_mismatches(["ListM.Model", "ListM.Exec"], items, "c18")

    # statistics
    opcount = collections.Counter()
    shapes = set()
    nontrivial = 0
    shared_steps = view_steps = 0
    for n, (k, ops, _) in enumerate(cases):
        for o in ops:
            opcount[o.split(":")[0]] += 1
        line = impl[n]
        sh = "/2/" in line or "/3/" in line or "/4/" in line
        vw = any(("-" in part.split("|")[1].replace(" - ", " ").strip("- "))
                 for part in line.split(";") if "|" in part)
        if sh or vw:
            if line not in shapes:
                nontrivial += 1
        shapes.add(line)

    found = 0
    for n, (k, ops, kind) in enumerate(cases):
        dv = impl_vs_spec(k, ops, impl[n])
        if dv is None:
            continue
        # a failing history: shrink it against the pure spec
        def fails(cand, k=k):
            o = common.run_harness(binary, "list", ["%d;%s" % (k, ",".join(cand))], shards=1)[0]
            return impl_vs_spec(k, cand, o) is not None
        small = common.shrink_list(ops, fails)
        o = common.run_harness(binary, "list", ["%d;%s" % (k, ",".join(small))], shards=1)[0]
        chk.violation({
            "kind": "history on real NumbatList handles departs from immutable sequences",
            "slots": k, "ops": small, "implementation": o,
            "detail": impl_vs_spec(k, small, o)[1],
            "original_case_kind": kind,
            "replay": "echo '%d;%s' | harness/target/debug/nbverif list   (then compare with tools/props/c18.py spec_run)" % (k, ",".join(small)),
        })
        found += 1
        if found >= 3:
            break
    # ---- the same property at source level: cons / cons_end / tail / head / len / == through the FFI and the VM
    progs, sbad = run_source_level(chk, binary, 300 if quick else 4000)
    for p, res, got in sbad[:max(0, 3 - found)]:
        def sfails(stmts, p=p):
            q = ListProg(chk.rng)
            # recompute the expectation of the reduced program by re-evaluating it on python lists
            env, exp = {}, []
            import re as _re

            def ev(src):
                src = src.strip()
                m = _re.match(r"^(cons|cons_end)\((\d+), (.*)\)$", src)
                if m:
                    v = ev(m.group(3))
                    return [int(m.group(2))] + v if m.group(1) == "cons" else v + [int(m.group(2))]
                m = _re.match(r"^tail\((.*)\)$", src)
                if m:
                    v = ev(m.group(1))
                    if not v:
                        raise IndexError
                    return v[1:]
                if src.startswith("["):
                    return [int(x) for x in src[1:-1].split(",") if x.strip()]
                return list(env[src])
            try:
                for st in stmts:
                    m = _re.match(r"^let (\w+) = (.*)$", st)
                    if m:
                        env[m.group(1)] = ev(m.group(2))
                        continue
                    inner = st[len("print("):-1]
                    if inner.startswith("len("):
                        exp.append(str(len(ev(inner[4:-1]))))
                    elif inner.startswith("head("):
                        exp.append(str(ev(inner[5:-1])[0]))
                    elif " == " in inner:
                        a, b = inner.rsplit(" == ", 1)
                        exp.append("true" if ev(a) == ev(b) else "false")
                    else:
                        exp.append(q.lit(ev(inner)))
            except (KeyError, IndexError, ValueError):
                return False
            o = common.run_harness(binary, "vm", ["use core::lists ;;; " + " ;; ".join(stmts)], shards=1)[0]
            head = o.split(" ## D:")[0]
            r_, _, pr = head.partition(" ## O:")
            return (not all_continue(r_)) or (pr.split("\u241e") if pr else []) != exp
        small = common.shrink_list(p.stmts, sfails) if sfails(p.stmts) else p.stmts
        chk.violation({
            "kind": "a Numbat program over shared list values prints something else than immutable sequences would",
            "program": small, "implementation_result": res, "implementation_prints": got, "expected_prints": p.expected,
            "replay": "numbat -e 'use core::lists' -e '<each statement>'",
        })
        found += 1
    if not found and (bad or not proved):
        n = min(bad) if bad else None
        chk.violation({
            "kind": "proof or correspondence no longer checks",
            "theorem_or_correspondence": ("correspondence ListM.Model vs numbat/src/list.rs (representation of handles)"
                                          if bad else "Props/C18.v: " + getattr(chk, "proof_failure", "?")),
            "mismatching_cases": len(bad),
            "first_case": None if n is None else {"slots": cases[n][0], "ops": cases[n][1],
                                                  "implementation": impl[n], "model": bad[n]},
        }, found_input=False)

    chk.cov.update({
        "evaluations": len(cases),
        "distinct_nontrivial": nontrivial,
        "rule": "corpus + bounded-exhaustive histories (no op on a dead slot) + seeded random histories; "
                "non-trivial = some step has a handle that shares its allocation or is a proper view; distinct = distinct implementation traces",
        "exhaustive_families": ex_counts,
        "exhaustive": False,
        "op_histogram": dict(opcount),
        "model_mismatches": len(bad),
        "source_level_programs": len(progs), "source_level_statements": sum(len(p.stmts) for p in progs),
        "source_level_failures": len(sbad),
        "samples": [{"program": progs[1].stmts, "expected_prints": progs[1].expected}] + [{"slots": cases[n][0], "ops": cases[n][1], "implementation": impl[n]}
                    for n in (0, len(corpus) + 5, len(cases) - 1)],
    })
    chk.assumptions += ["strong_count is the number of live handles held by the harness (no other owners)",
                        "u64 elements; element equality reflexive"]


def replay(path):
    r = json.load(open(path))
    if "ops" not in r:
        print(json.dumps(r, indent=1))
        return 0
    binary, _ = common.build_harness()
    o = common.run_harness(binary, "list", ["%d;%s" % (r["slots"], ",".join(r["ops"]))], shards=1)[0]
    dv = impl_vs_spec(r["slots"], r["ops"], o)
    print("implementation:", o)
    print("departs from spec:" if dv else "agrees with spec", dv[1] if dv else "")
    return 1 if dv else 0
