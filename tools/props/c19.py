"""C19 — date and time arithmetic is consistent.

proof:  coq/theories/Props/C19.v over Time/Model.v (integer-nanosecond model of vm.rs AddToDateTime /
        SubFromDateTime / DiffDateTime, the duration split trunc/fract/round, range errors, TzConversion)
tie:    correspondence — `t + d`, `(t + d) - d`, `(t + d) - t` run through Context::interpret (harness `eval`) for
        random instants across the supported range (and at its edges) and durations given in seconds (so the f64
        the VM sees is known exactly); the model evaluates the same case by vm_compute and must give the same
        instants / the same error kind (a 1 ns difference from the f64 product fract*1e9 is tolerated and counted).
oracle: the property itself on the implementation: (t+d)-d is the same instant as t, (t+d)-t = d within half a
        nanosecond (+ f64 rounding), for durations in every time unit and both signs; conversion to IANA zones keeps
        the instant; out-of-range operations and non-finite durations are errors; parsing a date-time displayed with
        a full-precision format gives the same instant.
"""
import collections
import json
import math
import os
import struct
from fractions import Fraction

import common

MANIFEST = dict(
    category="proof",
    text="proof (partial). Machine-checked (Coq) for an integer-nanosecond model of the VM's date-time operations: "
         "whenever t + d succeeds, (t + d) - d = t exactly and (t + d) - t is d rounded to whole nanoseconds, within "
         "half a nanosecond of d (C19_add_sub); results never leave the supported range and an out-of-range result or "
         "an over-long duration is an error, never a wrapped instant (C19_range_ok, C19_range_err, C19_duration_err); "
         "a zone conversion changes the zone only (C19_tz); on zoned values (instant, zone) arithmetic keeps the zone, "
         "commutes with zone conversion, differences do not depend on the zones and the round trip restores instant and "
         "zone (C19_tz_arith, C19_zoned_add_sub). All closed under the global context. NOT proved: jiff's "
         "calendar, time-zone database and strptime/strftime have no model — that adding a span of seconds and "
         "nanoseconds moves the instant by exactly that amount, that converting to a real IANA zone keeps the instant, "
         "and the parse-after-format round trip rest on the correspondence check and the oracle; f64 rounding of the "
         "duration (unit -> seconds, fract*1e9) is covered by tolerances only.",
    design_ref="DESIGN.md §6 C19; design/misc.md",
    note="Trusted: Coq kernel + vm_compute; the hand model coq/theories/Time/Model.v with jiff's documented limits "
         "(Timestamp -377705023201 s ..= 253402207200.999999999 s, Span seconds <= 631107417600) as constants, "
         "taken from the implementation on every run (Gen/TimeLimits.v) and validated at the edges by the correspondence check.",
    technique="Coq proof over an executable integer model + model/implementation correspondence by vm_compute + metamorphic oracle",
)

THEOREMS = ["C19_add_sub", "C19_range_ok", "C19_range_err", "C19_duration_err", "C19_limits_sane", "C19_tz", "C19_tz_arith",
            "C19_zoned_add_sub"]

TS_MIN_S = -377705023201
TS_MAX_S = 253402207200
SPAN_MAX = 631107417600

ZONES = ["UTC", "Europe/Berlin", "America/New_York", "Asia/Kolkata", "Asia/Kathmandu", "Australia/Lord_Howe",
         "Pacific/Apia", "Pacific/Kiritimati", "America/St_Johns", "Africa/Casablanca", "Europe/London",
         "America/Sao_Paulo", "Asia/Tokyo", "Pacific/Chatham", "America/Anchorage", "Antarctica/Troll"]

# unit, seconds per unit
TIME_UNITS = [("ns", Fraction(1, 10 ** 9)), ("µs", Fraction(1, 10 ** 6)), ("ms", Fraction(1, 1000)), ("s", Fraction(1)),
              ("min", Fraction(60)), ("hour", Fraction(3600)), ("day", Fraction(86400)), ("week", Fraction(604800)),
              ("fortnight", Fraction(1209600)), ("year", Fraction(31556925216, 1000)), ("month", Fraction(31556925216, 12000)),
              ("decade", Fraction(315569252160, 1000)), ("century", Fraction(3155692521600, 1000)), ("sidereal_day", None)]


def fl(x):
    return repr(float(x))


def instant_src(sec):
    return "from_unixtime_s(%d)" % sec


def q_of(out):
    if not out.startswith("Q:"):
        return None
    _, b, u = out.split(":", 2)
    return struct.unpack("<d", struct.pack("<Q", int(b, 16)))[0], u


def d_of(out):
    if not out.startswith("D:"):
        return None
    p = out.split(":")
    return int(p[1]), p[2] if len(p) > 2 else "?"


def err_kind(out):
    if out.startswith("E:runtime:DateTime out of range"):
        return "E:datetime"
    if out.startswith("E:runtime:Exceeded maximum size for time durations"):
        return "E:duration"
    return None


def coq_q(x):
    x = Fraction(x)
    return "(Qmake (%d)%%Z %d%%positive)" % (x.numerator, x.denominator)


def rand_instant(rng):
    r = rng.random()
    if r < 0.15:
        v = rng.choice([TS_MIN_S, TS_MAX_S]) + rng.choice([0, 1, -1, 2, -2, 1000, -1000]) * (1 if r < 0.1 else 86400)
        return max(TS_MIN_S, min(TS_MAX_S, v))          # the model speaks about valid instants only
    if r < 0.5:
        return rng.randrange(-2 * 10 ** 9, 5 * 10 ** 9)
    return rng.randrange(TS_MIN_S, TS_MAX_S + 1)


def rand_seconds(rng):
    """durations in seconds with sub-second parts (floats)"""
    r = rng.random()
    if r < 0.10:
        return float(rng.choice([SPAN_MAX, -SPAN_MAX, SPAN_MAX + 1, -SPAN_MAX - 1, SPAN_MAX - 1, 9.3e18, -9.3e18, 1e300]))
    if r < 0.2:
        return rng.choice([-1, 1]) * rng.choice([0.5e-9, 1.5e-9, 2.5e-9, 0.4999999999e-9, 0.9999999996, 0.9999999994,
                                               1e-12, 0.0, 1e-9, 123456789.987654321])
    if r < 0.5:
        # whole seconds plus a sub-second part, both signs: -1.5 s, -86400.25 s, ...
        return rng.choice([-1, -1, 1]) * (rng.randrange(0, 10 ** rng.randrange(1, 8)) + rng.randrange(1, 10 ** 9) / 1e9)
    if r < 0.8:
        return rng.choice([-1, 1]) * math.exp(rng.uniform(math.log(1e-10), math.log(7e11)))
    return float(rng.choice([-1, 1]) * rng.randrange(0, 10 ** rng.randrange(1, 12)))


LIMITS_HEADER = """(* GENERATED by tools/props/c19.py from the running implementation (hook numbat::verif::misc::datetime_limits:
   jiff Timestamp::MIN / MAX and the largest argument Span::try_seconds accepts) — rewritten on every check run. *)
From Coq Require Import ZArith.
Local Open Scope Z_scope.
"""


def generate_limits(binary):
    """reads the range constants from the implementation and writes Gen/TimeLimits.v (only when they changed)"""
    o = common.run_harness(binary, "eval", ["@datetime-limits"], shards=1)[0]
    if not o.startswith("LIMITS:"):
        raise common.Broken("harness did not report the date-time limits: %r" % o)
    lo, hi, hi_ns, span = [int(x) for x in o.split(":")[1:5]]
    src = LIMITS_HEADER + "Definition gen_ts_min_s : Z := %d.\nDefinition gen_ts_max_s : Z := %d.\n" \
        "Definition gen_ts_max_subsec_ns : Z := %d.\nDefinition gen_span_sec_max : Z := %d.\n" % (lo, hi, hi_ns, span)
    path = os.path.join(common.COQ, "theories", "Gen", "TimeLimits.v")
    if not os.path.exists(path) or open(path).read() != src:
        open(path, "w").write(src)
    return lo, hi, span


def run(chk):
    binary, _ = common.build_harness()
    global TS_MIN_S, TS_MAX_S, SPAN_MAX
    TS_MIN_S, TS_MAX_S, SPAN_MAX = generate_limits(binary)       # the generators use the same constants
    proved = chk.prove("Props.C19", THEOREMS, ["theories/Props/C19.vo", "theories/Time/Exec.vo"])
    chk.trusted += [
        "model Time/Model.v is a hand port of vm.rs Op::AddToDateTime/SubFromDateTime/DiffDateTime and CallCallable TzConversion",
        "jiff (calendar, tz database, Span/Zoned arithmetic, strptime/strftime incl. DST gaps/overlaps) is not modelled; its range "
        "limits are read from the running implementation on every run (hook datetime_limits -> Gen/TimeLimits.v, table lemma C19_limits_sane)",
        "instants are built with from_unixtime_s and observed through Zoned::timestamp().as_nanosecond() (harness eval)",
        "the local time zone of the sessions is set explicitly (TZ: UTC, and Pacific/Chatham etc. for the zone-independence pass); "
        "there is no injectable clock, so now()/today() are not used by this check",
    ]
    quick = chk.tier == "quick"
    rng = chk.rng
    known = [f for f in common.load_known() if f.get("property") == "C19" and f.get("status") == "open"]

    # ---- (A) exact-model cases: durations in seconds
    corpus = json.load(open(os.path.join(common.VERIF, "corpus", "c19.json")))
    exact = [(c["t"], float(c["d"])) for c in corpus]
    for _ in range(500 if quick else 4000):
        exact.append((rand_instant(rng), rand_seconds(rng)))
    lines = []
    for t, d in exact:
        # a literal zero is dimension-polymorphic in numbat and `date-time + 0 s` is rejected by the type checker
        ds = "(%s s)" % fl(d) if d != 0 else "(1.0 s - 1.0 s)"
        lines += ["%s + %s" % (instant_src(t), ds),
                  "(%s + %s) - %s" % (instant_src(t), ds, ds),
                  "(%s + %s) - %s" % (instant_src(t), ds, instant_src(t))]
    # ---- (B) oracle cases: every time unit, both signs
    unit_cases = []
    for _ in range(400 if quick else 3000):
        u, size = rng.choice(TIME_UNITS)
        t = rng.randrange(-6 * 10 ** 10, 10 ** 11)
        x = rng.choice([-1, 1]) * rng.choice([rng.uniform(0, 10), rng.uniform(0, 1e4), float(rng.randrange(0, 1000)),
                                              rng.randrange(1, 10 ** 6) / 1024.0, math.exp(rng.uniform(-5, 12))])
        unit_cases.append((t, x, u))
    ulines = []
    for t, x, u in unit_cases:
        ds = "(%s %s)" % (fl(x), u) if x != 0 else "(1.0 %s - 1.0 %s)" % (u, u)
        ulines += ["(%s + %s) - %s" % (instant_src(t), ds, ds),
                   "((%s + %s) - %s) -> s" % (instant_src(t), ds, instant_src(t)),
                   "%s -> s" % ds]
    # ---- (C) zones, parse/format, non-finite durations
    zone_cases = []
    for _ in range(150 if quick else 1500):
        # instants over the whole supported range (years -9999 .. 9999; a day of margin so that the zone offset cannot
        # push the civil time out of range), half of them within a few centuries of today
        tt = rng.randrange(TS_MIN_S + 2 * 86400, TS_MAX_S - 2 * 86400) if rng.random() < 0.5 else rng.randrange(-6 * 10 ** 9, 9 * 10 ** 9)
        zone_cases.append((tt, rng.randrange(0, 10 ** 6), rng.choice(ZONES)))
    zlines = []
    for t, us, z in zone_cases:
        inst = "from_unixtime_µs(%d)" % (t * 10 ** 6 + us) if abs(t) < 8 * 10 ** 9 else instant_src(t)
        dd = "(%s s)" % fl(rng.choice([-1, 1]) * (rng.randrange(1, 10 ** 7) + rng.randrange(1, 10 ** 6) / 1e6))
        z2 = rng.choice(ZONES)
        zlines += ["%s -> tz(\"%s\")" % (inst, z),
                   "datetime(format_datetime(\"%%Y-%%m-%%d %%H:%%M:%%S%%.f %%z\", %s -> tz(\"%s\")))" % (inst, z),
                   inst,
                   "(%s -> tz(\"%s\")) + %s" % (inst, z, dd),
                   "(%s + %s) -> tz(\"%s\")" % (inst, dd, z),
                   "(((%s -> tz(\"%s\")) + %s) - (%s -> tz(\"%s\"))) - ((%s + %s) - %s)" % (inst, z, dd, inst, z2, inst, dd, inst)]
    nflines = ["%s %s (%s s)" % (instant_src(0), op, v) for op in "+-" for v in ("sqrt(-1)", "(1e308 × 10)", "(-1e308 × 10)")]
    all_lines = lines + ulines + zlines + nflines
    outs = common.run_harness(binary, "eval", all_lines, timeout=3000)
    o_exact = outs[:len(lines)]
    o_unit = outs[len(lines):len(lines) + len(ulines)]
    o_zone = outs[len(lines) + len(ulines):len(lines) + len(ulines) + len(zlines)]
    o_nf = outs[len(lines) + len(ulines) + len(zlines):]

    # the same exact cases in sessions whose LOCAL time zone is not UTC (from_unixtime_s gives a date-time in the local
    # zone): instants, durations and error kinds must not depend on it
    local_zone_runs = {}
    zone_pass_lines = 450 if quick else 6000          # quick: the corpus and the first ~150 cases
    for z in (["Pacific/Chatham"] if quick else ["Pacific/Chatham", "America/St_Johns", "Asia/Kathmandu"]):
        local_zone_runs[z] = common.run_harness(binary, "eval", lines[:zone_pass_lines], extra_args=("--tz", z), timeout=3000)

    fails = []          # property violations on the implementation (with input)

    def fail(kind, source, impl, detail):
        fails.append({"kind_short": kind, "source": source, "implementation": impl, "detail": detail})

    # (A) model comparison + oracle
    items, impl_strs = [], []
    one_ns = 0
    outcome_hist = collections.Counter()
    for i, (t, d) in enumerate(exact):
        a, b, c = o_exact[3 * i:3 * i + 3]
        da = d_of(a)
        if da is not None:
            db = d_of(b)
            qc = q_of(c)
            s = "D:%d;%s;" % (da[0], ("D:%d" % db[0]) if db else (err_kind(b) or b))
            impl_strs.append((s, da[0], qc))
            outcome_hist["ok"] += 1
            # oracle: (t+d)-d == t ; (t+d)-t within half a ns (+ f64 rounding) of d
            if db is None or db[0] != t * 10 ** 9:
                fail("add-sub", lines[3 * i + 1], b, "(t + d) - d is not the instant t = %d ns" % (t * 10 ** 9))
            if qc is None:
                fail("diff", lines[3 * i + 2], c, "(t + d) - t is not a duration")
            else:
                tol = Fraction(1, 2 * 10 ** 9) + Fraction(abs(d)) * Fraction(1, 2 ** 51) + Fraction(1, 10 ** 12)
                if abs(Fraction(qc[0]) - Fraction(d)) > tol:
                    fail("diff", lines[3 * i + 2], c, "(t + d) - t = %r s differs from d = %r s by more than half a nanosecond" % (qc[0], d))
                if abs(Fraction(qc[0]) * 10 ** 9 - (da[0] - t * 10 ** 9)) > 1 + abs(da[0] - t * 10 ** 9) * Fraction(1, 2 ** 51):
                    fail("diff", lines[3 * i + 2], c, "(t + d) - t disagrees with the instants")
            if not (TS_MIN_S * 10 ** 9 <= da[0] <= TS_MAX_S * 10 ** 9 + 999999999):
                fail("range", lines[3 * i], a, "result outside the documented range")
        else:
            k = err_kind(a)
            outcome_hist[k or "other"] += 1
            impl_strs.append((k or a, None, None))
            if k is None:
                fail("error-kind", lines[3 * i], a, "t + d neither gives a date-time nor a range error")
        if d == 0:
            items.append(("show_case (%d)%%Z %s" % (t * 10 ** 9, coq_q(Fraction(0))), "@"))
        else:
            mm, ee = math.frexp(abs(d))
            items.append(("show_case_f64 (%d)%%Z %s %d%%positive (%d)%%Z" % (
                t * 10 ** 9, "true" if d < 0 else "false", int(mm * 2 ** 53), ee - 53), "@"))
    model = common.coq_mismatches(["Time.Model", "Time.Exec"], items, "c19", shard_size=200, timeout=3000,
                                  prelude="From Coq Require Import QArith ZArith.") if proved else {}
    mismatches = []
    if proved:
        for i, (t, d) in enumerate(exact):
            ms = model.get(i, "@")
            s, inst, qc = impl_strs[i]
            if inst is None:
                if ms != s:
                    mismatches.append({"source": lines[3 * i], "implementation": o_exact[3 * i], "model": ms})
                continue
            mp = ms.split(";")
            if len(mp) < 3 or not mp[0].startswith("D:"):
                mismatches.append({"source": lines[3 * i], "implementation": o_exact[3 * i], "model": ms})
                continue
            if len(mp) > 3 and mp[3] not in ("0", "x"):
                one_ns += 1          # the exact-rational model of the theorems differs by this many ns (f64 product fract*1e9)
            if s == mp[0] + ";" + mp[1] + ";":
                continue
            mismatches.append({"source": lines[3 * i], "implementation": ";".join(o_exact[3 * i:3 * i + 3]), "model": ms})

    def zone_free(o):
        d = d_of(o)
        return ("D", d[0]) if d else o
    for z, zo in local_zone_runs.items():
        for i, (a, b) in enumerate(zip(o_exact, zo)):
            if zone_free(a) != zone_free(b):
                fail("local-zone", lines[i], "UTC session: %s ; %s session: %s" % (a, z, b),
                     "the result depends on the local time zone of the session")
                break

    # (B) every unit
    for i, (t, x, u) in enumerate(unit_cases):
        b, c, dsec = o_unit[3 * i:3 * i + 3]
        db, qc, qd = d_of(b), q_of(c), q_of(dsec)
        if db is None and err_kind(b):
            continue
        if db is None or db[0] != t * 10 ** 9:
            fail("add-sub", ulines[3 * i], b, "(t + d) - d is not the instant t = %d ns" % (t * 10 ** 9))
        if qc is None or qd is None:
            fail("diff", ulines[3 * i + 1], c, "(t + d) - t is not a duration")
        elif abs(Fraction(qc[0]) - Fraction(qd[0])) > Fraction(1, 2 * 10 ** 9) + Fraction(abs(qd[0])) / 2 ** 50 + Fraction(1, 10 ** 12):
            fail("diff", ulines[3 * i + 1], c, "(t + d) - t = %r s, d = %r s" % (qc[0], qd[0]))
    # (C) zones and parse/format
    for i, (t, us, z) in enumerate(zone_cases):
        a, b, c, e1, e2, e3 = o_zone[6 * i:6 * i + 6]
        da, db, dc = d_of(a), d_of(b), d_of(c)
        if dc is None:
            continue
        if da is None or da[0] != dc[0] or da[1] != z:
            fail("tz", zlines[6 * i], a, "conversion to %s changed the instant %d or did not set the zone" % (z, dc[0]))
        if db is None or db[0] != dc[0]:
            fail("parse-format", zlines[6 * i + 1], b, "parsing the full-precision display does not give the instant %d" % dc[0])
        # C19_tz_arith on the implementation: zone kept by +, conversion commutes with +, differences ignore zones
        d1, d2, q3 = d_of(e1), d_of(e2), q_of(e3)
        if d1 is None or d2 is None or d1 != d2 or d1[1] != z:
            fail("tz-arith", zlines[6 * i + 3], e1 + " vs " + e2, "(t -> tz) + d and (t + d) -> tz differ, or the zone %s was not kept" % z)
        if q3 is None or q3[0] != 0.0:
            fail("tz-diff", zlines[6 * i + 5], e3, "a difference of date-times depends on their zones")
    for ln, o in zip(nflines, o_nf):
        if not o.startswith("E:"):
            fail("non-finite", ln, o, "a non-finite duration must be rejected")

    reported = 0
    seen = set()
    for f in fails:
        k = next((kf for kf in known if kf.get("matcher", {}).get("source") == f["source"]), None)
        if k:
            chk.known(k["id"], "%s: %s" % (k["id"], f["detail"]))
            continue
        if f["kind_short"] in seen or reported >= 3:
            continue
        seen.add(f["kind_short"])
        chk.violation({"kind": "date-time arithmetic inconsistent on the implementation (%s)" % f["kind_short"],
                       "source": f["source"], "implementation": f["implementation"], "detail": f["detail"],
                       "replay": "echo '%s' | harness/target/debug/nbverif eval" % f["source"]})
        reported += 1
    if not reported and (not proved or mismatches):
        chk.violation({
            "kind": "proof or correspondence no longer checks",
            "theorem_or_correspondence": ("Props/C19.v: " + getattr(chk, "proof_failure", "?")) if not proved
            else "correspondence Time.Model vs numbat/src/vm.rs date-time operations",
            "mismatching_cases": len(mismatches),
            "first_case": mismatches[0] if mismatches else None,
            "oracle": "metamorphic oracle found no failing input among %d evaluations" % len(all_lines),
        }, found_input=False)

    nontrivial = len({(t, d) for t, d in exact if d != math.trunc(d)}) + len(set(unit_cases)) + len(set(zone_cases))
    chk.cov.update({
        "evaluations": len(all_lines),
        "distinct_nontrivial": nontrivial,
        "rule": "exact cases: instants (whole seconds) uniform over the supported range, near the epoch and at the range edges x "
                "durations in seconds (sub-second parts, half-nanosecond ties, span/i64 limits, log-uniform magnitudes, both signs), "
                "3 evaluations each; unit cases: durations in every time unit; zone cases: IANA zones x instants with microseconds "
                "(conversion and parse-after-format); non-trivial = duration with a sub-second part, or a unit/zone case; distinct by input",
        "exhaustive": False,
        "exact_model_cases": len(exact), "model_mismatches": len(mismatches),
        "cases_where_exact_rational_model_differs_by_1ns_from_f64_refinement": one_ns,
        "exact_case_outcomes": dict(outcome_hist),
        "unit_cases": len(unit_cases), "zone_cases": len(zone_cases), "local_zone_passes": sorted(local_zone_runs), "oracle_failures": len(fails),
        "samples": [{"source": all_lines[i], "implementation": outs[i]} for i in (0, len(lines), len(lines) + len(ulines) + 1, len(all_lines) - 1)],
    })
    chk.assumptions += ["the duration operand is known exactly only for durations written in seconds; other units are covered by the oracle with tolerances",
                        "instants observed through as_nanosecond(); local zone of the sandbox is UTC"]


def replay(path):
    r = json.load(open(path))
    if "source" not in r:
        print(json.dumps(r, indent=1, ensure_ascii=False))
        return 0
    binary, _ = common.build_harness()
    o = common.run_harness(binary, "eval", [r["source"]], shards=1)[0]
    print("source:", r["source"])
    print("implementation:", o)
    return 1
