"""Generator for statement-level syntax (C10): fn / unit / dimension / struct / use / let with type
annotations and decorators, as token lists (for syntaxlib.render) together with the tree the grammar
comment of parser.rs prescribes, in the format of numbat::verif::syntax::dump_ast."""
from fractions import Fraction

from props import syntaxlib as L

TYPE_NAMES = ["Length", "Time", "Mass", "Scalar", "A", "B", "D", "Velocity", "T1"]
DECO_TEXTS = ["Foo bar", "simple", 'a \\"q\\" b', "{{x}}", "ünï", "back\\\\slash", "(p) , c"]


def T(kind, lex=None):
    return (kind, lex)


# ------------------------------------------------------------------ dimension expressions
def gen_texp(rng, d, generic=True):
    r = rng.random()
    if d <= 0 or r < 0.35:
        if rng.random() < 0.12:
            return ("tunity",)
        if generic and rng.random() < 0.12:
            return ("tid", rng.choice(["Pt", "Rec", "S"]), [gen_tann(rng, d - 1) for _ in range(rng.choice([0, 1, 2]))], True)
        return ("tid", rng.choice(TYPE_NAMES), [], False)
    if r < 0.55:
        return ("tmul", gen_texp(rng, d - 1, generic), gen_texp(rng, d - 1, generic))
    if r < 0.75:
        return ("tdiv", gen_texp(rng, d - 1, generic), gen_texp(rng, d - 1, generic))
    e = rng.choice([Fraction(2), Fraction(3), Fraction(-1), Fraction(-2), Fraction(1, 2), Fraction(-3, 2),
                    Fraction(1, 3), Fraction(4, 6), Fraction(10)])
    style = rng.choice(["caret", "caret", "unicode"]) if e.denominator == 1 and 1 <= abs(e.numerator) <= 9 else "caret"
    return ("tpow", gen_texp(rng, d - 1, generic), e, style)


def texp_level(t):
    return {"tunity": 3, "tid": 3, "tpow": 2, "tmul": 1, "tdiv": 1}[t[0]]


def texp_toks(t, level=1):
    k = t[0]
    if texp_level(t) < level:
        return [T("LeftParen")] + texp_toks(t, 1) + [T("RightParen")]
    if k == "tunity":
        return [T("Number", "1")]
    if k == "tid":
        out = [T("Identifier", t[1])]
        if t[3]:
            out.append(T("LessThan"))
            for i, a in enumerate(t[2]):
                if i:
                    out.append(T("Comma"))
                out += tann_toks(a)
            out.append(T("GreaterThan"))
        return out
    if k in ("tmul", "tdiv"):
        return texp_toks(t[1], 1) + [T("Multiply" if k == "tmul" else "Divide")] + texp_toks(t[2], 2)
    if k == "tpow":
        base = texp_toks(t[1], 3)
        e = t[2]
        if t[3] == "unicode":
            return base + [T("UnicodeExponent", ("⁻" if e < 0 else "") + L.SUP[abs(e.numerator)])]
        if e.denominator == 1:
            ex = ([T("Minus")] if e < 0 else []) + [T("Number", str(abs(e.numerator)))]
        else:
            ex = [T("LeftParen")] + ([T("Minus")] if e < 0 else []) + [T("Number", str(abs(e.numerator))), T("Divide"),
                                                                  T("Number", str(e.denominator)), T("RightParen")]
        return base + [T("Power")] + ex
    raise ValueError(k)


def texp_sexpr(t):
    k = t[0]
    if k == "tunity":
        return "(tunity)"
    if k == "tid":
        return "(tid %s%s)" % (L.esc(t[1]), "".join(" " + tann_sexpr(a) for a in t[2]))
    if k in ("tmul", "tdiv"):
        return "(%s %s %s)" % (k, texp_sexpr(t[1]), texp_sexpr(t[2]))
    e = t[2]
    return "(tpow %s %d/%d)" % (texp_sexpr(t[1]), e.numerator, e.denominator)


# ------------------------------------------------------------------ type annotations
def gen_tann(rng, d):
    r = rng.random()
    if d <= 0 or r < 0.55:
        if r < 0.1:
            return (rng.choice(["tbool", "tstring", "tdatetime"]),)
        return ("texp", gen_texp(rng, max(d, 0)))
    if r < 0.75:
        return ("tlist", gen_tann(rng, d - 1))
    if r < 0.9:
        return ("tfn", [gen_tann(rng, d - 1) for _ in range(rng.choice([0, 1, 2]))], gen_tann(rng, d - 1))
    return (rng.choice(["tbool", "tstring", "tdatetime"]),)


def tann_toks(t):
    k = t[0]
    if k == "texp":
        return texp_toks(t[1])
    if k == "tbool":
        return [T("Bool")]
    if k == "tstring":
        return [T("String")]
    if k == "tdatetime":
        return [T("DateTime")]
    if k == "tlist":
        return [T("List"), T("LessThan")] + tann_toks(t[1]) + [T("GreaterThan")]
    out = [T("CapitalFn"), T("LeftBracket"), T("LeftParen")]
    for i, a in enumerate(t[1]):
        if i:
            out.append(T("Comma"))
        out += tann_toks(a)
    return out + [T("RightParen"), T("Arrow")] + tann_toks(t[2]) + [T("RightBracket")]


def tann_sexpr(t):
    k = t[0]
    if k == "texp":
        return texp_sexpr(t[1])
    if k in ("tbool", "tstring", "tdatetime"):
        return "(%s)" % k
    if k == "tlist":
        return "(tlist %s)" % tann_sexpr(t[1])
    return "(tfn (params%s) %s)" % ("".join(" " + tann_sexpr(a) for a in t[1]), tann_sexpr(t[2]))


# ------------------------------------------------------------------ decorators
def gen_decorators(rng, allowed):
    out = []
    for _ in range(rng.choice([0, 1, 1, 2, 3])):
        k = rng.choice(allowed)
        if k in ("metric_prefixes", "binary_prefixes", "abbreviation"):
            out.append((k,))
        elif k == "aliases":
            n = rng.choice([0, 1, 2, 3])
            out.append(("aliases", [(rng.choice(L.IDENTS[:14]), rng.choice([None, None, "long", "short", "both", "none"]))
                                    for _ in range(n)]))
        elif k in ("url", "name", "description"):
            out.append((k, rng.choice(DECO_TEXTS)))
        else:
            out.append(("example", rng.choice(DECO_TEXTS), rng.choice([None, rng.choice(DECO_TEXTS)])))
    return out


def deco_toks(ds, rng):
    out = []
    for d in ds:
        out += [T("At"), T("Identifier", d[0])]
        if d[0] == "aliases":
            out.append(T("LeftParen"))
            for i, (n, a) in enumerate(d[1]):
                if i:
                    out.append(T("Comma"))
                out.append(T("Identifier", n))
                if a:
                    out += [T("Colon"), T(a.capitalize())]
            out.append(T("RightParen"))
        elif d[0] in ("url", "name", "description"):
            out += [T("LeftParen"), T("StringFixed", '"%s"' % d[1]), T("RightParen")]
        elif d[0] == "example":
            out += [T("LeftParen"), T("StringFixed", '"%s"' % d[1])]
            if d[2] is not None:
                out += [T("Comma"), T("StringFixed", '"%s"' % d[2])]
            out.append(T("RightParen"))
        if rng.random() < 0.5:
            out.append(T("Newline"))
    return out


def qs(s):
    return '"%s"' % L.esc(L.unescape_numbat(s))


def deco_sexpr(ds):
    parts = []
    for d in ds:
        if d[0] == "aliases":
            parts.append("(aliases%s)" % "".join(" (%s %s)" % (L.esc(n), a or "_") for n, a in d[1]))
        elif d[0] in ("url", "name", "description"):
            parts.append("(%s %s)" % (d[0], qs(d[1])))
        elif d[0] == "example":
            parts.append("(example %s %s)" % (qs(d[1]), qs(d[2]) if d[2] is not None else "_"))
        else:
            parts.append("(%s)" % d[0])
    return "(decos%s)" % "".join(" " + p for p in parts)


# ------------------------------------------------------------------ statements
def opt(s):
    return s if s is not None else "_"


def gen_statement(rng):
    """-> (tokens, expected dump or None when the grammar rejects it for a documented reason)"""
    k = rng.choice(["let", "let", "fn", "fn", "fn", "unit", "unit", "dimension", "struct", "use"])
    d = rng.choice([1, 2, 2, 3])
    if k == "let":
        decos = gen_decorators(rng, ["name", "url", "description", "aliases"]) if rng.random() < 0.4 else []
        name = rng.choice(L.IDENTS[:14])
        ann = gen_tann(rng, d) if rng.random() < 0.6 else None
        e = L.gen_tree(rng, d)
        toks = deco_toks(decos, rng) + [T("Let"), T("Identifier", name)]
        if ann:
            toks += [T("Colon")] + tann_toks(ann)
        toks += [T("Equal")] + L.toks(e)
        if any(x[0] == "aliases" and any(a for _, a in x[1]) for x in decos):
            return toks, "ERR DecoratorsWithPrefixOnLetDefinition"
        return toks, "OK (let %s %s %s %s)" % (L.esc(name), opt(ann and tann_sexpr(ann)), deco_sexpr(decos), L.sexpr(e))
    if k == "fn":
        decos = gen_decorators(rng, ["name", "url", "description", "example"]) if rng.random() < 0.4 else []
        name = rng.choice(["f", "g", "foo", "sq"])
        tps = [(rng.choice(["A", "B", "D", "T1"]), rng.random() < 0.5) for _ in range(rng.choice([0, 0, 1, 2]))]
        has_tps = bool(tps) or rng.random() < 0.05
        params = [(rng.choice(["x", "y", "z", "t"]), gen_tann(rng, d - 1) if rng.random() < 0.6 else None)
                  for _ in range(rng.choice([0, 1, 2, 3]))]
        ret = gen_tann(rng, d - 1) if rng.random() < 0.5 else None
        body = L.gen_tree(rng, d) if rng.random() < 0.8 else None
        locals_ = []
        if body is not None and rng.random() < 0.4:
            for _ in range(rng.choice([1, 1, 2])):
                locals_.append((rng.choice(["u", "v", "w"]), gen_tann(rng, d - 1) if rng.random() < 0.3 else None,
                                L.gen_tree(rng, d - 1)))
        toks = deco_toks(decos, rng) + [T("Fn"), T("Identifier", name)]
        if has_tps:
            toks.append(T("LessThan"))
            for i, (n, b) in enumerate(tps):
                if i:
                    toks.append(T("Comma"))
                toks.append(T("Identifier", n))
                if b:
                    toks += [T("Colon"), T("Identifier", "Dim")]
            toks.append(T("GreaterThan"))
        toks.append(T("LeftParen"))
        for i, (n, a) in enumerate(params):
            if i:
                toks.append(T("Comma"))
            toks.append(T("Identifier", n))
            if a:
                toks += [T("Colon")] + tann_toks(a)
        if params and rng.random() < 0.1:
            toks.append(T("Comma"))
        toks.append(T("RightParen"))
        if ret:
            toks += [T("Arrow")] + tann_toks(ret)
        if body is not None:
            toks += [T("Equal")] + L.toks(body)
            for i, (n, a, e) in enumerate(locals_):
                if rng.random() < 0.5:
                    toks.append(T("Newline"))
                toks += [T("Where" if i == 0 else "And"), T("Identifier", n)]
                if a:
                    toks += [T("Colon")] + tann_toks(a)
                toks += [T("Equal")] + L.toks(e)
        exp = "OK (fn %s (tparams%s) (params%s) %s %s (where%s) %s)" % (
            L.esc(name), "".join(" (%s %s)" % (n, "Dim" if b else "_") for n, b in tps),
            "".join(" (%s %s)" % (n, opt(a and tann_sexpr(a))) for n, a in params), opt(ret and tann_sexpr(ret)),
            L.sexpr(body) if body is not None else "_",
            "".join(" (let %s %s (decos) %s)" % (n, opt(a and tann_sexpr(a)), L.sexpr(e)) for n, a, e in locals_),
            deco_sexpr(decos))
        return toks, exp
    if k == "unit":
        decos = gen_decorators(rng, ["name", "url", "description", "aliases", "metric_prefixes", "binary_prefixes",
                                     "abbreviation"]) if rng.random() < 0.6 else []
        name = rng.choice(["foo", "meter", "furlong", "u2"])
        ann = gen_texp(rng, d, generic=False) if rng.random() < 0.6 else None
        e = L.gen_tree(rng, d) if rng.random() < 0.6 else None
        toks = deco_toks(decos, rng) + [T("Unit"), T("Identifier", name)]
        if ann:
            toks += [T("Colon")] + texp_toks(ann)
        if e is not None:
            toks += [T("Equal")] + L.toks(e)
        return toks, "OK (unit %s %s %s %s)" % (L.esc(name), opt(ann and texp_sexpr(ann)),
                                                L.sexpr(e) if e is not None else "_", deco_sexpr(decos))
    if k == "dimension":
        name = rng.choice(["Foo", "Dim1", "Area2"])
        ds = [gen_texp(rng, d, generic=False) for _ in range(rng.choice([0, 1, 1, 2]))]
        toks = [T("Dimension"), T("Identifier", name)]
        for x in ds:
            toks += [T("Equal")] + texp_toks(x)
        return toks, "OK (dimension %s%s)" % (name, "".join(" " + texp_sexpr(x) for x in ds))
    if k == "struct":
        name = rng.choice(["S", "Pt", "Rec"])
        tps = [(rng.choice(["A", "B"]), rng.random() < 0.5) for _ in range(rng.choice([0, 0, 1, 2]))]
        fields = [(rng.choice(L.FIELDS), gen_tann(rng, d)) for _ in range(rng.choice([0, 1, 2, 3]))]
        toks = [T("Struct"), T("Identifier", name)]
        if tps:
            toks.append(T("LessThan"))
            for i, (n, b) in enumerate(tps):
                if i:
                    toks.append(T("Comma"))
                toks.append(T("Identifier", n))
                if b:
                    toks += [T("Colon"), T("Identifier", "Dim")]
            toks.append(T("GreaterThan"))
        toks.append(T("LeftCurly"))
        for i, (f, a) in enumerate(fields):
            if i:
                toks.append(T("Comma"))
                if rng.random() < 0.3:
                    toks.append(T("Newline"))
            toks += [T("Identifier", f), T("Colon")] + tann_toks(a)
        if fields and rng.random() < 0.3:
            toks.append(T("Comma"))
        toks.append(T("RightCurly"))
        return toks, "OK (struct-def %s (tparams%s) (fields%s))" % (
            name, "".join(" (%s %s)" % (n, "Dim" if b else "_") for n, b in tps),
            "".join(" (%s %s)" % (f, tann_sexpr(a)) for f, a in fields))
    path = [rng.choice(["units", "core", "math", "si", "extra"]) for _ in range(rng.choice([1, 2, 3]))]
    toks = [T("Use")]
    for i, m in enumerate(path):
        if i:
            toks.append(T("DoubleColon"))
        toks.append(T("Identifier", m))
    return toks, "OK (use%s)" % "".join(" " + m for m in path)
