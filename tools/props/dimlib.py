"""Shared pieces of the dimension checks (C02, C16, C01): translator of the prelude's
dimension registry / identifier types into coq/theories/Gen/PreludeDims.v, the program AST
with its two renderings (Numbat source for the implementation, Gallina term for the model),
and the seeded program generator with its independent dimensional analysis.
"""
import os
import re
from fractions import Fraction

import common

GEN_DIR = os.path.join(common.COQ, "theories", "Gen")

# identifiers of the prelude the generated programs may use
UNITS = ["meter", "second", "gram", "ampere", "kelvin", "newton", "joule", "watt", "hertz",
         "pascal", "volt", "hour", "inch", "liter"]
# spelling used in source -> (environment name, prefix factor irrelevant for types)
UNIT_SPELLINGS = {
    "m": "meter", "s": "second", "g": "gram", "A": "ampere", "K": "kelvin", "N": "newton",
    "J": "joule", "W": "watt", "Hz": "hertz", "Pa": "pascal", "V": "volt", "h": "hour",
    "km": "meter", "cm": "meter", "mm": "meter", "ms": "second", "kg": "gram", "mA": "ampere",
    "kN": "newton", "kJ": "joule", "MW": "watt", "kHz": "hertz", "inch": "inch", "L": "liter",
    "hour": "hour", "meter": "meter", "second": "second",
}
CONSTANTS = ["pi", "c", "gravity", "planck_constant"]
FUNCTIONS = ["sqrt", "sqr", "abs", "cbrt", "mean", "hypot2", "round_in", "floor_in"]
DIMS = ["Length", "Time", "Mass", "Current", "Temperature", "Velocity", "Acceleration", "Force",
        "Energy", "Power", "Frequency", "Area", "Volume", "Pressure", "Momentum", "Scalar",
        "Voltage", "ElectricCharge"]


# --------------------------------------------------------------- type text -> Coq
def coq_str(s):
    return '"' + s.replace('"', '""') + '"'


def coq_q(fr):
    fr = Fraction(fr)
    return "(qcf (%d)%%Z %d%%positive)" % (fr.numerator, fr.denominator)


class TypeParser:
    """parser of the hook's type text (numbat::verif::dim)"""

    def __init__(self, s):
        self.s, self.i = s, 0

    def peek(self):
        return self.s[self.i] if self.i < len(self.s) else ""

    def name(self, stops):
        j = self.i
        while j < len(self.s) and self.s[j] not in stops:
            j += 1
        n = self.s[self.i:j]
        self.i = j
        return n

    def ty(self):
        c = self.peek()
        self.i += 1
        if c == "V":
            return ("V", self.name(",)>]#|"))
        if c == "G":
            return ("G", int(self.name(",)>]#|")))
        if c == "P":
            return ("P", self.name(",)>]#|"))
        if c in "BST":
            return (c,)
        if c == "L":
            assert self.peek() == "<"
            self.i += 1
            e = self.ty()
            assert self.peek() == ">"
            self.i += 1
            return ("L", e)
        if c == "X":
            return ("X", self.name(",)>]#|"))
        if c == "D":
            assert self.peek() == "["
            self.i += 1
            fs = []
            while self.peek() != "]":
                k = self.peek()
                self.i += 1
                nm = self.name("^")
                self.i += 1
                num = self.name("/")
                self.i += 1
                den = self.name(";]")
                if self.peek() == ";":
                    self.i += 1
                fs.append((k, nm, Fraction(int(num), int(den))))
            self.i += 1
            return ("D", fs)
        if c == "F":
            assert self.peek() == "("
            self.i += 1
            ps = []
            while self.peek() != ")":
                ps.append(self.ty())
                if self.peek() == ",":
                    self.i += 1
            self.i += 1
            assert self.s[self.i:self.i + 2] == "->"
            self.i += 2
            return ("F", ps, self.ty())
        raise ValueError("bad type text %r at %d" % (self.s, self.i))


def parse_scheme(text):
    """-> (n or None, bounds, type)"""
    if text.startswith("C:"):
        return (None, [], TypeParser(text[2:]).ty())
    m = re.match(r"Q(\d+)\[", text)
    p = TypeParser(text)
    p.i = m.end()
    bs = []
    while p.peek() != "]":
        bs.append(p.ty())
        if p.peek() == ",":
            p.i += 1
    p.i += 2  # "]:"
    return (int(m.group(1)), bs, p.ty())


def coq_factor(k, nm):
    if k == "v":
        return "FVar (VNamed %s)" % coq_str(nm)
    if k == "g":
        return "FVar (VQuant %d)" % int(nm)
    if k == "p":
        return "FPar %s" % coq_str(nm)
    return "FBase %s" % coq_str(nm)


def coq_dtype(fs):
    return "[" + "; ".join("(%s, %s)" % (coq_factor(k, nm), coq_q(e)) for k, nm, e in fs) + "]"


def coq_ty(t):
    k = t[0]
    if k == "V":
        return "(TVar (VNamed %s))" % coq_str(t[1])
    if k == "G":
        return "(TVar (VQuant %d))" % t[1]
    if k == "P":
        return "(TPar %s)" % coq_str(t[1])
    if k == "B":
        return "TBool"
    if k == "S":
        return "TString"
    if k == "T":
        return "TDateTime"
    if k == "L":
        return "(TList %s)" % coq_ty(t[1])
    if k == "D":
        return "(TDim %s)" % coq_dtype(t[1])
    raise ValueError("type outside the model: %r" % (t,))


def has_fn_or_struct(t):
    if t[0] in ("F", "X"):
        return True
    if t[0] == "L":
        return has_fn_or_struct(t[1])
    return False


# --------------------------------------------------------------- translator
def dump_env(binary, names):
    rc, out = common.sh([binary, "dim-env"], inp="\n".join(names) + "\n", timeout=300)
    if rc != 0:
        raise common.Broken("nbverif dim-env failed: " + out[-2000:])
    counter, base, derived, idents = None, [], [], {}
    for line in out.splitlines():
        p = line.split(" ")
        if p[0] == "counter":
            counter = int(p[1])
        elif p[0] == "base":
            base.append(p[1])
        elif p[0] == "derived":
            fs = []
            if len(p) > 2 and p[2]:
                for f in p[2].split(";"):
                    m = re.match(r"b(.+)\^(-?\d+)/(\d+)$", f)
                    fs.append(("b", m.group(1), Fraction(int(m.group(2)), int(m.group(3)))))
            derived.append((p[1], fs))
        elif p[0] == "ident":
            idents[p[1]] = None if p[2] == "-" else p[2]
    return counter, base, derived, idents


def write_if_changed(path, text):
    os.makedirs(os.path.dirname(path), exist_ok=True)
    if os.path.exists(path) and open(path).read() == text:
        return False
    with open(path, "w") as f:
        f.write(text)
    return True


def translate_prelude(binary):
    """Gen/PreludeDims.v: the dimension registry, the name counter and the environment entries
    of the identifiers the generators use, dumped from the running implementation."""
    names = UNITS + CONSTANTS + FUNCTIONS
    counter, base, derived, idents = dump_env(binary, names)
    missing = [n for n in names if not idents.get(n)]
    if counter is None or not base or missing:
        raise common.Broken("dim-env dump incomplete (missing %s)" % missing)
    L = ["(* GENERATED by tools/props/dimlib.py from `nbverif dim-env` (hook numbat::verif::dim) —",
         "   never edit; regenerated on every check run. *)",
         "From Coq Require Import String List ZArith QArith Qcanon.",
         "From NV Require Import Dim.Model Dim.Infer.",
         "Import ListNotations.", "Open Scope string_scope.", "",
         "Definition prelude_counter : N := %d%%N." % counter,
         "Definition prelude_base : list string := [%s]." % "; ".join(coq_str(b) for b in base),
         "Definition prelude_derived : list (string * dtype) := ["]
    # the registry keeps derived entries in a map; lookup is by name, order irrelevant
    L.append(";\n".join("  (%s, %s)" % (coq_str(n), coq_dtype(fs)) for n, fs in derived))
    L.append("].")
    L.append("Definition prelude_env : env := [")
    ents = []
    for n in names:
        kind, text = idents[n].split("|", 1)
        q, bs, t = parse_scheme(text)
        if kind == "N":
            if q is None:
                ents.append("  (%s, IdNormal (Concrete %s))" % (coq_str(n), coq_ty(t)))
            else:
                ents.append("  (%s, IdNormal (Quantified %d %s [%s]))" % (
                    coq_str(n), q, coq_ty(t), "; ".join(coq_ty(b) for b in bs)))
        else:
            assert t[0] == "F"
            ps = "[" + "; ".join(coq_ty(p) for p in t[1]) + "]"
            if q is None:
                ents.append("  (%s, IdFunction (FConcrete %s %s))" % (coq_str(n), ps, coq_ty(t[2])))
            else:
                ents.append("  (%s, IdFunction (FQuantified %d %s %s [%s]))" % (
                    coq_str(n), q, ps, coq_ty(t[2]), "; ".join(coq_ty(b) for b in bs)))
    L.append(";\n".join(ents))
    L.append("].")
    L.append("Definition prelude_tc : tc :=")
    L.append("  mkTc prelude_env (mkReg prelude_base prelude_derived []) prelude_counter [].")
    L.append("")
    changed = write_if_changed(os.path.join(GEN_DIR, "PreludeDims.v"), "\n".join(L) + "\n")
    return dict(counter=counter, base=base, derived=dict(derived), idents=idents, changed=changed)


# --------------------------------------------------------------- program AST
# expressions are tuples:
#  ("num", "2.5")  ("id", name)  ("unit", spelling)  ("un", op, e)  ("bin", op, a, b)
#  ("call", f, [args])  ("bool", b)  ("str",)  ("if", c, t, e)  ("list", [es])
BINOPS = {"+": "OAdd", "-": "OSub", "*": "OMul", "/": "ODiv", "^": "OPow", "->": "OConv",
          "<": "OLt", ">": "OGt", "<=": "OLe", ">=": "OGe", "==": "OEq", "!=": "ONe",
          "&&": "OAnd", "||": "OOr"}


def src_expr(e):
    k = e[0]
    if k == "num":
        return e[1]
    if k in ("id", "unit"):
        return e[1]
    if k == "un":
        if e[1] == "neg":
            return "(-%s)" % src_expr(e[2])
        if e[1] == "fact":
            return "(%s)!" % src_expr(e[2])
        return "(!%s)" % src_expr(e[2])
    if k == "bin":
        return "(%s %s %s)" % (src_expr(e[2]), e[1], src_expr(e[3]))
    if k == "call":
        return "%s(%s)" % (e[1], ", ".join(src_expr(a) for a in e[2]))
    if k == "bool":
        return "true" if e[1] else "false"
    if k == "str":
        return '"s"'
    if k == "if":
        return "(if %s then %s else %s)" % (src_expr(e[1]), src_expr(e[2]), src_expr(e[3]))
    if k == "list":
        return "[%s]" % ", ".join(src_expr(a) for a in e[1])
    raise ValueError(e)


def coq_expr(e):
    k = e[0]
    if k == "num":
        return "(EScalar %s)" % coq_q(Fraction(e[1]))
    if k == "id":
        return "(EIdent %s)" % coq_str(e[1])
    if k == "unit":
        return "(EUnit %s)" % coq_str(UNIT_SPELLINGS.get(e[1], e[1]))
    if k == "un":
        return "(EUn %s %s)" % ({"neg": "UNeg", "fact": "UFact", "not": "UNot"}[e[1]], coq_expr(e[2]))
    if k == "bin":
        return "(EBin %s %s %s)" % (BINOPS[e[1]], coq_expr(e[2]), coq_expr(e[3]))
    if k == "call":
        return "(ECall %s [%s])" % (coq_str(e[1]), "; ".join(coq_expr(a) for a in e[2]))
    if k == "bool":
        return "(EBool %s)" % ("true" if e[1] else "false")
    if k == "str":
        return "EStr"
    if k == "if":
        return "(EIf %s %s %s)" % (coq_expr(e[1]), coq_expr(e[2]), coq_expr(e[3]))
    if k == "list":
        return "(EList [%s])" % "; ".join(coq_expr(a) for a in e[1])
    raise ValueError(e)


# dimension expressions: ("one",) ("name", n) ("mul", a, b) ("div", a, b) ("pow", a, Fraction)
def src_dexpr(d):
    k = d[0]
    if k == "one":
        return "1"
    if k == "name":
        return d[1]
    if k == "mul":
        return "(%s * %s)" % (src_dexpr(d[1]), src_dexpr(d[2]))
    if k == "div":
        return "(%s / %s)" % (src_dexpr(d[1]), src_dexpr(d[2]))
    if k == "pow":
        fr = Fraction(d[2])
        ex = str(fr.numerator) if fr.denominator == 1 else "(%d/%d)" % (fr.numerator, fr.denominator)
        return "%s^%s" % (src_dexpr(d[1]) if d[1][0] == "name" else "(" + src_dexpr(d[1]) + ")", ex)
    raise ValueError(d)


def coq_dexpr(d):
    k = d[0]
    if k == "one":
        return "DUnity"
    if k == "name":
        return "(DName %s)" % coq_str(d[1])
    if k == "mul":
        return "(DMul %s %s)" % (coq_dexpr(d[1]), coq_dexpr(d[2]))
    if k == "div":
        return "(DDiv %s %s)" % (coq_dexpr(d[1]), coq_dexpr(d[2]))
    if k == "pow":
        return "(DPow %s %s)" % (coq_dexpr(d[1]), coq_q(d[2]))
    raise ValueError(d)


# annotations: ("dim", dexpr) ("bool",) ("string",) ("list", annot)
def src_annot(a):
    if a[0] == "dim":
        return src_dexpr(a[1])
    if a[0] == "bool":
        return "Bool"
    if a[0] == "string":
        return "String"
    return "List<%s>" % src_annot(a[1])


def coq_annot(a):
    if a[0] == "dim":
        return "(ADim %s)" % coq_dexpr(a[1])
    if a[0] == "bool":
        return "ABool"
    if a[0] == "string":
        return "AString"
    return "(AList %s)" % coq_annot(a[1])


def coq_opt(a, f):
    return "None" if a is None else "(Some %s)" % f(a)


# statements:
#  ("expr", e) ("let", x, annot|None, e)
#  ("fn", f, [(tp, bounded)], [(p, annot|None)], ret|None, [(x, annot|None, e)], body)
#  ("dimbase", n) ("dim", n, [dexprs]) ("unitbase", n, dexpr) ("unit", n, annot|None, e)
#  ("proc", "print"|"assert"|"assert_eq"|"type", [args])
def src_stmt(s):
    k = s[0]
    if k == "expr":
        return src_expr(s[1])
    if k == "let":
        return "let %s%s = %s" % (s[1], "" if s[2] is None else ": " + src_annot(s[2]), src_expr(s[3]))
    if k == "fn":
        tps = ""
        if s[2]:
            tps = "<" + ", ".join(n + (": Dim" if b else "") for n, b in s[2]) + ">"
        ps = ", ".join(p + ("" if a is None else ": " + src_annot(a)) for p, a in s[3])
        ret = "" if s[4] is None else " -> " + src_annot(s[4])
        body = src_expr(s[6])
        wh = ""
        for n, (x, a, e) in enumerate(s[5]):
            wh += " %s %s%s = %s" % ("where" if n == 0 else "and", x,
                                     "" if a is None else ": " + src_annot(a), src_expr(e))
        return "fn %s%s(%s)%s = %s%s" % (s[1], tps, ps, ret, body, wh)
    if k == "dimbase":
        return "dimension %s" % s[1]
    if k == "dim":
        return "dimension %s = %s" % (s[1], " = ".join(src_dexpr(d) for d in s[2]))
    if k == "unitbase":
        return "unit %s: %s" % (s[1], src_dexpr(s[2]))
    if k == "unit":
        return "unit %s%s = %s" % (s[1], "" if s[2] is None else ": " + src_annot(s[2]), src_expr(s[3]))
    if k == "proc":
        return "%s(%s)" % (s[1], ", ".join(src_expr(a) for a in s[2]))
    raise ValueError(s)


def coq_stmt(s):
    k = s[0]
    if k == "expr":
        return "SExpr %s" % coq_expr(s[1])
    if k == "let":
        return "SLet %s %s %s" % (coq_str(s[1]), coq_opt(s[2], coq_annot), coq_expr(s[3]))
    if k == "fn":
        tps = "[" + "; ".join("(%s, %s)" % (coq_str(n), "true" if b else "false") for n, b in s[2]) + "]"
        ps = "[" + "; ".join("(%s, %s)" % (coq_str(p), coq_opt(a, coq_annot)) for p, a in s[3]) + "]"
        ls = "[" + "; ".join("(%s, %s, %s)" % (coq_str(x), coq_opt(a, coq_annot), coq_expr(e))
                             for x, a, e in s[5]) + "]"
        return "SFn %s %s %s %s %s %s" % (coq_str(s[1]), tps, ps, coq_opt(s[4], coq_annot), ls,
                                           coq_expr(s[6]))
    if k == "dimbase":
        return "SDimBase %s" % coq_str(s[1])
    if k == "dim":
        return "SDimDerived %s [%s]" % (coq_str(s[1]), "; ".join(coq_dexpr(d) for d in s[2]))
    if k == "unitbase":
        return 'SUnitBase %s (Some %s) ""' % (coq_str(s[1]), coq_dexpr(s[2]))
    if k == "unit":
        return "SUnitDerived %s %s %s" % (coq_str(s[1]), coq_opt(s[2], coq_annot), coq_expr(s[3]))
    if k == "proc":
        p = {"print": "PPrint", "assert": "PAssert", "assert_eq": "PAssertEq", "type": "PType"}[s[1]]
        return "SProc %s [%s]" % (p, "; ".join(coq_expr(a) for a in s[2]))
    raise ValueError(s)


def src_program(stmts):
    return "\x1f".join(src_stmt(s) for s in stmts)


def coq_program(stmts):
    return "[" + "; ".join(coq_stmt(s) for s in stmts) + "]%list"


def coq_case(inputs):
    """model term for a session of one or two inputs"""
    if len(inputs) == 1:
        return "show_run prelude_tc %s" % coq_program(inputs[0])
    return "show_run2 prelude_tc %s %s" % (coq_program(inputs[0]), coq_program(inputs[1]))


def harness_line(inputs):
    return "\x1e".join(src_program(i) for i in inputs)
