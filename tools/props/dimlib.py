"""Shared pieces of the dimension checks (C02, C16, C01): translator of the prelude's
dimension registry / identifier types into coq/theories/Gen/PreludeDims.v, the program AST
with its two renderings (Numbat source for the implementation, Gallina term for the model),
and the seeded program generator with its independent dimensional analysis.
"""
import os
import re
from fractions import Fraction

import common

GEN_DIR = os.path.join(common.COQ, "theories", "Gen")

# identifiers of the prelude the generated programs may use
UNITS = ["meter", "second", "gram", "ampere", "kelvin", "newton", "joule", "watt", "hertz",
         "pascal", "volt", "hour", "inch", "liter"]
# spelling used in source -> (environment name, prefix factor irrelevant for types)
UNIT_SPELLINGS = {
    "m": "meter", "s": "second", "g": "gram", "A": "ampere", "K": "kelvin", "N": "newton",
    "J": "joule", "W": "watt", "Hz": "hertz", "Pa": "pascal", "V": "volt", "h": "hour",
    "km": "meter", "cm": "meter", "mm": "meter", "ms": "second", "kg": "gram", "mA": "ampere",
    "kN": "newton", "kJ": "joule", "MW": "watt", "kHz": "hertz", "inch": "inch", "L": "liter",
    "hour": "hour", "meter": "meter", "second": "second",
}
CONSTANTS = ["pi", "c", "gravity", "planck_constant"]
FUNCTIONS = ["sqrt", "sqr", "abs", "cbrt", "mean", "hypot2", "round_in", "floor_in"]
DIMS = ["Length", "Time", "Mass", "Current", "Temperature", "Velocity", "Acceleration", "Force",
        "Energy", "Power", "Frequency", "Area", "Volume", "Pressure", "Momentum", "Scalar",
        "Voltage", "ElectricCharge"]


# --------------------------------------------------------------- type text -> Coq
def coq_str(s):
    return '"' + s.replace('"', '""') + '"'


def coq_q(fr):
    fr = Fraction(fr)
    return "(qcf (%d)%%Z %d%%positive)" % (fr.numerator, fr.denominator)


class TypeParser:
    """parser of the hook's type text (numbat::verif::dim)"""

    def __init__(self, s):
        self.s, self.i = s, 0

    def peek(self):
        return self.s[self.i] if self.i < len(self.s) else ""

    def name(self, stops):
        j = self.i
        while j < len(self.s) and self.s[j] not in stops:
            j += 1
        n = self.s[self.i:j]
        self.i = j
        return n

    def ty(self):
        c = self.peek()
        self.i += 1
        if c == "V":
            return ("V", self.name(",)>]#|"))
        if c == "G":
            return ("G", int(self.name(",)>]#|")))
        if c == "P":
            return ("P", self.name(",)>]#|"))
        if c in "BST":
            return (c,)
        if c == "L":
            assert self.peek() == "<"
            self.i += 1
            e = self.ty()
            assert self.peek() == ">"
            self.i += 1
            return ("L", e)
        if c == "X":
            return ("X", self.name(",)>]#|"))
        if c == "D":
            assert self.peek() == "["
            self.i += 1
            fs = []
            while self.peek() != "]":
                k = self.peek()
                self.i += 1
                nm = self.name("^")
                self.i += 1
                num = self.name("/")
                self.i += 1
                den = self.name(";]")
                if self.peek() == ";":
                    self.i += 1
                fs.append((k, nm, Fraction(int(num), int(den))))
            self.i += 1
            return ("D", fs)
        if c == "F":
            assert self.peek() == "("
            self.i += 1
            ps = []
            while self.peek() != ")":
                ps.append(self.ty())
                if self.peek() == ",":
                    self.i += 1
            self.i += 1
            assert self.s[self.i:self.i + 2] == "->"
            self.i += 2
            return ("F", ps, self.ty())
        raise ValueError("bad type text %r at %d" % (self.s, self.i))


def parse_scheme(text):
    """-> (n or None, bounds, type)"""
    if text.startswith("C:"):
        return (None, [], TypeParser(text[2:]).ty())
    m = re.match(r"Q(\d+)\[", text)
    p = TypeParser(text)
    p.i = m.end()
    bs = []
    while p.peek() != "]":
        bs.append(p.ty())
        if p.peek() == ",":
            p.i += 1
    p.i += 2  # "]:"
    return (int(m.group(1)), bs, p.ty())


def coq_factor(k, nm):
    if k == "v":
        return "FVar (VNamed %s)" % coq_str(nm)
    if k == "g":
        return "FVar (VQuant %d)" % int(nm)
    if k == "p":
        return "FPar %s" % coq_str(nm)
    return "FBase %s" % coq_str(nm)


def coq_dtype(fs):
    return "[" + "; ".join("(%s, %s)" % (coq_factor(k, nm), coq_q(e)) for k, nm, e in fs) + "]"


def coq_ty(t):
    k = t[0]
    if k == "V":
        return "(TVar (VNamed %s))" % coq_str(t[1])
    if k == "G":
        return "(TVar (VQuant %d))" % t[1]
    if k == "P":
        return "(TPar %s)" % coq_str(t[1])
    if k == "B":
        return "TBool"
    if k == "S":
        return "TString"
    if k == "T":
        return "TDateTime"
    if k == "L":
        return "(TList %s)" % coq_ty(t[1])
    if k == "D":
        return "(TDim %s)" % coq_dtype(t[1])
    raise ValueError("type outside the model: %r" % (t,))


def has_fn_or_struct(t):
    if t[0] in ("F", "X"):
        return True
    if t[0] == "L":
        return has_fn_or_struct(t[1])
    return False


# --------------------------------------------------------------- translator
def dump_env(binary, names):
    rc, out = common.sh([binary, "dim-env"], inp="\n".join(names) + "\n", timeout=300)
    if rc != 0:
        raise common.Broken("nbverif dim-env failed: " + out[-2000:])
    counter, base, derived, idents = None, [], [], {}
    for line in out.splitlines():
        p = line.split(" ")
        if p[0] == "counter":
            counter = int(p[1])
        elif p[0] == "base":
            base.append(p[1])
        elif p[0] == "derived":
            fs = []
            if len(p) > 2 and p[2]:
                for f in p[2].split(";"):
                    m = re.match(r"b(.+)\^(-?\d+)/(\d+)$", f)
                    fs.append(("b", m.group(1), Fraction(int(m.group(2)), int(m.group(3)))))
            derived.append((p[1], fs))
        elif p[0] == "ident":
            idents[p[1]] = None if p[2] == "-" else p[2]
    return counter, base, derived, idents


def write_if_changed(path, text):
    os.makedirs(os.path.dirname(path), exist_ok=True)
    if os.path.exists(path) and open(path).read() == text:
        return False
    with open(path, "w") as f:
        f.write(text)
    return True


def translate_prelude(binary):
    """Gen/PreludeDims.v: the dimension registry, the name counter and the environment entries
    of the identifiers the generators use, dumped from the running implementation."""
    names = UNITS + CONSTANTS + FUNCTIONS
    counter, base, derived, idents = dump_env(binary, names)
    missing = [n for n in names if not idents.get(n)]
    if counter is None or not base or missing:
        raise common.Broken("dim-env dump incomplete (missing %s)" % missing)
    L = ["(* GENERATED by tools/props/dimlib.py from `nbverif dim-env` (hook numbat::verif::dim) —",
         "   never edit; regenerated on every check run. *)",
         "From Coq Require Import String List ZArith QArith Qcanon.",
         "From NV Require Import Dim.Model Dim.Infer.",
         "Import ListNotations.", "Open Scope string_scope.", "",
         "Definition prelude_counter : N := %d%%N." % counter,
         "Definition prelude_base : list string := [%s]." % "; ".join(coq_str(b) for b in base),
         "Definition prelude_derived : list (string * dtype) := ["]
    # the registry keeps derived entries in a map; lookup is by name, order irrelevant
    L.append(";\n".join("  (%s, %s)" % (coq_str(n), coq_dtype(fs)) for n, fs in derived))
    L.append("].")
    L.append("Definition prelude_env : env := [")
    ents = []
    for n in names:
        kind, text = idents[n].split("|", 1)
        q, bs, t = parse_scheme(text)
        if kind == "N":
            if q is None:
                ents.append("  (%s, IdNormal (Concrete %s))" % (coq_str(n), coq_ty(t)))
            else:
                ents.append("  (%s, IdNormal (Quantified %d %s [%s]))" % (
                    coq_str(n), q, coq_ty(t), "; ".join(coq_ty(b) for b in bs)))
        else:
            assert t[0] == "F"
            ps = "[" + "; ".join(coq_ty(p) for p in t[1]) + "]"
            if q is None:
                ents.append("  (%s, IdFunction (FConcrete %s %s))" % (coq_str(n), ps, coq_ty(t[2])))
            else:
                ents.append("  (%s, IdFunction (FQuantified %d %s %s [%s]))" % (
                    coq_str(n), q, ps, coq_ty(t[2]), "; ".join(coq_ty(b) for b in bs)))
    L.append(";\n".join(ents))
    L.append("].")
    L.append("Definition prelude_tc : tc :=")
    L.append("  mkTc prelude_env (mkReg prelude_base prelude_derived []) prelude_counter [].")
    L.append("")
    changed = write_if_changed(os.path.join(GEN_DIR, "PreludeDims.v"), "\n".join(L) + "\n")
    return dict(counter=counter, base=base, derived=dict(derived), idents=idents, changed=changed)


# --------------------------------------------------------------- program AST
# expressions are tuples:
#  ("num", "2.5")  ("id", name)  ("unit", spelling)  ("un", op, e)  ("bin", op, a, b)
#  ("call", f, [args])  ("bool", b)  ("str",)  ("if", c, t, e)  ("list", [es])
BINOPS = {"+": "OAdd", "-": "OSub", "*": "OMul", "/": "ODiv", "^": "OPow", "->": "OConv",
          "<": "OLt", ">": "OGt", "<=": "OLe", ">=": "OGe", "==": "OEq", "!=": "ONe",
          "&&": "OAnd", "||": "OOr"}


def src_expr(e):
    k = e[0]
    if k == "num":
        return e[1]
    if k in ("id", "unit"):
        return e[1]
    if k == "un":
        if e[1] == "neg":
            return "(-%s)" % src_expr(e[2])
        if e[1] == "fact":
            return "(%s)!" % src_expr(e[2])
        return "(!%s)" % src_expr(e[2])
    if k == "bin":
        return "(%s %s %s)" % (src_expr(e[2]), e[1], src_expr(e[3]))
    if k == "call":
        return "%s(%s)" % (e[1], ", ".join(src_expr(a) for a in e[2]))
    if k == "bool":
        return "true" if e[1] else "false"
    if k == "str":
        return '"s"'
    if k == "if":
        return "(if %s then %s else %s)" % (src_expr(e[1]), src_expr(e[2]), src_expr(e[3]))
    if k == "list":
        return "[%s]" % ", ".join(src_expr(a) for a in e[1])
    raise ValueError(e)


def coq_expr(e):
    k = e[0]
    if k == "num":
        return "(EScalar %s)" % coq_q(Fraction(e[1]))
    if k == "id":
        return "(EIdent %s)" % coq_str(e[1])
    if k == "unit":
        return "(EUnit %s)" % coq_str(UNIT_SPELLINGS.get(e[1], e[1]))
    if k == "un":
        return "(EUn %s %s)" % ({"neg": "UNeg", "fact": "UFact", "not": "UNot"}[e[1]], coq_expr(e[2]))
    if k == "bin":
        return "(EBin %s %s %s)" % (BINOPS[e[1]], coq_expr(e[2]), coq_expr(e[3]))
    if k == "call":
        return "(ECall %s [%s])" % (coq_str(e[1]), "; ".join(coq_expr(a) for a in e[2]))
    if k == "bool":
        return "(EBool %s)" % ("true" if e[1] else "false")
    if k == "str":
        return "EStr"
    if k == "if":
        return "(EIf %s %s %s)" % (coq_expr(e[1]), coq_expr(e[2]), coq_expr(e[3]))
    if k == "list":
        return "(EList [%s])" % "; ".join(coq_expr(a) for a in e[1])
    raise ValueError(e)


# dimension expressions: ("one",) ("name", n) ("mul", a, b) ("div", a, b) ("pow", a, Fraction)
def src_dexpr(d):
    k = d[0]
    if k == "one":
        return "1"
    if k == "name":
        return d[1]
    if k == "mul":
        return "(%s * %s)" % (src_dexpr(d[1]), src_dexpr(d[2]))
    if k == "div":
        return "(%s / %s)" % (src_dexpr(d[1]), src_dexpr(d[2]))
    if k == "pow":
        fr = Fraction(d[2])
        ex = str(fr.numerator) if fr.denominator == 1 else "(%d/%d)" % (fr.numerator, fr.denominator)
        return "%s^%s" % (src_dexpr(d[1]) if d[1][0] == "name" else "(" + src_dexpr(d[1]) + ")", ex)
    raise ValueError(d)


def coq_dexpr(d):
    k = d[0]
    if k == "one":
        return "DUnity"
    if k == "name":
        return "(DName %s)" % coq_str(d[1])
    if k == "mul":
        return "(DMul %s %s)" % (coq_dexpr(d[1]), coq_dexpr(d[2]))
    if k == "div":
        return "(DDiv %s %s)" % (coq_dexpr(d[1]), coq_dexpr(d[2]))
    if k == "pow":
        return "(DPow %s %s)" % (coq_dexpr(d[1]), coq_q(d[2]))
    raise ValueError(d)


# annotations: ("dim", dexpr) ("bool",) ("string",) ("list", annot)
def src_annot(a):
    if a[0] == "dim":
        return src_dexpr(a[1])
    if a[0] == "bool":
        return "Bool"
    if a[0] == "string":
        return "String"
    return "List<%s>" % src_annot(a[1])


def coq_annot(a):
    if a[0] == "dim":
        return "(ADim %s)" % coq_dexpr(a[1])
    if a[0] == "bool":
        return "ABool"
    if a[0] == "string":
        return "AString"
    return "(AList %s)" % coq_annot(a[1])


def coq_opt(a, f):
    return "None" if a is None else "(Some %s)" % f(a)


# statements:
#  ("expr", e) ("let", x, annot|None, e)
#  ("fn", f, [(tp, bounded)], [(p, annot|None)], ret|None, [(x, annot|None, e)], body)
#  ("dimbase", n) ("dim", n, [dexprs]) ("unitbase", n, dexpr) ("unit", n, annot|None, e)
#  ("proc", "print"|"assert"|"assert_eq"|"type", [args])
def src_stmt(s):
    k = s[0]
    if k == "expr":
        return src_expr(s[1])
    if k == "let":
        return "let %s%s = %s" % (s[1], "" if s[2] is None else ": " + src_annot(s[2]), src_expr(s[3]))
    if k == "fn":
        tps = ""
        if s[2]:
            tps = "<" + ", ".join(n + (": Dim" if b else "") for n, b in s[2]) + ">"
        ps = ", ".join(p + ("" if a is None else ": " + src_annot(a)) for p, a in s[3])
        ret = "" if s[4] is None else " -> " + src_annot(s[4])
        body = src_expr(s[6])
        wh = ""
        for n, (x, a, e) in enumerate(s[5]):
            wh += " %s %s%s = %s" % ("where" if n == 0 else "and", x,
                                     "" if a is None else ": " + src_annot(a), src_expr(e))
        return "fn %s%s(%s)%s = %s%s" % (s[1], tps, ps, ret, body, wh)
    if k == "dimbase":
        return "dimension %s" % s[1]
    if k == "dim":
        return "dimension %s = %s" % (s[1], " = ".join(src_dexpr(d) for d in s[2]))
    if k == "unitbase":
        return "unit %s: %s" % (s[1], src_dexpr(s[2]))
    if k == "unit":
        return "unit %s%s = %s" % (s[1], "" if s[2] is None else ": " + src_annot(s[2]), src_expr(s[3]))
    if k == "proc":
        return "%s(%s)" % (s[1], ", ".join(src_expr(a) for a in s[2]))
    raise ValueError(s)


def coq_stmt(s):
    k = s[0]
    if k == "expr":
        return "SExpr %s" % coq_expr(s[1])
    if k == "let":
        return "SLet %s %s %s" % (coq_str(s[1]), coq_opt(s[2], coq_annot), coq_expr(s[3]))
    if k == "fn":
        tps = "[" + "; ".join("(%s, %s)" % (coq_str(n), "true" if b else "false") for n, b in s[2]) + "]"
        ps = "[" + "; ".join("(%s, %s)" % (coq_str(p), coq_opt(a, coq_annot)) for p, a in s[3]) + "]"
        ls = "[" + "; ".join("(%s, %s, %s)" % (coq_str(x), coq_opt(a, coq_annot), coq_expr(e))
                             for x, a, e in s[5]) + "]"
        return "SFn %s %s %s %s %s %s" % (coq_str(s[1]), tps, ps, coq_opt(s[4], coq_annot), ls,
                                           coq_expr(s[6]))
    if k == "dimbase":
        return "SDimBase %s" % coq_str(s[1])
    if k == "dim":
        return "SDimDerived %s [%s]" % (coq_str(s[1]), "; ".join(coq_dexpr(d) for d in s[2]))
    if k == "unitbase":
        return 'SUnitBase %s (Some %s) ""' % (coq_str(s[1]), coq_dexpr(s[2]))
    if k == "unit":
        return "SUnitDerived %s %s %s" % (coq_str(s[1]), coq_opt(s[2], coq_annot), coq_expr(s[3]))
    if k == "proc":
        p = {"print": "PPrint", "assert": "PAssert", "assert_eq": "PAssertEq", "type": "PType"}[s[1]]
        return "SProc %s [%s]" % (p, "; ".join(coq_expr(a) for a in s[2]))
    raise ValueError(s)


def src_program(stmts):
    return "\x1f".join(src_stmt(s) for s in stmts)


def coq_program(stmts):
    return "[" + "; ".join(coq_stmt(s) for s in stmts) + "]%list"


def coq_case(inputs):
    """model term for a session of one or two inputs"""
    if len(inputs) == 1:
        return "show_run prelude_tc %s" % coq_program(inputs[0])
    return "show_run2 prelude_tc %s %s" % (coq_program(inputs[0]), coq_program(inputs[1]))


def harness_line(inputs):
    return "\x1e".join(src_program(i) for i in inputs)


# =====================================================================================
# Part 2 (appended): dimension algebra, the independent dimensional analysis (oracle),
# the typed program generator with its mis-dimensioned variants, sessions, token soup.
# =====================================================================================
BASE_DIMS = ["Length", "Time", "Mass", "Current", "Temperature"]


def _dd(**kw):
    return {k: Fraction(v) for k, v in kw.items() if v}


# the oracle's own knowledge of the prelude's unit / dimension definitions (hand-written
# from the physics, cross-checked against the implementation dump by check_tables)
UNIT_DIMS = {
    "meter": _dd(Length=1), "second": _dd(Time=1), "gram": _dd(Mass=1), "ampere": _dd(Current=1),
    "kelvin": _dd(Temperature=1), "newton": _dd(Length=1, Mass=1, Time=-2),
    "joule": _dd(Length=2, Mass=1, Time=-2), "watt": _dd(Length=2, Mass=1, Time=-3),
    "hertz": _dd(Time=-1), "pascal": _dd(Length=-1, Mass=1, Time=-2),
    "volt": _dd(Length=2, Mass=1, Time=-3, Current=-1), "hour": _dd(Time=1), "inch": _dd(Length=1),
    "liter": _dd(Length=3),
}
CONST_DIMS = {"pi": {}, "c": _dd(Length=1, Time=-1), "gravity": _dd(Length=1, Time=-2),
              "planck_constant": _dd(Length=2, Mass=1, Time=-1)}
DIM_DEFS = {
    "Length": _dd(Length=1), "Time": _dd(Time=1), "Mass": _dd(Mass=1), "Current": _dd(Current=1),
    "Temperature": _dd(Temperature=1), "Velocity": _dd(Length=1, Time=-1),
    "Acceleration": _dd(Length=1, Time=-2), "Force": _dd(Length=1, Mass=1, Time=-2),
    "Energy": _dd(Length=2, Mass=1, Time=-2), "Power": _dd(Length=2, Mass=1, Time=-3),
    "Frequency": _dd(Time=-1), "Area": _dd(Length=2), "Volume": _dd(Length=3),
    "Pressure": _dd(Length=-1, Mass=1, Time=-2), "Momentum": _dd(Length=1, Mass=1, Time=-1),
    "Scalar": {}, "Voltage": _dd(Length=2, Mass=1, Time=-3, Current=-1),
    "ElectricCharge": _dd(Current=1, Time=1),
}


def dn(d):
    return {k: v for k, v in d.items() if v != 0}


def dmul(a, b):
    out = dict(a)
    for k, v in b.items():
        out[k] = out.get(k, 0) + v
    return dn(out)


def dpow(a, q):
    q = Fraction(q)
    return dn({k: v * q for k, v in a.items()})


def ddiv(a, b):
    return dmul(a, dpow(b, -1))


def dcost(d):
    return sum(abs(v) for v in d.values())


def dshow(d):
    if not d:
        return "1"
    return " ".join("%s^%s" % (k, v) for k, v in sorted(d.items()))


def tshow(t):
    if t is None:
        return "-"
    if t[0] == "D":
        return dshow(t[1])
    if t[0] == "L":
        return "List<%s>" % tshow(t[1])
    return {"B": "Bool", "S": "String"}.get(t[0], t[0])


def check_tables(info):
    """the oracle's hand-written tables against the dump of the running implementation"""
    bad = []
    for n, d in DIM_DEFS.items():
        if n in BASE_DIMS:
            if n not in info["base"]:
                bad.append("dimension %s is not a base dimension" % n)
            continue
        fs = info["derived"].get(n)
        if fs is None or dn({nm: e for _, nm, e in fs}) != d:
            bad.append("dimension %s: implementation %r" % (n, fs))
    for n, d in list(UNIT_DIMS.items()) + list(CONST_DIMS.items()):
        q, bs, t = parse_scheme(info["idents"][n].split("|", 1)[1])
        if t[0] != "D" or any(k != "b" for k, _, _ in t[1]) or dn({nm: e for _, nm, e in t[1]}) != d:
            bad.append("identifier %s: implementation %s" % (n, info["idents"][n]))
    return bad


# --------------------------------------------------------------- JSON <-> tuple AST
def to_json(x):
    if isinstance(x, Fraction):
        return "%d/%d" % (x.numerator, x.denominator)
    if isinstance(x, (tuple, list)):
        return [to_json(y) for y in x]
    return x


def from_json(x):
    if isinstance(x, list):
        ys = [from_json(y) for y in x]
        if len(ys) == 3 and ys[0] == "pow" and isinstance(ys[2], str):
            ys[2] = Fraction(ys[2])
        # nodes (first element a tag string) become tuples, plain sequences stay lists
        if ys and isinstance(ys[0], str):
            return tuple(ys)
        return ys
    return x


# --------------------------------------------------------------- the oracle
class Reject(Exception):
    """the statement requires two different dimensions (types) to be equal"""


class UnknownName(Exception):
    def __init__(self, name, kind):
        Exception.__init__(self, "%s %s" % (kind, name))
        self.name, self.kind = name, kind


class OracleUnsupported(Exception):
    """outside the fragment the oracle decides (or outside the property's guard)"""


SCALAR = ("D", {})


class DimSolver:
    """linear equations over Q between dimension vectors with unknowns (keys starting with
    '?'); everything else (base dimensions, rigid type parameters '!…') is a constant."""

    def __init__(self):
        self.sub = {}
        self.n = 0

    def fresh(self):
        self.n += 1
        return "?%d" % self.n

    def resolve(self, d):
        out = {}
        for k, v in d.items():
            if k in self.sub:
                for k2, v2 in self.sub[k].items():
                    out[k2] = out.get(k2, 0) + v * v2
            else:
                out[k] = out.get(k, 0) + v
        return dn(out)

    def equate(self, a, b):
        d = self.resolve(ddiv(a, b))
        if not d:
            return True
        syms = sorted(k for k in d if k.startswith("?"))
        if not syms:
            return False
        s = syms[-1]
        c = d[s]
        rest = dn({k: -v / c for k, v in d.items() if k != s})
        for k in list(self.sub):
            if s in self.sub[k]:
                e = self.sub[k].pop(s)
                self.sub[k] = dmul(self.sub[k], dpow(rest, e))
        self.sub[s] = rest
        return True


class Env:
    def __init__(self):
        self.vars = {}      # name -> ("mono", type) | ("poly", expr, Env)
        self.fns = {}       # name -> (stmt, Env at definition)
        self.units = {}     # user units: name -> dim
        self.dims = {k: dict(v) for k, v in DIM_DEFS.items()}

    def copy(self):
        e = Env()
        e.vars, e.fns, e.units, e.dims = dict(self.vars), dict(self.fns), dict(self.units), dict(self.dims)
        return e


def const_eval(e):
    """value of a constant exponent expression (literals, + - * /, unary minus, integer ^)"""
    k = e[0]
    if k == "num":
        return Fraction(e[1])
    if k == "un" and e[1] == "neg":
        x = const_eval(e[2])
        return None if x is None else -x
    if k == "bin" and e[1] in ("+", "-", "*", "/", "^"):
        x, y = const_eval(e[2]), const_eval(e[3])
        if x is None or y is None:
            return None
        if e[1] == "+":
            return x + y
        if e[1] == "-":
            return x - y
        if e[1] == "*":
            return x * y
        if e[1] == "/":
            if y == 0:
                raise OracleUnsupported("division by zero in a constant exponent")
            return x / y
        if y.denominator != 1 or y < 0 or y > 64:
            return None          # not a constant the type checker evaluates (fine under a scalar base)
        return x ** int(y)
    return None


class Analyser:
    """ordinary dimensional analysis of a session.  Variables are bound to dimensions; a user
    function is analysed at every call with its parameters bound to the argument dimensions
    (and once at its definition with unknown parameter dimensions: the definition is
    consistent iff the resulting linear equations have a solution; declared type parameters
    are rigid there).  The literal 0 has an unknown dimension."""

    def __init__(self):
        self.s = DimSolver()
        self.rigid = 0

    # ---- types
    def res(self, t):
        if t is None:
            return None
        if t[0] == "D":
            return ("D", self.s.resolve(t[1]))
        if t[0] == "L":
            return ("L", self.res(t[1]))
        return t

    def closed(self, t):
        t = self.res(t)
        if t[0] == "D":
            return not any(k[0] in "?!" for k in t[1])
        if t[0] == "L":
            return self.closed(t[1])
        return True

    def bare_var(self, t):
        if t[0] != "D":
            return False
        d = self.s.resolve(t[1])
        return len(d) == 1 and all(k.startswith("?") and v == 1 for k, v in d.items())

    def unify(self, a, b, what):
        if a[0] != b[0]:
            if self.bare_var(a) or self.bare_var(b):
                # an unknown (unannotated parameter, literal 0) used at a non-dimension type: the
                # analysis only ranges over dimensions
                raise OracleUnsupported("%s: unknown used at a non-dimension type" % what)
            raise Reject("%s: %s vs %s" % (what, tshow(self.res(a)), tshow(self.res(b))))
        if a[0] == "D":
            if not self.s.equate(a[1], b[1]):
                raise Reject("%s: %s vs %s" % (what, tshow(self.res(a)), tshow(self.res(b))))
        elif a[0] == "L":
            self.unify(a[1], b[1], what)

    def need_dim(self, t, what):
        if t[0] != "D":
            raise Reject("%s: %s is not a dimension type" % (what, tshow(t)))
        return t[1]

    # ---- dimension expressions / annotations
    def dexpr(self, d, env, tpmap):
        k = d[0]
        if k == "one":
            return {}
        if k == "name":
            if d[1] in tpmap:
                return tpmap[d[1]]
            if d[1] in env.dims:
                return env.dims[d[1]]
            raise UnknownName(d[1], "dim")
        if k == "mul":
            return dmul(self.dexpr(d[1], env, tpmap), self.dexpr(d[2], env, tpmap))
        if k == "div":
            return ddiv(self.dexpr(d[1], env, tpmap), self.dexpr(d[2], env, tpmap))
        if k == "pow":
            return dpow(self.dexpr(d[1], env, tpmap), Fraction(d[2]))
        raise OracleUnsupported("dimension expression %r" % (d,))

    def annot(self, a, env, tpmap):
        if a[0] == "dim":
            return ("D", self.dexpr(a[1], env, tpmap))
        if a[0] == "bool":
            return ("B",)
        if a[0] == "string":
            return ("S",)
        if a[0] == "list":
            return ("L", self.annot(a[1], env, tpmap))
        raise OracleUnsupported("annotation %r" % (a,))

    # ---- expressions
    def ev(self, e, env, loc, tpmap):
        k = e[0]
        if k == "num":
            if Fraction(e[1]) == 0:
                return ("D", {self.s.fresh(): Fraction(1)})
            return SCALAR
        if k == "bool":
            return ("B",)
        if k == "str":
            return ("S",)
        if k == "id":
            x = e[1]
            if x in loc:
                return loc[x]
            if x in env.vars:
                v = env.vars[x]
                if v[0] == "mono":
                    return v[1]
                return self.ev(v[1], v[2], {}, {})
            if x in env.units:
                return ("D", env.units[x])
            if x in CONST_DIMS:
                return ("D", CONST_DIMS[x])
            if x in UNIT_SPELLINGS:
                return ("D", UNIT_DIMS[UNIT_SPELLINGS[x]])
            raise UnknownName(x, "ident")
        if k == "unit":
            x = e[1]
            if x in loc:
                return loc[x]
            if x in env.units:
                return ("D", env.units[x])
            if x in env.vars:
                return self.ev(("id", x), env, loc, tpmap)
            if x in UNIT_SPELLINGS:
                return ("D", UNIT_DIMS[UNIT_SPELLINGS[x]])
            raise UnknownName(x, "ident")
        if k == "un":
            t = self.ev(e[2], env, loc, tpmap)
            if e[1] == "neg":
                self.need_dim(t, "negation")
                return t
            if e[1] == "fact":
                self.unify(t, SCALAR, "factorial")
                return SCALAR
            self.unify(t, ("B",), "logical not")
            return ("B",)
        if k == "bin":
            return self.binop(e, env, loc, tpmap)
        if k == "if":
            c = self.ev(e[1], env, loc, tpmap)
            self.unify(c, ("B",), "condition")
            a = self.ev(e[2], env, loc, tpmap)
            b = self.ev(e[3], env, loc, tpmap)
            self.unify(a, b, "branches of a conditional")
            return a
        if k == "list":
            if not e[1]:
                raise OracleUnsupported("empty list")
            ts = [self.ev(x, env, loc, tpmap) for x in e[1]]
            for t in ts[1:]:
                self.unify(ts[0], t, "list elements")
            return ("L", ts[0])
        if k == "call":
            args = [self.ev(x, env, loc, tpmap) for x in e[2]]
            return self.call(e[1], args, env)
        raise OracleUnsupported("expression %r" % (e,))

    def binop(self, e, env, loc, tpmap):
        op = e[1]
        a = self.ev(e[2], env, loc, tpmap)
        b = self.ev(e[3], env, loc, tpmap)
        if op in ("+", "-", "->"):
            self.need_dim(a, "operand of " + op)
            self.need_dim(b, "operand of " + op)
            self.unify(a, b, "operands of " + op)
            return a
        if op in ("*", "/"):
            da, db = self.need_dim(a, "operand of " + op), self.need_dim(b, "operand of " + op)
            return ("D", dmul(da, db) if op == "*" else ddiv(da, db))
        if op == "^":
            da = self.s.resolve(self.need_dim(a, "base"))
            self.need_dim(b, "exponent")
            q = const_eval(e[3])
            if not da:
                self.unify(b, SCALAR, "exponent of a scalar base")
                return SCALAR
            if q is None:
                raise OracleUnsupported("non-constant exponent on a dimensionful base")
            self.unify(b, SCALAR, "exponent")
            return ("D", dpow(da, q))
        if op in ("<", ">", "<=", ">="):
            self.need_dim(a, "operand of " + op)
            self.need_dim(b, "operand of " + op)
            self.unify(a, b, "operands of a comparison")
            return ("B",)
        if op in ("==", "!="):
            self.unify(a, b, "operands of a comparison")
            return ("B",)
        if op in ("&&", "||"):
            self.unify(a, ("B",), "operand of " + op)
            self.unify(b, ("B",), "operand of " + op)
            return ("B",)
        raise OracleUnsupported("operator " + op)

    def call(self, f, args, env):
        if f in env.fns:
            return self.call_user(f, args, env)
        if f not in FUNCTIONS:
            if f in env.vars:
                raise OracleUnsupported("calling a variable")
            raise UnknownName(f, "ident")
        n = 1 if f in ("sqrt", "sqr", "abs", "cbrt", "mean") else 2
        if len(args) != n:
            raise Reject("wrong number of arguments to " + f)
        if f == "mean":
            if args[0][0] != "L":
                if self.bare_var(args[0]):
                    raise OracleUnsupported("mean of an unknown")
                raise Reject("mean of a non-list")
            self.need_dim(args[0][1], "element of the list given to mean")
            return args[0][1]
        ds = [self.need_dim(a, "argument of " + f) for a in args]
        if f == "sqrt":
            return ("D", dpow(ds[0], Fraction(1, 2)))
        if f == "sqr":
            return ("D", dpow(ds[0], 2))
        if f == "cbrt":
            return ("D", dpow(ds[0], Fraction(1, 3)))
        if f == "abs":
            return args[0]
        self.unify(args[0], args[1], "arguments of " + f)
        return args[0]

    def call_user(self, f, args, env):
        st, fenv = env.fns[f]
        _, _, tps, params, ret, locs, body = st
        if len(params) != len(args):
            raise Reject("wrong number of arguments to " + f)
        tpmap = {tp[0]: {self.s.fresh(): Fraction(1)} for tp in tps}
        loc = {}
        for (p, a), at in zip(params, args):
            if a is not None:
                self.unify(self.annot(a, fenv, tpmap), at, "argument %s of %s" % (p, f))
            loc[p] = at
        if ret is not None and all(a is not None for _, a in params):
            return self.annot(ret, fenv, tpmap)       # body checked once and for all at the definition
        # some parameter's dimension is inferred from the body: analyse the body at this call
        for x, a, ex in locs:
            t = self.ev(ex, fenv, loc, tpmap)
            if a is not None:
                self.unify(self.annot(a, fenv, tpmap), t, "annotation of local " + x)
            loc[x] = t
        t = self.ev(body, fenv, loc, tpmap)
        if ret is not None:
            self.unify(self.annot(ret, fenv, tpmap), t, "return annotation of " + f)
        return t

    # ---- statements
    def stmt(self, st, env):
        """analyse one statement, update env; returns the expected type of the defined thing:
        a type, ("F", [param types], ret) for functions, or None"""
        k = st[0]
        if k == "expr":
            return self.res(self.ev(st[1], env, {}, {}))
        if k == "let":
            t = self.ev(st[3], env, {}, {})
            if st[2] is not None:
                self.unify(self.annot(st[2], env, {}), t, "annotation of " + st[1])
            t = self.res(t)
            if self.closed(t):
                env.vars[st[1]] = ("mono", t)
            else:
                if st[2] is not None:
                    raise OracleUnsupported("annotated polymorphic let")
                env.vars[st[1]] = ("poly", st[3], env.copy())
            return t
        if k == "fn":
            _, f, tps, params, ret, locs, body = st
            self.rigid += 1
            tpmap = {}
            for tp in tps:
                if tp[0] in env.dims:
                    raise OracleUnsupported("type parameter clashes with a dimension")
                tpmap[tp[0]] = {"!%d:%s" % (self.rigid, tp[0]): Fraction(1)}
            loc = {}
            for p, a in params:
                loc[p] = self.annot(a, env, tpmap) if a is not None else ("D", {self.s.fresh(): Fraction(1)})
            ptypes = [loc[p] for p, _ in params]
            for x, a, ex in locs:
                t = self.ev(ex, env, loc, tpmap)
                if a is not None:
                    self.unify(self.annot(a, env, tpmap), t, "annotation of local " + x)
                loc[x] = t
            t = self.ev(body, env, loc, tpmap)
            if ret is not None:
                self.unify(self.annot(ret, env, tpmap), t, "return annotation of " + f)
            env.fns[f] = (st, env.copy())
            env.vars.pop(f, None)
            return ("F", [self.res(p) for p in ptypes], self.res(t))
        if k == "dimbase":
            if st[1] in env.dims:
                raise OracleUnsupported("dimension defined twice")
            env.dims[st[1]] = {st[1]: Fraction(1)}
            return None
        if k == "dim":
            if st[1] in env.dims:
                raise OracleUnsupported("dimension defined twice")
            ds = [self.dexpr(d, env, {}) for d in st[2]]
            for d in ds[1:]:
                if d != ds[0]:
                    raise Reject("alternative definitions of dimension %s differ" % st[1])
            env.dims[st[1]] = ds[0]
            return None
        if k == "unitbase":
            d = self.dexpr(st[2], env, {})
            if not d:
                raise OracleUnsupported("dimensionless base unit")
            env.units[st[1]] = d
            env.vars.pop(st[1], None)
            return ("D", d)
        if k == "unit":
            t = self.ev(st[3], env, {}, {})
            self.need_dim(t, "unit definition")
            if st[2] is not None:
                self.unify(self.annot(st[2], env, {}), t, "annotation of unit " + st[1])
            t = self.res(t)
            if not self.closed(t):
                raise OracleUnsupported("generic unit definition")
            env.units[st[1]] = t[1]
            env.vars.pop(st[1], None)
            return t
        if k == "proc":
            ts = [self.ev(a, env, {}, {}) for a in st[2]]
            if st[1] in ("print", "type"):
                if len(ts) != 1:
                    raise OracleUnsupported("arity of " + st[1])
            elif st[1] == "assert":
                if len(ts) != 1:
                    raise OracleUnsupported("arity of assert")
                self.unify(ts[0], ("B",), "argument of assert")
            elif st[1] == "assert_eq":
                if len(ts) not in (2, 3):
                    raise OracleUnsupported("arity of assert_eq")
                for t in ts:
                    self.need_dim(t, "argument of assert_eq") if len(ts) == 3 else None
                for t in ts[1:]:
                    self.unify(ts[0], t, "arguments of assert_eq")
            else:
                raise OracleUnsupported("procedure " + st[1])
            return None
        raise OracleUnsupported("statement %r" % (k,))


def analyse(inputs):
    """Expected behaviour of a session (list of inputs, each a list of statements):
    per input dict(verdict, at, why, types).  verdict: 'accept' | 'reject' (some statement
    requires different dimensions to be equal) | 'unknown-ident' | 'unknown-dim' |
    'unsupported'.  A rejected input leaves the definitions untouched (whole-input clause)."""
    env = Env()
    out = []
    for stmts in inputs:
        e2 = env.copy()
        an = Analyser()
        types = []
        r = None
        for n, st in enumerate(stmts):
            try:
                types.append(an.stmt(st, e2))
            except Reject as x:
                r = dict(verdict="reject", at=n, why=str(x))
            except UnknownName as x:
                r = dict(verdict="unknown-ident" if x.kind == "ident" else "unknown-dim", at=n, why=str(x))
            except OracleUnsupported as x:
                r = dict(verdict="unsupported", at=n, why=str(x))
            if r:
                break
        if r is None:
            r = dict(verdict="accept", at=None, why="")
            env = e2
        r["types"] = types
        out.append(r)
    return out


# --------------------------------------------------------------- comparing with the hook's types
def impl_type(t):
    """type parsed by parse_scheme -> the oracle's representation (quantified variables
    become unknowns '?g<i>')"""
    k = t[0]
    if k == "D":
        d = {}
        for kind, nm, e in t[1]:
            key = nm if kind == "b" else "?%s%s" % (kind, nm)
            d[key] = d.get(key, 0) + e
        return ("D", dn(d))
    if k == "G":
        return ("D", {"?g%d" % t[1]: Fraction(1)})
    if k in ("V", "P"):
        return ("D", {"?%s%s" % (k.lower(), t[1]): Fraction(1)})
    if k == "L":
        return ("L", impl_type(t[1]))
    if k in ("B", "S"):
        return (k,)
    if k == "F":
        return ("F", [impl_type(p) for p in t[1]], impl_type(t[2]))
    return ("?", k)


def _flatten(t, dims):
    if t[0] == "D":
        dims.append(t[1])
        return "D"
    if t[0] == "L":
        return "L<" + _flatten(t[1], dims) + ">"
    if t[0] == "F":
        return "F(" + ",".join(_flatten(p, dims) for p in t[1]) + ")->" + _flatten(t[2], dims)
    return t[0]


def canon_type(t):
    """canonical form of a (possibly generic) type up to renaming / invertible linear change of
    its unknowns: shape, reduced echelon basis of the exponent vectors of the unknowns over the
    dimension positions, and the constant part reduced modulo that space.  Two types have the
    same ground instances iff their canonical forms are equal."""
    dims = []
    shape = _flatten(t, dims)
    n = len(dims)
    gens = sorted({k for d in dims for k in d if k[0] in "?!"})
    bases = sorted({k for d in dims for k in d if k[0] not in "?!"})
    rows = [[Fraction(d.get(g, 0)) for d in dims] for g in gens]
    piv = []
    r = 0
    for c in range(n):
        p = next((i for i in range(r, len(rows)) if rows[i][c] != 0), None)
        if p is None:
            continue
        rows[r], rows[p] = rows[p], rows[r]
        x = rows[r][c]
        rows[r] = [v / x for v in rows[r]]
        for i in range(len(rows)):
            if i != r and rows[i][c] != 0:
                f = rows[i][c]
                rows[i] = [a - f * b for a, b in zip(rows[i], rows[r])]
        piv.append(c)
        r += 1
    rows = rows[:r]
    consts = []
    for b in bases:
        v = [Fraction(d.get(b, 0)) for d in dims]
        for row, c in zip(rows, piv):
            if v[c] != 0:
                f = v[c]
                v = [a - f * x for a, x in zip(v, row)]
        if any(v):
            consts.append((b, tuple(v)))
    return (shape, tuple(tuple(x) for x in rows), tuple(consts))


def type_is_closed(t):
    dims = []
    _flatten(t, dims)
    return not any(k[0] in "?!" for d in dims for k in d)


def split_tc(field):
    """'ok|a#b' -> ('ok', [a, b]);  'err|X' -> ('err', 'X');  'other|X' -> ('other', 'X')"""
    k, _, rest = field.partition("|")
    if k == "ok":
        return "ok", (rest.split("#") if rest else [])
    return k, rest


def stmt_impl_type(text):
    """hook text of one checked statement -> (kind, oracle-style type or None)"""
    p = text.split("|")
    if p[0] == "expr":
        return "expr", impl_type(parse_scheme(p[1])[2])
    if p[0] in ("let", "unit", "fn"):
        return p[0], impl_type(parse_scheme(p[2])[2])
    return p[0], None


# --------------------------------------------------------------- the typed generator
LITS = ["2", "3", "0.5", "1.5", "4", "10", "2.5", "1"]
CMPS = ["<", ">", "<=", ">=", "==", "!="]


def num(s):
    return ("num", s)


def bn(o, a, b):
    return ("bin", o, a, b)


def exp_expr(rng, q):
    """a constant expression (literals, + - * /, unary minus) whose value is q (0 included: the
    literal 0, and composite expressions that evaluate to 0)"""
    q = Fraction(q)
    forms = []
    if q == 0:
        forms += [num("0"), bn("-", num("1"), num("1")), bn("-", bn("*", num("2"), num("3")), num("6")),
                  bn("*", num("0"), num("3")), bn("-", num("0.5"), num("0.5")),
                  bn("/", bn("-", num("2"), num("2")), num("3"))]
    elif q.denominator == 1 and q > 0:
        n = q.numerator
        forms += [num(str(n)), num(str(n)), num(str(n)), bn("/", num(str(2 * n)), num("2")),
                  bn("-", bn("*", num("2"), num(str(n))), num(str(n)))]
        if n >= 2:
            forms.append(bn("+", num(str(n - 1)), num("1")))
    elif q.denominator == 1:
        n = -q.numerator
        forms += [("un", "neg", num(str(n))), ("un", "neg", num(str(n))), bn("-", num("1"), num(str(n + 1)))]
    else:
        a, b = abs(q.numerator), q.denominator
        base = bn("/", num(str(a)), num(str(b)))
        forms.append(base if q > 0 else ("un", "neg", base))
        forms.append(base if q > 0 else bn("/", ("un", "neg", num(str(a))), num(str(b))))
        if b in (2, 4):
            dec = num(repr(float(abs(q))))
            forms.append(dec if q > 0 else ("un", "neg", dec))
    return rng.choice(forms)


def _complex_ok(d):
    return all(abs(v.numerator) <= 6 and v.denominator <= 6 for v in map(Fraction, d.values())) and len(d) <= 4


class Gen:
    """Builds programs whose dimensions are known by construction.  Dimensions are dicts
    base -> Fraction over the base dimensions, user base dimensions, and (inside function
    bodies) the generic symbols '$0', '$1', … of the function being generated."""

    def __init__(self, rng, start=0):
        self.rng = rng
        self.stmts = []
        self.types = []        # by-construction type of each statement's defined thing (or None)
        self.vars = []         # (name, type, positive)
        self.fns = []          # dict(name, pdims, ret, syms, pos)
        self.uunits = []       # (name, dim) user units
        self.udims = {}        # user dimension names -> dim
        self.sites = []        # places where two dimensions are required to be equal
        self.scope = None      # inside a function body: dict(params=[(name, dim)], tps={sym: name})
        self.ctr = {}
        self.start = start

    def fresh(self, prefix):
        n = self.ctr.get(prefix, self.start)
        self.ctr[prefix] = n + 1
        return "%s%d" % (prefix, n)

    # ---- dimensions
    def palette(self):
        L, T, M = _dd(Length=1), _dd(Time=1), _dd(Mass=1)
        pal = [L, L, T, T, M, {}, {}, _dd(Length=1, Time=-1), _dd(Length=1, Time=-2), _dd(Length=2),
               _dd(Length=3), DIM_DEFS["Force"], DIM_DEFS["Energy"], DIM_DEFS["Power"], _dd(Time=-1),
               _dd(Length=1, Time=1), _dd(Current=1), _dd(Temperature=1), DIM_DEFS["ElectricCharge"],
               DIM_DEFS["Pressure"], DIM_DEFS["Voltage"], _dd(Mass=1, Length=-3), DIM_DEFS["Momentum"]]
        for n, d in self.udims.items():
            if self.can_realise(d):
                pal += [d, dmul(d, L)]
        return pal

    def rand_dim(self):
        rng = self.rng
        if self.scope and rng.random() < 0.6:
            d = {}
            for _, pd in rng.sample(self.scope["params"], rng.randint(1, len(self.scope["params"]))):
                d = dmul(d, dpow(pd, rng.choice([1, 1, 1, 2, -1])))
            if rng.random() < 0.25:
                d = dmul(d, rng.choice([_dd(Length=1), _dd(Time=-1)]))
            if _complex_ok(d):
                return d
        if self.vars and rng.random() < 0.3:
            ds = [t[1] for _, t, _ in self.vars if t[0] == "D"]
            if ds:
                return dict(rng.choice(ds))
        return dict(rng.choice(self.palette()))

    def all_units(self):
        us = [(sp, UNIT_DIMS[env]) for sp, env in UNIT_SPELLINGS.items()] + list(self.uunits)
        if self.scope:
            us += [(p, d) for p, d in self.scope["params"]]
        return us

    def can_realise(self, d):
        have = set()
        for _, ud in self.all_units():
            if len(ud) == 1:
                have |= set(ud)
        return all(k in have for k in d)

    def uref(self, name):
        if self.scope and any(name == p for p, _ in self.scope["params"]):
            return ("id", name)
        return ("unit", name)

    def unit_product(self, T):
        """an expression built only from unit identifiers (parameters for generic symbols)
        of dimension T; None when T is scalar or not realisable"""
        rng = self.rng
        rem = dn(dict(T))
        if not rem or not self.can_realise(rem):
            return None
        fac = []
        units = self.all_units()
        for _ in range(3):
            if rng.random() < 0.55:
                cands = []
                for sp, d in units:
                    if len(d) < 2:
                        continue
                    for k in (1, -1):
                        if dcost(ddiv(rem, dpow(d, k))) <= dcost(rem) - 2:
                            cands.append((sp, d, k))
                if cands:
                    sp, d, k = rng.choice(cands)
                    fac.append((self.uref(sp), Fraction(k)))
                    rem = ddiv(rem, dpow(d, k))
        for b, e in sorted(rem.items()):
            cs = [(sp, d[b]) for sp, d in units if len(d) == 1 and b in d]
            sp, c = rng.choice(cs)
            fac.append((self.uref(sp), Fraction(e) / c))
        rng.shuffle(fac)
        fac.sort(key=lambda f: f[1] < 0)          # positive exponents first
        acc = None
        for u, e in fac:
            if acc is None:
                if e == 1:
                    acc = u
                elif e > 0 or rng.random() < 0.6:
                    acc = bn("^", u, exp_expr(rng, e))
                else:
                    acc = bn("/", num("1"), u if e == -1 else bn("^", u, exp_expr(rng, -e)))
            elif e > 0:
                acc = bn("*", acc, u if e == 1 else bn("^", u, exp_expr(rng, e)))
            elif rng.random() < 0.7:
                acc = bn("/", acc, u if e == -1 else bn("^", u, exp_expr(rng, -e)))
            else:
                acc = bn("*", acc, bn("^", u, exp_expr(rng, e)))
        return acc

    def names_of(self, T, pos):
        """variables / parameters / constants whose dimension is exactly T"""
        T = dn(T)
        out = [("id", n) for n, t, p in self.vars if t == ("D", T) and (p or not pos)]
        if self.scope:
            out += [("id", n) for n, d in self.scope["params"] if d == T]
            out += [("id", n) for n, d, p in self.scope["locals"] if d == T and (p or not pos)]
        out += [("id", n) for n, d in CONST_DIMS.items() if d == T]
        return out

    def atom(self, T, pos=False):
        rng = self.rng
        ns = self.names_of(T, pos)
        if ns and rng.random() < 0.4:
            return rng.choice(ns)
        up = self.unit_product(T)
        if up is None:
            if dn(T):
                raise ValueError("dimension %s not realisable" % dshow(T))
            return num(rng.choice(LITS))
        return bn("*", num(rng.choice(LITS)), up) if rng.random() < 0.75 else up

    def site(self, kind, node, idxs, T, poly=False):
        if not poly:
            self.sites.append(dict(kind=kind, node=node, idxs=idxs, T=dn(dict(T)) if T is not None else None,
                                   inbody=self.scope is not None))
        return node

    # ---- directed generation: an expression of dimension T
    def gen(self, T, depth, pos=False):
        rng = self.rng
        T = dn(dict(T))
        if depth <= 0 or rng.random() < 0.12:
            return self.atom(T, pos)
        opts = [("prod", 3.0), ("sum", 3.0), ("pow", 1.2), ("conv", 0.9), ("if", 0.9), ("lib", 1.6),
                ("atom", 0.8), ("zpow", 0.45)]
        if not pos:
            opts += [("neg", 0.3), ("zero", 0.35)]
        r = rng.random() * sum(w for _, w in opts)
        for o, w in opts:
            r -= w
            if r < 0:
                break
        d = depth - 1
        if o == "prod":
            if rng.random() < 0.6:
                f, F = self.free(d, pos)
                g = self.gen(ddiv(T, F), d, pos) if _complex_ok(ddiv(T, F)) else None
                if g is None:
                    return self.atom(T, pos)
                return bn("*", f, g) if rng.random() < 0.5 else bn("*", g, f)
            f, F = self.free(d, True)
            if not _complex_ok(dmul(T, F)):
                return self.atom(T, pos)
            return bn("/", self.gen(dmul(T, F), d, pos), f)
        if o == "sum":
            op = "+" if pos or rng.random() < 0.6 else "-"
            return self.site("sum", bn(op, self.gen(T, d, pos), self.gen(T, d, pos)), [2, 3], T)
        if o == "zpow":
            # a dimensionful thing raised to a constant that evaluates to 0 (dimensionless factor),
            # or the whole expression raised to a constant that evaluates to 1
            if rng.random() < 0.7:
                f, F = self.free(d, True)
                z = bn("^", f, exp_expr(rng, 0))
                x = self.gen(T, d, pos)
                return rng.choice([bn("*", x, z), bn("*", z, x), bn("/", x, z)])
            return bn("^", self.gen(T, d, pos), exp_expr(rng, 1))
        if o == "pow":
            if not T and rng.random() < 0.4:
                return bn("^", num(rng.choice(["2", "3", "1.5"])), self.gen({}, d, pos))
            q = rng.choice([2, 2, 3, -1, Fraction(1, 2), -2, Fraction(1, 3), Fraction(3, 2)])
            B = dpow(T, 1 / Fraction(q))
            if not _complex_ok(B):
                return self.atom(T, pos)
            return bn("^", self.gen(B, d, True), exp_expr(rng, q))
        if o == "conv":
            tgt = self.unit_product(T)
            if tgt is None:
                return self.atom(T, pos)
            return self.site("conv", bn("->", self.gen(T, d, pos), tgt), [2, 3], T)
        if o == "if":
            return self.site("if", ("if", self.gen_bool(d), self.gen(T, d, pos), self.gen(T, d, pos)), [2, 3], T)
        if o == "lib":
            return self.gen_lib(T, d, pos)
        if o == "neg":
            return ("un", "neg", self.gen(T, d, False))
        if o == "zero":
            x = self.gen(T, d, False)
            return rng.choice([bn("+", x, num("0")), bn("+", num("0"), x), bn("-", x, num("0"))])
        return self.atom(T, pos)

    def gen_lib(self, T, d, pos):
        rng = self.rng
        f = rng.choice(["sqrt", "sqr", "abs", "cbrt", "mean", "hypot2", "hypot2", "round_in", "floor_in"])
        if f == "sqrt" and _complex_ok(dpow(T, 2)):
            return ("call", "sqrt", [self.gen(dpow(T, 2), d, True)])
        if f == "sqr" and _complex_ok(dpow(T, Fraction(1, 2))):
            return ("call", "sqr", [self.gen(dpow(T, Fraction(1, 2)), d, pos)])
        if f == "cbrt" and _complex_ok(dpow(T, 3)):
            return ("call", "cbrt", [self.gen(dpow(T, 3), d, True)])
        if f == "mean":
            lst = self.gen_list(T, d, pos)
            return ("call", "mean", [lst])
        if f == "hypot2":
            args = [self.gen(T, d, pos), self.gen(T, d, pos)]
            return self.site("args", ("call", "hypot2", args), [(2, 0), (2, 1)], T)
        if f in ("round_in", "floor_in") and not pos:     # may round to zero: never where positivity is needed
            tgt = self.unit_product(T)
            if tgt is not None:
                args = [tgt, self.gen(T, d, pos)]
                return self.site("args", ("call", f, args), [(2, 0), (2, 1)], T)
        return ("call", "abs", [self.gen(T, d, pos)])

    def gen_list(self, T, d, pos):
        n = self.rng.choice([1, 2, 2, 3])
        es = [self.gen(T, d, pos) for _ in range(n)]
        node = ("list", es)
        if n >= 2:
            self.site("list", node, [(1, i) for i in range(n)], T)
        return node

    def gen_bool(self, d):
        rng = self.rng
        bs = [("id", n) for n, t, _ in self.vars if t == ("B",)]
        if bs and rng.random() < 0.2:
            return rng.choice(bs)
        U = self.rand_dim()
        a = self.gen(U, d, False)
        if rng.random() < 0.1:
            node = bn(rng.choice(["<", ">", ">="]), a, num("0"))
        else:
            node = self.site("cmp", bn(rng.choice(CMPS), a, self.gen(U, d, False)), [2, 3], U)
        if d > 0 and rng.random() < 0.15:
            node = bn(rng.choice(["&&", "||"]), node, self.gen_bool(d - 1))
        elif rng.random() < 0.05:
            node = ("un", "not", node)
        return node

    # ---- free generation: some expression, dimension computed bottom-up
    def free(self, depth, pos=False):
        rng = self.rng
        cands = []
        vs = [(("id", n), t[1]) for n, t, p in self.vars if t[0] == "D" and (p or not pos)]
        if self.scope:
            vs += [(("id", n), d) for n, d in self.scope["params"]] * 2
            vs += [(("id", n), d) for n, d, p in self.scope["locals"] if p or not pos]
        if vs:
            cands += ["var"] * 4
        fs = [f for f in self.fns if f["pos"] or not pos]
        if fs and depth >= 0:
            cands += ["call"] * 4
        cands += ["const", "unit", "unit"]
        if depth > 0:
            cands += ["sqr", "prod"]
        c = rng.choice(cands)
        if c == "var":
            e, d = rng.choice(vs)
            return e, dict(d)
        if c == "call":
            return self.call_fn(rng.choice(fs), depth)
        if c == "const":
            n = rng.choice(CONSTANTS)
            return ("id", n), dict(CONST_DIMS[n])
        if c == "sqr":
            e, d = self.free(depth - 1, pos)
            if _complex_ok(dpow(d, 2)):
                return (("call", "sqr", [e]) if rng.random() < 0.5 else bn("^", e, exp_expr(rng, 2))), dpow(d, 2)
            return e, d
        if c == "prod":
            a, da = self.free(depth - 1, pos)
            b, db = self.free(depth - 1, True)
            if rng.random() < 0.5 and _complex_ok(dmul(da, db)):
                return bn("*", a, b), dmul(da, db)
            if _complex_ok(ddiv(da, db)):
                return bn("/", a, b), ddiv(da, db)
            return a, da
        sp, d = rng.choice(self.all_units())
        return self.uref(sp), dict(d)

    def call_fn(self, fn, depth):
        """a call of a previously generated user function with arguments of consistent
        dimensions; returns (expr, dimension of the result)"""
        rng = self.rng
        for _ in range(8):
            sub = {s: self.rand_dim() for s in fn["syms"]}

            def inst(d):
                out = {}
                for k, v in d.items():
                    out = dmul(out, dpow(sub[k], v) if k in sub else {k: v})
                return out
            pds = [inst(d) for d in fn["pdims"]]
            rd = inst(fn["ret"])
            if all(_complex_ok(d) for d in pds) and _complex_ok(rd):
                break
        else:
            sub = {s: {} for s in fn["syms"]}
            pds = [inst(d) for d in fn["pdims"]]
            rd = inst(fn["ret"])
        args = [self.gen(d, max(0, depth - 1), True) for d in pds]
        node = ("call", fn["name"], args)
        self.sites.append(dict(kind="callarg", node=node, idxs=[(2, i) for i in range(len(args))], T=None,
                               inbody=self.scope is not None, pdims=pds, rigid=fn["rigid"]))
        return node, rd


TPNAMES = ["DA", "DB", "DC", "DD"]


def _gen_dexpr(self, T, tps=None, user=True):
    """a dimension expression denoting T (type parameters: symbol -> name)"""
    rng = self.rng
    T = dn(dict(T))
    tps = tps or {}
    named = dict(DIM_DEFS)
    if user:
        named.update(self.udims)
    if not any(k in tps for k in T):
        exact = [n for n, d in named.items() if d == T]
        if exact and rng.random() < 0.6:
            return ("name", rng.choice(exact))
    if not T:
        return ("name", "Scalar")
    rem, fac = T, []
    if rng.random() < 0.5:
        cands = [(n, d, k) for n, d in named.items() if len(d) > 1 for k in (1, -1)
                 if dcost(ddiv(rem, dpow(d, k))) <= dcost(rem) - 2]
        if cands:
            n, d, k = rng.choice(cands)
            fac.append((("name", n), Fraction(k)))
            rem = ddiv(rem, dpow(d, k))
    for b, e in sorted(rem.items()):
        fac.append((("name", tps.get(b, b)), Fraction(e)))
    rng.shuffle(fac)
    fac.sort(key=lambda f: f[1] < 0)
    acc = None
    for x, e in fac:
        if acc is None:
            if e == 1:
                acc = x
            elif e > 0 or rng.random() < 0.5:
                acc = ("pow", x, e)
            else:
                acc = ("div", ("one",), x if e == -1 else ("pow", x, -e))
        elif e > 0:
            acc = ("mul", acc, x if e == 1 else ("pow", x, e))
        elif rng.random() < 0.7:
            acc = ("div", acc, x if e == -1 else ("pow", x, -e))
        else:
            acc = ("mul", acc, ("pow", x, e))
    return acc


Gen.dexpr = _gen_dexpr


def _emit(self, st, ty=None):
    self.stmts.append(st)
    self.types.append(ty)
    return len(self.stmts) - 1


Gen.emit = _emit


def _st_let(self):
    rng = self.rng
    r = rng.random()
    name = self.fresh("va")
    if r < 0.08:
        e = self.gen_bool(1)
        i = self.emit(("let", name, ("bool",) if rng.random() < 0.3 else None, e), ("B",))
        self.vars.append((name, ("B",), False))
        return
    T = self.rand_dim()
    if r < 0.16:
        e = self.gen_list(T, 1, True)
        an = ("list", ("dim", self.dexpr(T))) if rng.random() < 0.4 else None
        st = ("let", name, an, e)
        i = self.emit(st, ("L", ("D", T)))
        if an:
            self.sites.append(dict(kind="annot", node=st, T=T, inbody=False, wrap="list"))
        self.vars.append((name, ("L", ("D", T)), True))
        return
    if r < 0.20:
        st = ("let", name, ("dim", self.dexpr(T)), num("0"))
        self.emit(st, ("D", T))
        # not registered for later use: at run time such a variable holds a unit-less 0 and
        # comparing / converting it fails with a QuantityError, which hides the checked statements
        return
    pos = rng.random() < 0.65
    e = self.gen(T, rng.choice([1, 2, 2, 3]), pos)
    an = ("dim", self.dexpr(T)) if rng.random() < 0.5 else None
    st = ("let", name, an, e)
    self.emit(st, ("D", T))
    if an:
        self.sites.append(dict(kind="annot", node=st, T=T, inbody=False, wrap=None))
    self.vars.append((name, ("D", T), pos))


def _st_dim(self):
    rng = self.rng
    if rng.random() < 0.45:
        dname, uname = self.fresh("DimA"), self.fresh("bb")
        self.emit(("dimbase", dname))
        self.udims[dname] = {dname: Fraction(1)}
        self.emit(("unitbase", uname, ("name", dname)), ("D", {dname: Fraction(1)}))
        self.uunits.append((uname, {dname: Fraction(1)}))
        return
    T = self.rand_dim()
    while not T:
        T = self.rand_dim()
    name = self.fresh("DimB")
    alts = [self.dexpr(T)]
    if rng.random() < 0.35:
        alts.append(self.dexpr(T))
    st = ("dim", name, alts)
    self.emit(st)
    if len(alts) > 1:
        self.sites.append(dict(kind="dimalt", node=st, T=T, inbody=False))
    self.udims[name] = T
    # (no base unit for a derived dimension: such a unit type-checks as T but is incommensurable
    #  with the prelude's units of T at run time, and a run-time error hides the checked statements)


def _st_unit(self):
    rng = self.rng
    T = self.rand_dim()
    while not T:
        T = self.rand_dim()
    name = self.fresh("uu")
    e = self.gen(T, rng.choice([0, 1, 1]), True)
    an = ("dim", self.dexpr(T)) if rng.random() < 0.6 else None
    st = ("unit", name, an, e)
    self.emit(st, ("D", T))
    if an:
        self.sites.append(dict(kind="annot", node=st, T=T, inbody=False, wrap=None))
    self.uunits.append((name, T))


def _st_fn(self):
    rng = self.rng
    k = rng.choice([1, 2, 2, 2, 3])
    style = rng.choice(["plain", "plain", "plain", "full", "full", "partial", "mono"])
    name = self.fresh("fa")
    pnames = [self.fresh("pa") for _ in range(k)]
    if style == "mono":
        pdims = [self.rand_dim() for _ in range(k)]
        syms = []
    else:
        syms, pdims = [], []
        for i in range(k):
            if not syms or rng.random() < 0.65:
                syms.append("$%d" % len(syms))
                s = syms[-1]
            else:
                s = rng.choice(syms)
            d = {s: Fraction(1)}
            if style == "full" and rng.random() < 0.25:
                d = rng.choice([{s: Fraction(2)}, dmul(d, _dd(Length=1)), dmul(d, _dd(Time=-1)), {s: Fraction(1, 2)}])
            pdims.append(d)
        for s in syms:      # every symbol must be expressible from some parameter alone
            if not any(len(d) == 1 and s in d for d in pdims):
                i = next(i for i, d in enumerate(pdims) if s in d)
                pdims[i] = {s: Fraction(1)}
    self.scope = dict(params=list(zip(pnames, pdims)), locals=[], tps={})
    # return dimension
    if style == "mono" and rng.random() < 0.5:
        R = self.rand_dim()
    else:
        R = {}
        for d in rng.sample(pdims, rng.randint(1, k)):
            R = dmul(R, dpow(d, rng.choice([1, 1, 1, 2, -1, Fraction(1, 2), Fraction(1, 3), 3])))
        if rng.random() < 0.25:
            R = dmul(R, rng.choice([_dd(Length=1), _dd(Time=-1), _dd(Mass=1), _dd(Length=-2)]))
        if rng.random() < 0.3 or not _complex_ok(R):
            R = dict(rng.choice(pdims))
    fpos = rng.random() < 0.6
    tpmap = {}
    if style in ("full", "partial"):
        tpmap = {s: TPNAMES[i] for i, s in enumerate(syms)}
    annotate = [style in ("full", "mono") or (style == "partial" and rng.random() < 0.5) for _ in range(k)]
    named_syms = {s for d, a in zip(pdims, annotate) if a for s in d if s in tpmap}
    locs = []
    if rng.random() < 0.3:
        for _ in range(rng.choice([1, 1, 2])):
            Tl = self.rand_dim()
            if not self.can_realise(Tl):
                continue
            ln = self.fresh("pb")
            le = self.gen(Tl, 1, True)
            la = None
            if rng.random() < 0.4 and all(k2 in named_syms or not k2.startswith("$") for k2 in Tl):
                la = ("dim", self.dexpr(Tl, tpmap))
            locs.append((ln, la, le))
            self.scope["locals"].append((ln, Tl, True))
    body = self.gen(R, rng.choice([1, 2, 2, 3]), fpos)
    params = [(p, ("dim", self.dexpr(d, tpmap)) if a else None) for p, d, a in zip(pnames, pdims, annotate)]
    ret = None
    ret_ok = all(k2 in named_syms or not k2.startswith("$") for k2 in R)
    if (style in ("full", "mono") and rng.random() < 0.85) or (style == "partial" and ret_ok and rng.random() < 0.5):
        if ret_ok:
            ret = ("dim", self.dexpr(R, tpmap))
    tps = [(tpmap[s], True) for s in syms if s in named_syms]
    self.scope = None
    st = ("fn", name, tps, params, ret, locs, body)
    self.emit(st, None)
    rigid = all(annotate) and ret is not None
    if rigid:
        self.sites.append(dict(kind="retannot", node=st, T=R, inbody=False, tpmap=tpmap))
    self.fns.append(dict(name=name, pdims=pdims, ret=R, syms=syms, pos=fpos, rigid=all(annotate)))


def _st_misc(self, kind):
    rng = self.rng
    if kind == "print":
        r = rng.random()
        if r < 0.6:
            e = self.gen(self.rand_dim(), rng.choice([0, 1, 2]), False)
        elif r < 0.8 and self.vars:
            e = ("id", rng.choice(self.vars)[0])
        elif r < 0.9:
            e = self.gen_bool(1)
        else:
            e = self.gen_list(self.rand_dim(), 1, False)
        self.emit(("proc", "print", [e]))
    elif kind == "assert_eq":
        T = self.rand_dim()
        e = self.gen(T, rng.choice([0, 1, 2]), True)
        args = [e, e]
        if rng.random() < 0.3 and dn(T) and self.can_realise(T):
            args.append(bn("*", num("0.5"), self.unit_product(T)))
        st = ("proc", "assert_eq", args)
        self.emit(st)
        self.site("args", st, [(2, i) for i in range(len(args))], T)
    elif kind == "call" and self.fns:
        e, d = self.call_fn(rng.choice(self.fns), 2)
        if rng.random() < 0.5:
            e = self.site("sum", bn(rng.choice("+-"), e, self.gen(d, 1, False)), [2, 3], d)
        self.emit(("expr", e), ("D", d))
    else:
        r = rng.random()
        if r < 0.7:
            T = self.rand_dim()
            self.emit(("expr", self.gen(T, rng.choice([1, 2, 3]), False)), ("D", T))
        elif r < 0.8:
            self.emit(("expr", self.gen_bool(2)), ("B",))
        elif r < 0.9:
            T = self.rand_dim()
            self.emit(("expr", self.gen_list(T, 1, False)), ("L", ("D", T)))
        else:
            self.emit(("expr", num("0")), None)


Gen.st_let, Gen.st_dim, Gen.st_unit, Gen.st_fn, Gen.st_misc = _st_let, _st_dim, _st_unit, _st_fn, _st_misc


def _gen_statements(self, n):
    rng = self.rng
    while len(self.stmts) < n:
        kinds = [("let", 3.0), ("fn", 2.6), ("dim", 0.8), ("unit", 0.8), ("print", 1.2), ("assert_eq", 0.6),
                 ("expr", 1.5), ("call", 2.5 if self.fns else 0)]
        r = rng.random() * sum(w for _, w in kinds)
        for kd, w in kinds:
            r -= w
            if r < 0:
                break
        if kd == "let":
            self.st_let()
        elif kd == "fn":
            self.st_fn()
        elif kd == "dim":
            self.st_dim()
        elif kd == "unit":
            self.st_unit()
        else:
            self.st_misc(kd)


Gen.gen_statements = _gen_statements


def has_zero_exponent(x):
    """some power whose constant exponent evaluates to 0 (what is under it has no influence on the
    dimension, so a unit swapped there does not make the program inconsistent)"""
    if isinstance(x, (list, tuple)):
        if len(x) == 4 and x[0] == "bin" and x[1] == "^":
            try:
                if const_eval(x[3]) == 0:
                    return True
            except Exception:
                pass
        return any(has_zero_exponent(y) for y in x)
    return False


def gen_program(rng, nstmts=None, start=0):
    """a well-dimensioned program: dict(stmts, types (by construction), sites, gen)"""
    g = Gen(rng, start)
    g.gen_statements(nstmts or rng.randint(3, 10))
    return dict(stmts=g.stmts, types=g.types, sites=g.sites, gen=g)


# --------------------------------------------------------------- mis-dimensioned variants
def replace_node(x, old, new):
    """rebuild x with the node `old` (found by identity) replaced by `new`"""
    if x is old:
        return new
    if isinstance(x, tuple):
        ys = [replace_node(y, old, new) for y in x]
        return x if all(a is b for a, b in zip(x, ys)) else tuple(ys)
    if isinstance(x, list):
        ys = [replace_node(y, old, new) for y in x]
        return x if all(a is b for a, b in zip(x, ys)) else ys
    return x


def contains_node(x, node):
    if x is node:
        return True
    if isinstance(x, (tuple, list)):
        return any(contains_node(y, node) for y in x)
    return False


def _get(node, idx):
    if isinstance(idx, tuple):
        return node[idx[0]][idx[1]]
    return node[idx]


def _set(node, idx, val):
    if isinstance(idx, tuple):
        inner = list(node[idx[0]])
        inner[idx[1]] = val
        out = list(node)
        out[idx[0]] = inner
        return tuple(out)
    out = list(node)
    out[idx] = val
    return tuple(out)


def other_unit(rng, sp):
    d = UNIT_DIMS[UNIT_SPELLINGS[sp]]
    return rng.choice(sorted(s for s, env in UNIT_SPELLINGS.items() if UNIT_DIMS[env] != d))


def swap_unit(e, rng):
    """swap one prelude unit that occurs multiplicatively (through * / ^base and negation only)
    for a unit of another dimension: the dimension of e changes.  None if there is none."""
    k = e[0]
    if k == "unit" and e[1] in UNIT_SPELLINGS:
        return ("unit", other_unit(rng, e[1]))
    if k == "bin" and e[1] in ("*", "/"):
        for i in rng.sample([2, 3], 2):
            r = swap_unit(e[i], rng)
            if r is not None:
                return _set(e, i, r)
    if k == "bin" and e[1] == "^":
        r = swap_unit(e[2], rng)
        if r is not None:
            return _set(e, 2, r)
    if k == "un" and e[1] == "neg":
        r = swap_unit(e[2], rng)
        if r is not None:
            return ("un", "neg", r)
    return None


def perturb(e, rng):
    """an expression like e whose dimension differs from e's"""
    r = swap_unit(e, rng) if rng.random() < 0.8 else None
    if r is not None:
        return r
    u = ("unit", rng.choice(["m", "s", "kg", "A", "K"]))
    return bn(rng.choice("*/"), e, u)


def perturb_dim(T, rng):
    return dmul(T, rng.choice([_dd(Length=1), _dd(Time=1), _dd(Time=-1), _dd(Mass=1), _dd(Length=-1)]))


def mutate(prog, rng):
    """one mis-dimensioned variant of a generated program: (stmts, index of the changed
    statement, description, certain).  certain = by construction the variant requires two
    different (closed) dimensions to be equal; otherwise the analysis decides."""
    g = prog["gen"]
    sites = prog["sites"]
    if not sites:
        return None
    for _ in range(6):
        s = rng.choice(sites)
        node = s["node"]
        kind = s["kind"]
        if kind in ("sum", "conv", "if", "cmp", "list", "args"):
            idx = rng.choice(s["idxs"])
            new = _set(node, idx, perturb(_get(node, idx), rng))
            certain = not s["inbody"] and type_is_closed(("D", s["T"]))
            what = "operand of %s changed" % kind
        elif kind == "annot":
            an = ("dim", g.dexpr(perturb_dim(s["T"], rng), None, False))
            if s.get("wrap") == "list":
                an = ("list", an)
            new = _set(node, 2, an)
            certain, what = True, "annotation changed"
        elif kind == "retannot":
            new = _set(node, 4, ("dim", g.dexpr(perturb_dim(s["T"], rng), s["tpmap"], False)))
            certain, what = True, "return annotation changed"
        elif kind == "dimalt":
            alts = list(node[2])
            alts[rng.randrange(len(alts))] = g.dexpr(perturb_dim(s["T"], rng), None, False)
            new = _set(node, 2, alts)
            certain, what = True, "alternative dimension expression changed"
        elif kind == "callarg":
            pds = s["pdims"]
            pairs = [(i, j) for i in range(len(pds)) for j in range(i + 1, len(pds)) if pds[i] != pds[j]]
            if pairs and rng.random() < 0.7:
                i, j = rng.choice(pairs)
                args = list(node[2])
                args[i], args[j] = args[j], args[i]
                new = _set(node, 2, args)
                what = "arguments %d and %d of %s permuted" % (i, j, node[1])
            else:
                idx = rng.choice(s["idxs"])
                new = _set(node, idx, perturb(_get(node, idx), rng))
                what = "argument of %s changed" % node[1]
            certain = False
        else:
            continue
        where = next((n for n, st in enumerate(prog["stmts"]) if contains_node(st, node)), None)
        if where is None:
            continue
        stmts = [replace_node(st, node, new) for st in prog["stmts"]]
        return stmts, where, what, certain
    return None


def with_print_before(stmts, where, rng):
    """make sure a print statement precedes statement `where`"""
    if any(st[0] == "proc" and st[1] == "print" for st in stmts[:where]):
        return stmts, where
    pos = rng.randint(0, where)
    p = ("proc", "print", [rng.choice([num("1"), bn("*", num("2"), ("unit", "m")), ("bool", True)])])
    return stmts[:pos] + [p] + stmts[pos:], where + 1


def defined_names(stmts):
    out = []
    for st in stmts:
        if st[0] == "let":
            out.append(("var", st[1], None))
        elif st[0] == "fn":
            out.append(("fn", st[1], len(st[3])))
        elif st[0] in ("unit", "unitbase"):
            out.append(("unit", st[1], None))
        elif st[0] in ("dim", "dimbase"):
            out.append(("dim", st[1], None))
    return out


def follow_up(rng, name, redefine, start):
    """second input of a session mentioning a name the first input defined"""
    kind, n, ar = name
    if redefine and kind in ("var", "fn", "unit"):
        if kind == "var":
            return [("let", n, None, bn("*", num("3"), ("unit", "s"))), ("expr", bn("+", ("id", n), ("unit", "ms")))]
        if kind == "fn":
            ps = [("pz%d" % i, None) for i in range(ar)]
            return [("fn", n, [], ps, None, [], bn("*", num("2"), ("id", ps[0][0]))),
                    ("expr", ("call", n, [bn("*", num("2"), ("unit", "m"))] * ar))]
        return [("unit", n, None, bn("*", num("3"), ("unit", "m"))), ("expr", bn("+", ("unit", n), ("unit", "cm")))]
    pre = [("let", "vz%d" % start, None, bn("*", num("2"), ("unit", "kg")))] if rng.random() < 0.5 else []
    if kind == "var":
        return pre + [("expr", bn("*", ("id", n), num("2")))]
    if kind == "fn":
        return pre + [("expr", ("call", n, [bn("*", num("2"), ("unit", "m"))] * ar))]
    if kind == "unit":
        return pre + [("let", "vy%d" % start, None, bn("*", num("2"), ("unit", n)))]
    return pre + [("let", "vy%d" % start, ("dim", ("name", n)), num("0"))]


def gen_cases(rng, nprog):
    """the structured stream: well-dimensioned programs, their mis-dimensioned variants and
    two-input sessions.  A case is dict(inputs, kind, why, expect) with expect[i] the verdict
    known by construction ('accept' | 'reject' | 'unknown-ident' | 'unknown-dim' | None)."""
    cases = []
    for n in range(nprog):
        prog = gen_program(rng)
        cases.append(dict(inputs=[prog["stmts"]], kind="program", why="well-dimensioned by construction",
                          expect=["accept"], types=[prog["types"]]))
        variants = []
        for _ in range(rng.choice([1, 2, 2])):
            m = mutate(prog, rng)
            if m is None:
                continue
            stmts, where, what, certain = m
            stmts, where = with_print_before(stmts, where, rng) if rng.random() < 0.8 else (stmts, where)
            variants.append((stmts, where, what, certain))
            cases.append(dict(inputs=[stmts], kind="variant", why="%s in statement %d" % (what, where),
                              expect=["reject" if certain else None]))
        r = rng.random()
        if variants and r < 0.22:
            stmts, where, what, certain = variants[0]
            names = defined_names(stmts)
            if certain and names:
                nm = rng.choice(names)
                redefine = rng.random() < 0.3 and nm[0] != "dim"
                second = follow_up(rng, nm, redefine, n)
                exp2 = "accept" if redefine else ("unknown-dim" if nm[0] == "dim" else "unknown-ident")
                cases.append(dict(inputs=[stmts, second], kind="session",
                                  why="%s in statement %d; second input %s %s" % (
                                      what, where, "re-defines" if redefine else "uses", nm[1]),
                                  expect=["reject", exp2]))
        elif r < 0.27:
            names = defined_names(prog["stmts"])
            if names:
                nm = rng.choice(names)
                second = follow_up(rng, nm, False, n)
                ok2 = not (nm[0] == "fn")      # a call with arbitrary arguments may or may not fit
                cases.append(dict(inputs=[prog["stmts"], second], kind="session",
                                  why="accepted input, second input uses " + nm[1],
                                  expect=["accept", None]))
    return cases


# --------------------------------------------------------------- literals of special magnitude
# The literal 0 (any spelling) is dimension-polymorphic; EVERY other literal is a plain scalar, however small
# or large it is: subnormal f64 values, the smallest normal number, values that print in scientific notation,
# huge finite values.  (Literals that overflow to inf or underflow to 0 in f64 are avoided: the model reads
# literals as exact decimals.)
SPECIAL_NONZERO = ["5e-324", "1e-310", "2e-315", "2.2250738585072014e-308", "1e-300", "1e-7", "0.000001", "1e-5",
                   "1e15", "1.5e20", "1e300", "1.7e308", "123456789012", "2", "0.5"]
ZERO_SPELLINGS = ["0", "0.0", "0.000", "0e5", "0e-7"]
LIT_UNITS = [("m", "Length"), ("s", "Time"), ("kg", "Mass"), ("J", "Energy"), ("Hz", "Frequency")]


def gen_literal_cases(rng, n, start=0):
    """a literal L in every position where the polymorphic-zero rule decides: operand of a sum, of a comparison,
    value of an annotated definition, argument for a dimensionful parameter, branch of a conditional, list
    element — next to a quantity of a non-scalar dimension.  Accepted iff L is exactly zero."""
    cases = []
    for k in range(n):
        zero = rng.random() < 0.3
        lit = rng.choice(ZERO_SPELLINGS if zero else SPECIAL_NONZERO)
        L = num(lit)
        if rng.random() < 0.25:
            L = ("un", "neg", L)
        u, dname = rng.choice(LIT_UNITS)
        q = bn("*", num(rng.choice(LITS)), ("unit", u))
        i = start + k
        shape = rng.choice(["sum", "sum", "cmp", "ann", "arg", "garg", "branch", "list", "scalar"])
        if shape == "sum":
            e = rng.choice([bn("+", L, q), bn("+", q, L), bn("-", q, L), bn("-", L, q)])
            stmts = [("let", "vl%d" % i, None, e)] if rng.random() < 0.5 else [("expr", e)]
        elif shape == "cmp":
            o = rng.choice(["<", ">", "<=", ">=", "==", "!="])
            stmts = [("expr", bn(o, L, q) if rng.random() < 0.5 else bn(o, q, L))]
        elif shape == "ann":
            stmts = [("let", "vl%d" % i, ("dim", ("name", dname)), L)]
        elif shape == "arg":
            f = "fl%d" % i
            stmts = [("fn", f, [], [("pa0", ("dim", ("name", dname)))], None, [], bn("*", num("2"), ("id", "pa0"))),
                     ("expr", ("call", f, [L]))]
        elif shape == "garg":
            f = "fl%d" % i
            stmts = [("fn", f, [("X", True)], [("pa0", ("dim", ("name", "X"))), ("pa1", ("dim", ("name", "X")))], None, [],
                      bn("+", ("id", "pa0"), ("id", "pa1"))),
                     ("expr", ("call", f, [q, L] if rng.random() < 0.5 else [L, q]))]
        elif shape == "branch":
            c = rng.choice([("bool", True), bn(">", q, q)])
            stmts = [("expr", ("if", c, q, L) if rng.random() < 0.5 else ("if", c, L, q))]
        elif shape == "list":
            stmts = [("expr", ("list", [q, L] if rng.random() < 0.5 else [L, q, q]))]
        else:   # control: in a scalar context every literal is fine
            stmts = [("expr", bn("+", L, num(rng.choice(LITS))))]
            zero = True
        cases.append(dict(inputs=[stmts], kind="literal", why="literal %s as %s next to %s" % (lit, shape, dname),
                          expect=["accept" if zero else "reject"]))
    return cases


# --------------------------------------------------------------- malformed stream
SOUP = (["m", "s", "kg", "N", "J", "Hz", "km", "h", "pi", "c", "2", "3", "0.5", "0", "1", "va0", "fa0", "pa0",
         "+", "-", "*", "/", "^", "->", "<", ">", "==", "=", "(", ")", "(", ")", "[", "]", ",", ":", "let", "fn",
         "if", "then", "else", "dimension", "unit", "where", "and", "print", "assert_eq", "sqrt", "mean",
         "Length", "Time", "DA", "<", ">", "Dim", "true", "!", "&&", "||", "to", "per", "°", "%", "\"", "{", "}"])


def gen_soup(rng):
    """token soup: 1-3 lines of random tokens, sometimes after a well-formed printing prefix"""
    lines = []
    if rng.random() < 0.5:
        lines += ["print(2 m)", "let va0 = 3 s"][:rng.randint(1, 2)]
    atoms = ["m", "s", "kg", "N", "J", "Hz", "2", "3", "0.5", "0", "pi", "c", "va0", "vq9", "true", "sqrt(2 m)",
             "mean([1 m, 2 s])", "fa0(2)", "[1 m]", "(2 m)", "3 km", "1 h"]
    ops = ["+", "-", "*", "/", "^", "->", "<", "==", "&&", "+", "-"]
    for _ in range(rng.randint(1, 3)):
        if rng.random() < 0.45:       # operator/operand alternation: parses, dimensions are random
            toks = [rng.choice(atoms)]
            for _ in range(rng.randint(1, 5)):
                toks += [rng.choice(ops), rng.choice(atoms)]
            line = " ".join(toks)
            if rng.random() < 0.3:
                line = "let vs%d = %s" % (rng.randint(0, 3), line)
            lines.append(line)
        else:
            lines.append(" ".join(rng.choice(SOUP) for _ in range(rng.randint(2, 14))))
    return "\x1f".join(lines)


def prelude_rejected(binary):
    """None when `use prelude` loads; otherwise the harness' description `<stage>|<variant> <message>`
    of why the running implementation rejects its own prelude"""
    rc, out = common.sh([binary, "dim-env"], inp="\n", timeout=300)
    for line in out.splitlines():
        if line.startswith("prelude-rejected "):
            return line[len("prelude-rejected "):]
    return None


# --------------------------------------------------------------- struct templates (source level)
# Structs are outside the Coq model and the tuple AST; these by-construction programs exercise
# struct definitions, instantiation, field access, generic structs and lists of structs on the
# implementation only.  Each template: source text, expected verdict, expected raw dimension of
# some `let`s (for accepted ones).
_SQ = [("m", {"Length": 1}, "Length"), ("s", {"Time": 1}, "Time"), ("kg", {"Mass": 1}, "Mass"),
       ("A", {"Current": 1}, "Current"), ("K", {"Temperature": 1}, "Temperature")]


def raw_dim_text(d):
    d = {k: Fraction(v) for k, v in d.items() if Fraction(v) != 0}
    return "D[" + ";".join("b%s^%d/%d" % (k, d[k].numerator, d[k].denominator) for k in sorted(d)) + "]"


def _dmul(a, b, sb=1):
    out = dict(a)
    for k, v in b.items():
        out[k] = out.get(k, 0) + sb * v
    return out


def struct_templates(rng, k):
    """-> list of dict(source, expect, lets)"""
    (u1, d1, n1), (u2, d2, n2) = rng.sample(_SQ, 2)
    u3, d3, n3 = rng.choice([q for q in _SQ if q[1] not in (d1, d2)])
    S, G = "Sa%d" % k, "Sg%d" % k
    v, w, r = "vs%d" % k, "vt%d" % k, "vq%d" % k
    c1, c2 = rng.choice(["2", "3", "1.5"]), rng.choice(["4", "5", "0.5"])
    out = []
    base = "struct %s { fa: %s, fb: %s }\nlet %s = %s { fa: %s %s, fb: %s %s }\n" % (S, n1, n2, v, S, c1, u1, c2, u2)
    out.append(dict(source=base + "let %s = %s.fa / %s.fb\nlet %s = %s.fa * %s.fa" % (r, v, v, w, v, v),
                    expect="accept", lets={r: raw_dim_text(_dmul(d1, d2, -1)), w: raw_dim_text(_dmul(d1, d1))}))
    out.append(dict(source=base + "let %s = %s.fa + %s.fb" % (r, v, v), expect="reject", lets={}))
    out.append(dict(source="struct %s { fa: %s, fb: %s }\nlet %s = %s { fa: %s %s, fb: %s %s }" % (
        S, n1, n2, v, S, c1, u2, c2, u2), expect="reject", lets={}))
    out.append(dict(source=base + "let %s: %s = %s.fb" % (r, n1, v), expect="reject", lets={}))
    out.append(dict(source=base + "fn fs%d(pq: %s) -> %s = pq.fa^2 / pq.fb\nlet %s = fs%d(%s)" % (
        k, S, "%s^2 / %s" % (n1, n2), r, k, v), expect="accept",
        lets={r: raw_dim_text(_dmul(_dmul(d1, d1), d2, -1))}))
    gen = "struct %s<DA: Dim, DB: Dim> { fx: DA, fy: DA, fz: DB }\n" % G
    out.append(dict(source=gen + "let %s = %s { fx: %s %s, fy: %s %s, fz: %s %s }\nlet %s = (%s.fx + %s.fy) * %s.fz" % (
        v, G, c1, u1, c2, u1, c1, u3, r, v, v, v), expect="accept", lets={r: raw_dim_text(_dmul(d1, d3))}))
    out.append(dict(source=gen + "let %s = %s { fx: %s %s, fy: %s %s, fz: %s %s }" % (
        v, G, c1, u1, c2, u2, c1, u3), expect="reject", lets={}))
    out.append(dict(source=base + "let %s = [%s, %s { fa: %s %s, fb: %s %s }]\nlet %s = head(%s).fa" % (
        w, v, S, c2, u1, c1, u2, r, w), expect="accept", lets={r: raw_dim_text(d1)}))
    out.append(dict(source=base + "let %s = [%s.fa, %s.fb]" % (w, v, v), expect="reject", lets={}))
    return out
