"""C07 — incremental, batched and replayed sessions agree.

proof:  coq/theories/Props/C07.v — C07_fold_partial (two successful inputs vs their join; premises:
        the stages are folds over statements and the parser concatenates), C07_save_lines,
        C07_save_replay (model of SessionHistory::save_inner + C06_history), C07_clone.
tie:    real numbat Contexts through the harness `session` subcommand:
        successful sessions (definitions, redefinitions, functions, units, ans/_, prints, imports)
        run incrementally, joined into one input, split at a random point, typed into the REPL
        line handler (real CommandRunner + SessionHistory, with failing and blank-padded lines in
        between), saved with the real `save` command, the saved file replayed in a fresh Context,
        and continued on Context::clone(); prints, results and full digests must agree.
        Toy sessions are additionally compared with Session/Toy.v in joined form (vm_compute).
"""
import collections
import json
import os
import re
import shutil

import common
from props import sesslib as S
from props import c06

MANIFEST = dict(
    category="proof",
    text="proof (partial): machine-checked proof (Coq) on the Context/resolver model: two successful inputs submitted "
         "one after the other or joined into one multi-line input give the same printed output, the same last result "
         "and equivalent states (C07_fold_partial) under premise (a) the stages are folds over the statement list and "
         "(b) the parser reads the joined text as the concatenation of the statement lists. (a) is discharged for EVERY "
         "instance whose stages are defined as folds (C07_fold_any_folds) and in particular for the executable "
         "miniature instance the correspondence runs on (C07_fold_toy); that numbat's transform / check / "
         "interpret_statements+run are such folds remains an assumption about the Rust code, validated by joined/split "
         "sessions. (b) is proved on a model of the statement loop of Parser::parse over an arbitrary statement parser "
         "from four locality conditions (C07_parse_concat_skeleton; non-vacuity C07_parse_concat_one_tok) and outright, "
         "at text level, for the miniature grammar (C07_parse_concat_toy); that Parser::statement is local is "
         "validated on the real parser for all 3600 ordered pairs of a 60-statement alphabet, not proved. The proof "
         "attempt exposed finding C07-semicolon-before-newline (`1;` and `2` succeed, `1;\\n2` was a parse error), "
         "repaired by a fix: commit; C07_semicolon_before_fix_refuted keeps the kernel witness and Gen/ParserLoop.v "
         "re-derives the relevant flag from parser.rs on every run. `save` writes exactly the trimmed successful inputs "
         "in order (C07_save_lines) and replaying them reproduces the successful outcomes and an equivalent state "
         "(C07_save_replay, built on C06_history); a copied session is a function of the copied state only "
         "(C07_clone; sharing in real clones is checked on the implementation). Tie: incremental / joined / split / "
         "saved-and-replayed / cloned sessions on real Contexts with the real CommandRunner and SessionHistory, plus "
         "the interactive binary under a pty with the real `save` and `numbat <saved file>`.",
    design_ref="DESIGN.md §6 C07, design/session.md",
    note="Trusted: Coq kernel + vm_compute; hand models Session/{Resolver,Context}.v, SaveProofs.v (save_inner, REPL "
         "loop body); the REPL glue of numbat-cli is re-implemented in the harness around the real "
         "CommandRunner::try_run_command / push_to_history (the interactive binary is not driven through a pty); "
         "now(), random() and currency lookups are excluded from the generators.",
    technique="Coq proof (resolver pass over concatenation; fold premises; history/save model) + metamorphic "
              "correspondence on real Contexts",
)

THEOREMS = ["C07_fold_partial", "C07_fold_any_folds", "C07_fold_toy", "C07_parse_concat_one_tok", "C07_parse_concat_toy", "C07_parse_concat_skeleton",
            "C07_semicolon_before_fix_refuted", "C07_save_lines", "C07_save_replay", "C07_clone",
            "C07_parse_concat_syntax_canonical", "C07_parse_concat_syntax_single_line",
            "C07_statement_locality_printed", "C07_vm_compile_is_fold", "C07_vm_joined_is_fold"]
FINDING_SEMI = "C07-semicolon-before-newline"


# ------------------------------------------------------------ translator: statement loop of Parser::parse
def parser_loop_from_source(repo=None):
    """does the Semicolon arm of Parser::parse skip the empty lines after the `;`?"""
    src = open(os.path.join(repo or common.REPO, "numbat", "src", "parser.rs")).read()
    src = re.sub(r"//[^\n]*", "", src)
    m = re.search(r"fn parse\(&mut self, tokens[^{]*\{", src)
    if not m:
        return False, "Parser::parse not found"
    body = src[m.end():m.end() + 4000]
    arm = re.search(r"TokenKind::Semicolon\s*=>\s*\{([^}]*)\}", body)
    if not arm:
        return False, "Semicolon arm not found"
    txt = arm.group(1)
    ok = bool(re.search(r"self\.advance\(tokens\)\s*;\s*self\.skip_empty_lines\(tokens\)\s*;", txt))
    return ok, ""


def write_parser_loop(flag):
    text = ("(* GENERATED by tools/props/c07.py from numbat/src/parser.rs (Parser::parse):\n"
            "   does the `TokenKind::Semicolon` arm of the statement loop call skip_empty_lines after advance? *)\n"
            "Definition parser_semi_skips : bool := %s.\n" % ("true" if flag else "false"))
    path = os.path.join(common.COQ, "theories", "Gen", "ParserLoop.v")
    if not os.path.exists(path) or open(path).read() != text:
        open(path, "w").write(text)
        for ext in (".vo", ".vos", ".vok", ".glob"):
            try:
                os.remove(path[:-2] + ext)
            except OSError:
                pass


# ------------------------------------------------------------ premise (b) on the real parser
# statements that parse on their own; chosen so that every way a statement can END and every token a
# statement can START with occurs (newline-sensitive constructs: where/and clauses, trailing `;`,
# comments, decorators on their own line, brackets spanning lines, conditionals spanning lines)
ALPHABET = [
    "1", "x", "f(1)", "-1", "+2", "(1)", "[1, 2]", "!true", "x.a", "x²", "2 m", "1 -> m", "x |> f",
    "\"str\"", "\"a {1} b\"", "if true then 1 else 2", "if true\n  then 1\n  else 2", "f(1,\n  2)", "[1,\n 2]",
    "let a = 1", "let a: Length = 1 m", "fn f(x) = x", "fn f(x) = y\n  where y = x", "fn f(x) = y + z\n  where y = x\n  and z = 2",
    "fn g(x: Scalar) -> Scalar", "unit u", "unit v: Length = 2 m", "dimension D", "dimension E = D^2",
    "struct S { a: Scalar }", "struct T {\n  a: Scalar,\n  b: Scalar\n}", "S { a: 1 }", "use m::n",
    "print(1)", "assert(true)", "assert_eq(1, 1)", "type(1)", "@aliases(q)\nlet z = 1", "@metric_prefixes\nunit w",
    "1;", "1 ;", "let a = 1;", "1; 2", "1 # comment", "# only a comment", "1  ", "  1", "", "\n", "1\n", "\n1",
    "2 per 3", "2^-1", "5!", "1e3", "0x1F", "true && false", "x ≥ 1", "a -> b -> c", "1 m²/s",
]


def parse_concat_cases():
    return [(a, b) for a in ALPHABET for b in ALPHABET]


def split_dump(d):
    """'OK t1 ; t2 ;; v1,v2' -> (trees, values) or None for ERR"""
    if not d.startswith("OK "):
        return None
    body, _, vals = d[3:].partition(" ;; ")
    if d.endswith(";; "):
        body, vals = d[3:-3], ""
    body = body.strip()
    trees = [t for t in body.split(" ; ") if t] if body else []
    return trees, [v for v in vals.split(",") if v]
RS = "\x1e"


def gen_ok_session(rng, n=None):
    """lines that are believed to succeed (typed item table of c06; modules imported on the way).  Lines that
    read the last result (`ans`, `_`) are preferred right after a line that produced one, so that what `ans`
    denotes — and in which representation — is observed in every variant."""
    n = n or rng.randrange(5, 16)
    mods = list(dict.fromkeys(rng.sample(c06.STD_MODS, rng.randrange(1, 4))))
    have = set()
    lines = []
    for m in ("units::si", "core::quantities"):
        if rng.random() < 0.7:
            have.update("mod:" + x for x in c06.module_closure(m))
            lines.append("use " + m)
    while len(lines) < n:
        if rng.random() < 0.15:
            m = rng.choice(mods)
            have.update("mod:" + x for x in c06.module_closure(m))
            lines.append("use " + m)
            continue
        if rng.random() < 0.35:
            # goal directed: pick any item and first establish what it needs (deep chains get exercised)
            got = c06.plan_item(rng, have, rng.choice(c06.STD_ITEMS))
            if got:
                lines += got
                continue
        cands = c06.usable_items(have)
        weights = [5 if re.search(r"(map|filter|foldl)\((f1|inc|isbig|addf)\b|= (f1|inc)$", i[0]) else
                   4 if any(r.split(":")[0] == "ans" for r in i[1]) else
                   (2 if any(p.startswith("ans:q") for p in i[2]) else 1) for i in cands]
        it = rng.choices(cands, weights=weights)[0]
        c06.item_apply(have, it)
        lines.append(it[0])
    return c06.add_redefinitions(rng, lines)


def parse_item(it):
    p = it.split("|")
    return {"ok": p[0] == "ok", "value": p[1] if len(p) > 1 else "", "prints": "|".join(p[3:]) if p[0] == "ok" else "|".join(p[2:])}


def summarize(items):
    """(all ok?, concatenated prints, last value)"""
    prints, last, ok = [], "-", True
    for it in items:
        d = parse_item(it)
        ok = ok and d["ok"]
        if d["prints"]:
            prints += d["prints"].split(RS)
        if d["ok"] and d["value"] != "-":
            last = d["value"]
    return ok, prints, last


PTY_SAVE_SESSIONS = [
    # typed lines (failing ones in between), the successful ones in order, stdout of replaying the saved file
    (["let a = 2", "1 / 0", "  a * 3  ", "undefined_zz", "print(a)"], ["let a = 2", "a * 3", "print(a)"], ["2", "6"]),
    (["let b = 1;", "use units::si", "let = 3", "b + 1"], ["let b = 1;", "use units::si", "b + 1"], ["2"]),
]


def pty_save_replay(chk, tmp):
    """types sessions into the interactive binary, saves them with the real `save` command, replays the saved
    file with `numbat <file>`.  Only conclusive transcripts count."""
    import concurrent.futures as cf
    import subprocess
    res = {"conclusive": 0, "problems": []}
    if not shutil.which("script"):
        chk.notes.append("pty save/replay skipped: no `script` binary")
        return res
    try:
        cli = common.build_cli()
    except common.Broken as e:
        chk.notes.append("pty save/replay skipped: %s" % str(e)[:200])
        return res
    home = os.path.join(common.WORK, "c07-pty")
    os.makedirs(home, exist_ok=True)

    def one(k):
        typed, want, want_out = PTY_SAVE_SESSIONS[k]
        path = os.path.join(tmp, "pty%d.nbt" % k)
        txt = c06.pty_session(cli, home, typed + ["save " + path])
        return txt, path
    with cf.ThreadPoolExecutor(max_workers=len(PTY_SAVE_SESSIONS)) as ex:
        outs = list(ex.map(one, range(len(PTY_SAVE_SESSIONS))))
    for (typed, want, want_out), (txt, path) in zip(PTY_SAVE_SESSIONS, outs):
        if not (c06.pty_conclusive(txt, typed + ["save " + path]) and os.path.exists(path)):
            continue
        res["conclusive"] += 1
        saved = open(path, encoding="utf-8").read()
        # the end marker typed after `save` is not part of the file
        if saved != "".join(l + "\n" for l in want):
            res["problems"].append(("interactive session %r: save wrote %r, the successful inputs are %r" % (typed, saved, want), typed))
            continue
        env = dict(common.ENV)
        env.update({"HOME": home, "XDG_CONFIG_HOME": os.path.join(home, "cfg")})
        p = subprocess.run([cli, "--no-config", "--no-init", "--color", "never", path], stdout=subprocess.PIPE,
                           stderr=subprocess.PIPE, env=env, timeout=180)
        out = p.stdout.decode("utf-8", "replace").split("\n")
        if out and out[-1] == "":
            out.pop()
        if p.returncode != 0 or out != want_out:
            res["problems"].append(("replaying the saved file of %r with `numbat <file>`: exit %d stdout %r stderr %r (expected exit 0, %r)" % (
                typed, p.returncode, out, p.stderr.decode("utf-8", "replace")[:300], want_out), want))
    return res


def joined_disagrees(binary, lines):
    """every line succeeds incrementally, but the joined input differs in prints, last result or final state"""
    if not lines:
        return None
    o = S.run_sessions(binary, [[("I", l) for l in lines] + [("d", "")], [("I", "\n".join(lines)), ("d", "")]])
    if len(o[0]) < len(lines) + 1 or len(o[1]) < 2:
        return None
    a = summarize(o[0][:len(lines)])
    if not a[0]:
        return None
    b = summarize(o[1][:1])
    if a != b:
        return "incremental: prints %r, last result %r; joined: %s, prints %r, last result %r" % (
            a[1], a[2], "ok" if b[0] else o[1][0], b[1], b[2])
    if o[0][-1] != o[1][-1]:
        return "final state differs: %s vs %s" % (o[0][-1][:300], o[1][-1][:300])
    return None


def shrink_lines(binary, lines):
    if joined_disagrees(binary, lines) is None:
        return lines, None
    small = common.shrink_list(lines, lambda cand: joined_disagrees(binary, cand) is not None, max_rounds=80)
    return small, joined_disagrees(binary, small)


def run(chk):
    binary, _ = common.build_harness()
    c06.write_skeleton(c06.skeleton_from_source()[0])
    semi_flag, semi_note = parser_loop_from_source()
    write_parser_loop(semi_flag)
    if semi_note:
        chk.notes.append("parser loop translator: " + semi_note)
    proved = chk.prove("Props.C07", THEOREMS, ["theories/Props/C07.vo", "theories/Session/Toy.vo"])
    if not proved:
        chk.notes.append("proof side: " + str(getattr(chk, "proof_failure", "?"))[:1500])
    chk.trusted += [
        "models Session/Resolver.v, Session/Context.v; SaveProofs.v: SessionHistory::push/save_inner and the body of "
        "the REPL loop (interpret + push_to_history)",
        "the fold premises of C07_fold_partial and parse(a \\n b) = parse a ++ parse b are validated by running "
        "joined/split sessions on the implementation",
        "harness tag R re-implements the line handling of numbat-cli repl_loop around the real CommandRunner",
    ]
    chk.assumptions += ["inputs are complete statements per line (no line continuation across the join point)",
                        "no now()/random()/currency identifiers in generated sessions"]
    quick = chk.tier == "quick"
    rng = chk.rng
    tmp = os.path.join(common.WORK, "c07-save")
    shutil.rmtree(tmp, ignore_errors=True)
    os.makedirs(tmp, exist_ok=True)

    sessions = []
    corpus_p = os.path.join(common.VERIF, "corpus", "c07.json")
    for c in (json.load(open(corpus_p)) if os.path.exists(corpus_p) else []):
        sessions.append(c["lines"])
    for _ in range(70 if quick else 1500):
        sessions.append(gen_ok_session(rng))

    cases, meta = [], []
    for si, lines in enumerate(sessions):
        n = len(lines)
        cut = rng.randrange(1, n) if n > 1 else 1
        k = rng.randrange(0, n + 1)
        xs = gen_ok_session(rng, 2)
        cases.append([("I", l) for l in lines] + [("d", "")]); meta.append((si, "incremental"))
        cases.append([("I", "\n".join(lines)), ("d", "")]); meta.append((si, "joined"))
        cases.append([("I", "\n".join(lines[:cut])), ("I", "\n".join(lines[cut:])), ("d", "")]); meta.append((si, "split@%d" % cut))
        # REPL + save: failing and padded lines in between
        path = os.path.join(tmp, "h%d.nbt" % si)
        rl = []
        for l in lines:
            if rng.random() < 0.25:
                rl.append(("R", rng.choice(["1 / 0", "undefined_zz", "let = 1", "use nosuch::m\nlet q9 = 1", "unit"])))
            rl.append(("R", ("  " + l + " ") if rng.random() < 0.3 else l))
        cases.append(rl + [("d", ""), ("R", "save " + path), ("L", path)]); meta.append((si, "repl+save"))
        # clone after k inputs: original continues with xs, clone with the rest of the session
        cases.append([("I", l) for l in lines[:k]] + [("K", "1")] + [("I", x) for x in xs] + [("@", "1")]
                     + [("I", l) for l in lines[k:]] + [("d", "")]); meta.append((si, "clone@%d@%d" % (k, len(xs))))
    outs = S.run_sessions(binary, cases)

    # replay of the saved files
    replay_cases, replay_idx = [], []
    for ci, (si, kind) in enumerate(meta):
        if kind == "repl+save":
            content = outs[ci][-1] if outs[ci] else ""
            saved = content if not content.startswith("@@") else None
            replay_idx.append((ci, si, saved))
            # the saved file is replayed the way `numbat <file>` does it: as ONE input
            replay_cases.append([("F", saved or "")] + [("d", "")])
    routs = S.run_sessions(binary, replay_cases)

    problems = []
    stats = collections.Counter()
    base = {}
    for ci, (si, kind) in enumerate(meta):
        if kind == "incremental":
            items = outs[ci]
            n = len(sessions[si])
            base[si] = (summarize(items[:n]), items[n] if len(items) > n else "?", items[:n])
            stats["inputs"] += n
            stats["inputs_ok"] += sum(1 for x in items[:n] if x.startswith("ok|"))
    for ci, (si, kind) in enumerate(meta):
        (ok, prints, last), dig, per = base[si]
        lines = sessions[si]
        if not ok:
            stats["sessions_not_fully_successful"] += 1
            continue            # the property is about sequences of inputs that each succeed
        items = outs[ci]
        if kind == "joined" or kind.startswith("split"):
            k = 1 if kind == "joined" else 2
            ok2, prints2, last2 = summarize(items[:k])
            if not ok2:
                problems.append((si, kind, "every line succeeds incrementally but the joined input answers %r" % (items[:k],)))
            elif prints2 != prints or last2 != last:
                problems.append((si, kind, "prints/result differ: incremental %r / %r, %s %r / %r" % (prints, last, kind, prints2, last2)))
            elif items[k] != dig:
                problems.append((si, kind, "final state differs: incremental %s ; %s %s" % (dig[:400], kind, items[k][:400])))
            stats["joined_or_split_compared"] += 1
        elif kind.startswith("clone"):
            k = int(kind.split("@")[1])
            nx = int(kind.split("@")[2])
            n = len(lines)
            # items: k inputs, nx inputs fed to the original after cloning, n-k inputs on the clone, digest of the clone
            clone_items = items[k + nx:k + nx + (n - k)]
            if items[:k] + clone_items != per:
                problems.append((si, kind, "the clone answers %r, the uncloned session %r" % (clone_items, per[k:])))
            elif items[-1] != dig:
                problems.append((si, kind, "clone ends in a different state than the uncloned session "
                                           "(the original was fed other inputs after cloning): %s vs %s" % (items[-1][:300], dig[:300])))
            stats["clones_compared"] += 1
    for (ci, si, saved), ro in zip(replay_idx, routs):
        (ok, prints, last), dig, per = base[si]
        if not ok:
            continue
        lines = sessions[si]
        if saved is None:
            problems.append((si, "repl+save", "save failed: %r" % (outs[ci][-2:],)))
            continue
        if saved != "".join(l.strip() + "\n" for l in lines):
            problems.append((si, "repl+save", "save wrote %r, the successful inputs are %r" % (saved, lines)))
            continue
        # the REPL session itself (with failing lines in between) must end like the plain one
        repl_digest = outs[ci][-3]
        if repl_digest != dig:
            problems.append((si, "repl+save", "REPL session with failing lines in between ends in %s, without them %s" % (
                repl_digest[:300], dig[:300])))
        else:
            ok3, prints3, last3 = summarize(ro[:1])
            if not ok3 or prints3 != prints or last3 != last or ro[-1] != dig:
                problems.append((si, "replay", "replaying the saved file as a file: %r / %s ; original session: prints %r, "
                                               "last result %r / %s" % (ro[:1], ro[-1][:300], prints, last, dig[:300])))
        stats["replays_compared"] += 1

    # toy sessions in joined form: model vs implementation
    toy = []
    for _ in range(60 if quick else 800):
        table, ops = S.gen_toy_session(rng, p_fail=0.0)
        stmts = [s for op in ops if op[0] == "I" for s in op[1][1]]
        toy.append((table, [("I", ("ok", stmts)), ("d",)]))
    timpl = S.run_sessions(binary, [S.toy_case_fields(t, o) for t, o in toy])
    items = [(S.toy_case_coq(t, o), "\t".join(timpl[n])) for n, (t, o) in enumerate(toy)]
    bad_model = common.coq_mismatches(S.COQ_IMPORTS + ["Gen.CtxSkeleton"], items, "c07",
                                      shard_size=min(60, max(8, -(-len(items) // common.NPROC))), timeout=2400)

    # premise (b) on the real parser: all ordered pairs of the statement alphabet
    pc = parse_concat_cases()
    pc_out = S.run_sessions(binary, [[("A", a), ("A", b), ("A", a + "\n" + b)] for a, b in pc])
    pc_bad = []
    pc_both_ok = 0
    for (a, b), o in zip(pc, pc_out):
        if len(o) < 3:
            pc_bad.append((a, b, "no answer: %r" % (o,)))
            continue
        da, db, dj = split_dump(o[0]), split_dump(o[1]), split_dump(o[2])
        if da is None or db is None:
            continue
        pc_both_ok += 1
        if dj is None:
            pc_bad.append((a, b, "both parse, joined with a newline: %s" % o[2]))
        elif dj[0] != da[0] + db[0] or dj[1] != da[1] + db[1]:
            pc_bad.append((a, b, "joined parses as %r, the parts as %r and %r" % (dj[0], da[0], db[0])))
    stats["parse_concat_pairs"] = len(pc)
    stats["parse_concat_pairs_both_parse"] = pc_both_ok
    for a, b, text in pc_bad[:3]:
        # a failing input of the property: a and b succeed as inputs iff they also type-check/run; report the
        # parser-level disagreement together with what the interpreter says about the three inputs
        o = S.run_sessions(binary, [[("X", ""), ("I", a), ("I", b)], [("X", ""), ("I", a + "\n" + b)]])
        both_run = all(x.startswith("ok|") for x in o[0])
        if both_run and not o[1][0].startswith("ok|"):
            problems.append((len(sessions), "parse-concat", "inputs %r and %r each succeed (%r) but joined they answer %r" % (a, b, o[0], o[1])))
            sessions.append([a, b])
        else:
            problems.append((len(sessions), "parse-concat", "%r + newline + %r: %s" % (a, b, text)))
            sessions.append([a, b])

    # end-to-end: the interactive binary under a pty, the real `save`, and the saved file replayed as a file
    pty = pty_save_replay(chk, tmp)
    stats["pty_save_sessions_conclusive"] = pty["conclusive"]
    for text, lines in pty["problems"]:
        problems.append((len(sessions), "pty save/replay", text))
        sessions.append(lines)

    found = 0
    seen = set()
    for si, kind, text in problems:
        if si in seen:
            continue
        seen.add(si)
        small, why = shrink_lines(binary, sessions[si])
        chk.violation({"kind": "incremental / joined / replayed / cloned sessions disagree (real numbat Context)",
                       "lines": small, "variant": kind, "detail": why or text,
                       "original_session": sessions[si] if small != sessions[si] else None,
                       "replay": "./check C07 --replay <this file>"})
        found += 1
        if found >= 3:
            break
    if not found and (bad_model or not proved):
        k = min(bad_model) if bad_model else None
        chk.violation({
            "kind": "proof or correspondence no longer checks",
            "theorem_or_correspondence": ("Session/Toy.v vs numbat Context on joined toy sessions" if bad_model
                                          else "Props/C07.v: " + getattr(chk, "proof_failure", "?")),
            "mismatching_cases": len(bad_model),
            "first_case": None if k is None else {"fields": S.toy_case_fields(*toy[k]), "implementation": timpl[k],
                                                  "model": bad_model[k].split("\t")},
        }, found_input=False)
    shutil.rmtree(tmp, ignore_errors=True)
    full_ok = [si for si in base if base[si][0][0]]
    chk.cov.update({
        "evaluations": len(cases) + len(replay_cases) + len(toy) + len(pc),
        "distinct_nontrivial": len(set(tuple(sessions[si]) for si in full_ok if len(sessions[si]) > 2)),
        "rule": "seeded sessions of 4-11 lines believed to succeed (definitions, redefinitions, functions, units, "
                "dimensions, structs, ans, prints, imports of 1-3 standard-library modules); each is run "
                "incrementally, joined, split at a random point, through the REPL line handler with failing/padded "
                "lines and the real save command, replayed from the saved file, and continued on a clone. "
                "non-trivial = distinct session with > 2 lines in which every line really succeeded",
        "sessions": len(sessions), "sessions_fully_successful": len(full_ok),
        "toy_joined_model_cases": len(toy), "model_mismatches": len(bad_model),
        "oracle_violations": len(problems), "histogram": dict(stats), "exhaustive": False,
        "parse_concat": "all %d ordered pairs of a %d-statement alphabet on the real parser (dump_ast hook): joined tree list = "
                        "concatenation whenever both parts parse (%d pairs)" % (len(pc), len(ALPHABET), pc_both_ok),
        "parser_semi_skips": semi_flag,
        "samples": [{"lines": sessions[i], "incremental": base[i][2]} for i in (0, max(base))],
    })


def replay(path):
    r = json.load(open(path))
    if "lines" not in r:
        print(json.dumps(r, indent=1)[:4000])
        return 0
    binary, _ = common.build_harness()
    lines = r["lines"]
    o = S.run_sessions(binary, [[("I", l) for l in lines] + [("d", "")], [("I", "\n".join(lines)), ("d", "")]])
    a = summarize(o[0][:len(lines)])
    b = summarize(o[1][:1])
    print("incremental:", a, o[0][-1][:300])
    print("joined     :", b, o[1][-1][:300])
    good = a == b and o[0][-1] == o[1][-1]
    print("agrees" if good else "VIOLATED")
    return 0 if good else 1
