"""Shared helpers of the `session` area (C06 C07 C17 C22): harness line protocol,
toy-fragment session generator (source text for numbat + Coq term for
Session/Toy.v), real-stdlib session generator, digest comparison."""
import os
import re

import common

COQ_IMPORTS = ["Session.Resolver", "Session.Context", "Session.Toy"]


# ------------------------------------------------------------ line protocol
def esc(s):
    return s.replace("\\", "\\\\").replace("\n", "\\n").replace("\t", "\\t").replace("\r", "\\r")


def unesc(s):
    out, i = [], 0
    while i < len(s):
        c = s[i]
        if c == "\\" and i + 1 < len(s):
            n = s[i + 1]
            out.append({"n": "\n", "t": "\t", "r": "\r", "\\": "\\"}.get(n, "\\" + n))
            i += 2
        else:
            out.append(c)
            i += 1
    return "".join(out)


def case_line(fields):
    """fields: list of (tag, text)  e.g. ('I', 'let x = 1'), ('d', ''), ('M', 'ma=let a = 1')"""
    return "\t".join(t + esc(x) for t, x in fields)


def split_out(line):
    return [unesc(x) for x in line.split("\t")] if line else []


def run_sessions(binary, cases, timeout=1200):
    """cases: list of field lists.  Returns list of lists of output items."""
    lines = [case_line(c) for c in cases]
    shards = min(common.NPROC, max(1, len(lines) // 8))
    outs = common.run_harness(binary, "session", lines, timeout=timeout, shards=shards)
    return [split_out(o) for o in outs]


# ------------------------------------------------------------ toy fragment
VARS = ["x", "y", "z", "w", "v"]
UNITS = ["ua", "ub", "uc"]
MODS = ["ma", "mb", "mc", "pk::md", "pk::me", "mf"]


# statements are tuples:
#  ('use', m) ('let', x, e) ('unit', u) ('expr', e) ('print', e)
# e: ('atom', a) ('add', a, b) ('div0', a)     a: int or str
def atom_src(a):
    return str(a)


def expr_src(e):
    if e[0] == "atom":
        return atom_src(e[1])
    if e[0] == "add":
        return "%s + %s" % (atom_src(e[1]), atom_src(e[2]))
    return "%s / 0" % atom_src(e[1])


def stmt_src(s):
    k = s[0]
    if k == "use":
        return "use " + s[1]
    if k == "let":
        return "let %s = %s" % (s[1], expr_src(s[2]))
    if k == "unit":
        return "unit " + s[1]
    if k == "expr":
        return expr_src(s[1])
    if k == "print":
        return "print(%s)" % expr_src(s[1])
    raise ValueError(s)


PARSE_ERR_TEXTS = ["let = 1", "1 +", "unit", "let x 1", ")"]


def code_src(code):
    """code: ('ok', [stmts]) or ('bad', [stmts], pos, text) – unparsable text inserted at pos"""
    if code[0] == "ok":
        return "\n".join(stmt_src(s) for s in code[1])
    lines = [stmt_src(s) for s in code[1]]
    lines.insert(code[2], code[3])
    return "\n".join(lines)


def atom_coq(a):
    return "n %d" % a if isinstance(a, int) else 'i "%s"' % a


def expr_coq(e):
    if e[0] == "atom":
        return "eA (%s)" % atom_coq(e[1])
    if e[0] == "add":
        return "eS (%s) (%s)" % (atom_coq(e[1]), atom_coq(e[2]))
    return "eD (%s)" % atom_coq(e[1])


def stmt_coq(s):
    k = s[0]
    if k == "use":
        return 'sU "%s"' % s[1]
    if k == "let":
        return 'sL "%s" (%s)' % (s[1], expr_coq(s[2]))
    if k == "unit":
        return 'sN "%s"' % s[1]
    if k == "expr":
        return "sE (%s)" % expr_coq(s[1])
    return "sP (%s)" % expr_coq(s[1])


def code_coq(code):
    if code[0] != "ok":
        return "cBad"
    return "cOk [%s]" % "; ".join(stmt_coq(s) for s in code[1])


def toy_case_fields(table, ops):
    """table: list of (name, code); ops: list of ('I', code) | ('d',)"""
    f = [("X", "")]
    for n, c in table:
        f.append(("M", "%s=%s" % (n, code_src(c))))
    for op in ops:
        if op[0] == "I":
            f.append(("I", code_src(op[1])))
        else:
            f.append(("d", ""))
    return f


def toy_case_coq(table, ops, skeleton="current_skeleton"):
    """the model reads the very line the harness reads (Session/Toy.v show_line)"""
    return "show_line %s %s" % (skeleton, common.coq_string(case_line(toy_case_fields(table, ops))))


class Names:
    """what the generator believes is defined: scalar variables, units, variables per unit"""

    def __init__(self, other=None):
        self.ans = other.ans if other else "none"      # sort of the last result: "none", None (scalar) or a unit
        self.scalars = list(other.scalars) if other else []
        self.units = list(other.units) if other else []
        self.dimvars = {k: list(v) for k, v in other.dimvars.items()} if other else {}

    def define(self, x, sort):
        for l in [self.scalars] + list(self.dimvars.values()):
            while x in l:
                l.remove(x)
        if sort is None:
            self.scalars.append(x)
        else:
            self.dimvars.setdefault(sort, []).append(x)


def gen_atom(rng, names, sort):
    if rng.random() < 0.04:
        return rng.choice(VARS + UNITS + ["ans", rng.randrange(1, 9)])      # chaos: may be a type error
    if names.ans == sort and rng.random() < 0.25:
        return rng.choice(["ans", "_"])              # the last result, when it has the wanted sort
    if sort is None:
        if names.scalars and rng.random() < 0.6:
            return rng.choice(names.scalars)
        return rng.randrange(1, 9)   # 0 is dimension-polymorphic in numbat; outside the fragment
    pool = [sort] + names.dimvars.get(sort, [])
    return rng.choice(pool)


def gen_expr(rng, names):
    sort = rng.choice(names.units) if names.units and rng.random() < 0.4 else None
    if rng.random() < 0.45:
        return ("atom", gen_atom(rng, names, sort)), sort
    return ("add", gen_atom(rng, names, sort), gen_atom(rng, names, sort)), sort


def gen_good_stmt(rng, names, mods):
    r = rng.random()
    if r < 0.22 and mods:
        return ("use", rng.choice(mods))
    if r < 0.62:
        free = [v for v in VARS if v not in names.units] or VARS
        x = rng.choice(free)
        e, sort = gen_expr(rng, names)
        names.define(x, sort)
        return ("let", x, e)
    if r < 0.72:
        free = [u for u in UNITS if u not in names.units]
        if free:
            u = rng.choice(free)
            names.units.append(u)
            return ("unit", u)
    if r < 0.88:
        e, sort = gen_expr(rng, names)
        names.ans = sort                              # an expression statement sets the last result
        return ("expr", e)
    return ("print", gen_expr(rng, names)[0])


def gen_failing_stmt(rng, kind, names, mods):
    anyname = names.scalars + names.units + [1]
    if kind == "unknown_module":
        return ("use", rng.choice(["nosuch", "pk::nosuch", "zz"]))
    if kind == "clash":
        c = []
        if names.scalars:
            c.append(("unit", rng.choice(names.scalars)))
        if names.units:
            c.append(("let", rng.choice(names.units), ("atom", 1)))
            c.append(("unit", rng.choice(names.units)))
        return rng.choice(c) if c else ("unit", rng.choice(VARS))
    if kind == "type":
        c = [("expr", ("atom", "undefined_q")), ("print", ("add", "nope", rng.choice(anyname)))]
        if names.units:
            c.append(("let", rng.choice(VARS), ("add", 1, rng.choice(names.units))))
        return rng.choice(c)
    if kind == "runtime":
        a = rng.choice(anyname)
        return rng.choice([("let", rng.choice(VARS), ("div0", a)), ("expr", ("div0", a)), ("print", ("div0", 1))])
    raise ValueError(kind)


FAIL_KINDS = ["unknown_module", "parse", "clash", "type", "runtime"]


def gen_toy_session(rng, n_inputs=None, p_fail=0.4):
    nm = rng.randrange(2, len(MODS) + 1)
    mods = rng.sample(MODS, nm)
    table = []
    for m in mods:
        names = Names()
        body = []
        for _ in range(rng.randrange(0, 4)):
            if rng.random() < 0.45:
                body.append(("use", rng.choice(mods + (["nosuch"] if rng.random() < 0.08 else []))))
            else:
                body.append(gen_good_stmt(rng, names, []))
        if rng.random() < 0.10:
            kind = rng.choice(["clash", "type", "runtime"])
            body.insert(rng.randrange(len(body) + 1), gen_failing_stmt(rng, kind, names, mods))
        if rng.random() < 0.06:
            table.append((m, ("bad", body, rng.randrange(len(body) + 1), rng.choice(PARSE_ERR_TEXTS))))
        else:
            table.append((m, ("ok", body)))
    ops = []
    names = Names()
    n_inputs = n_inputs or rng.randrange(4, 16)
    for _ in range(n_inputs):
        if rng.random() < p_fail:
            scratch = Names(names)           # definitions of a failing input are rolled back
            body = [gen_good_stmt(rng, scratch, mods) for _ in range(rng.randrange(0, 3))]
            kind = rng.choice(FAIL_KINDS)
            # a failing input often imports a module first (the C06 defect class)
            if rng.random() < 0.6:
                body.insert(0, ("use", rng.choice(mods)))
            if kind == "parse":
                ops.append(("I", ("bad", body, rng.randrange(len(body) + 1), rng.choice(PARSE_ERR_TEXTS))))
            else:
                bad = gen_failing_stmt(rng, kind, scratch, mods)
                pos = len(body) if rng.random() < 0.6 else rng.randrange(len(body) + 1)
                body.insert(pos, bad)
                ops.append(("I", ("ok", body)))
        else:
            body = [gen_good_stmt(rng, names, mods) for _ in range(rng.randrange(1, 4))]
            ops.append(("I", ("ok", body)))
        ops.append(("d",))
    return table, ops


# ------------------------------------------------------------ stdlib modules
def stdlib_modules(repo=None):
    root = os.path.join(repo or common.REPO, "numbat", "modules")
    out = []
    for d, _, names in os.walk(root):
        for n in names:
            if n.endswith(".nbt"):
                rel = os.path.relpath(os.path.join(d, n), root)[:-4]
                out.append(rel.replace(os.sep, "::"))
    return sorted(out)


def outcome_kind(item):
    """'ok' or 'err|stage:Kind' without values/prints"""
    p = item.split("|")
    if p[0] == "ok":
        return "ok"
    return "|".join(p[:2])
