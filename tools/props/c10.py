"""C10 — parsing follows the documented grammar and precedence table.

proof:  coq/theories/Props/C10.v over the Gallina model of numbat/src/parser.rs (Syntax/Parser.v) and the
        documented grammar as data (Syntax/Grammar.v).
tie:    (1) Gen/OpTable.v: the precedence chain and operator token sets are re-extracted from parser.rs on
        every run and must equal the chain of the model (lemma by vm_compute);
        (2) correspondence: model (lexer + parser, vm_compute in coqc) and implementation (hook
        numbat::verif::syntax::{dump_tokens,dump_ast}) on the same source texts: token kinds + lexemes and the
        tree / first error kind must be equal.
oracle: for generated well-formed surface trees the tree the documentation prescribes (computed by the
        generator, independent of model and implementation) must be what the implementation returns; numeric
        literal values are compared with the correctly rounded double; mutated / random token streams are
        decided by an independent precedence-climbing reference recogniser (tools/props/syntaxref.py).
"""
import collections
import json
import os
import re

import common
from props import syntaxlib as L
from props import syntaxref
from props import stmtgen

MANIFEST = dict(
    category="proof",
    text="Machine-checked proof (Coq) over a Gallina model of numbat's recursive-descent parser (parser.rs parse / "
         "statement with every statement form: expressions, let with annotation and decorators, fn with type parameters, "
         "typed parameters, return annotation, where/and clauses, dimension, unit, use, struct, procedure calls, type "
         "annotations and dimension expressions; expression … primary, parse_binop, arguments, list and struct literals; "
         "one definition per Rust function, explicit error / out-of-fuel results). "
         "C10_roundtrip / C10_roundtrip_stmt: for EVERY derivation tree of the documented grammar whose operands sit at "
         "the levels the documented precedence table requires (unbounded depth; |>, if/then/else, conversions, ||, &&, !, "
         "comparisons, + -, * /, per, unary minus/plus, implicit multiplication, ^ and ^-, factorials, unicode exponents, "
         "calls, field access, list and struct literals, parentheses, all literal kinds) the parser applied to the printed "
         "tokens returns exactly the documented tree. C10_roundtrip_type / C10_roundtrip_dexpr: the same for every "
         "well-formed type annotation / dimension expression (type arguments, rational exponents, Fn[…], List<…>). "
         "C10_roundtrip_def: every well-formed definition (let/fn/dimension/unit/use/struct with all documented decorators) "
         "parses to the statement it denotes. C10_roundtrip_program: any number of statements and definitions separated by "
         "`;` or line breaks with blank lines anywhere between them parse to the list of their meanings. "
         "C10_precedence: every abstract operator tree (interpolated strings included) rendered with the minimal "
         "parentheses of the table is read back as itself. C10_parens: redundant parentheses / alternative spellings never "
         "change the result. C10_sound_core + C10_characterised + C10_sound_seq (expressions, plain lets, procedure calls), "
         "C10_sound_type / C10_sound_dexpr (type annotations, on ALL token lists) and C10_sound_statement / C10_full_partial "
         "(EVERY statement form: let with annotation and decorators, fn, dimension, unit, use, struct, `;`-separated programs; "
         "C10_characterised_full: both directions, acceptance characterised exactly): "
         "on token lists without line-break tokens and trailing commas (and without the degenerate type-parameter spellings "
         "`<>` after fn / struct names and `<A,>`), whatever the parser accepts IS the print of well-formed trees and denotes "
         "them (acceptance characterised exactly: nothing outside the grammar is accepted or reinterpreted). C10_fuel: the "
         "parser never runs out of fuel on ANY token list (all statement forms). C10_lex_number(+_sound) / "
         "C10_lex_ident(+_sound): for literals and identifiers of ANY length and ANY Unicode identifier classes (parameters), "
         "the documented decimal number notation resp. start/continue words are exactly what the tokenizer model turns into "
         "one Number resp. Identifier/keyword token (both directions). C10_optable / C10_lex_tables: the precedence chain, "
         "operator token sets, keyword map and subscript range re-extracted from the Rust source on every run equal the "
         "model's; documented spellings and number forms lex as documented (finite tables). The lexer model carries the "
         "tokenizer's scope stack and last-token state, so interpolated strings are lexed by the model and compared token by "
         "token. NOT proved (the remaining gap of C10_full): soundness for token lists WITH line-break tokens (inside "
         "brackets, after `=`, before where / and, after decorators, blank lines) and trailing commas — there only the "
         "completeness direction (C10_roundtrip_program) and the correspondence check apply; a `>=` token that closes a "
         "type-parameter list is an explicit Unsupported of the model (the implementation splits it into `>` `=`; a defect "
         "in that splitting was fixed in phase 4 and is pinned by corpus cases).",
    design_ref="DESIGN.md §6 C10; design/syntax.md",
    note="Trusted: Coq kernel + vm_compute; the hand port of parser.rs/tokenizer.rs in coq/theories/Syntax/{Parser,Lexer}.v "
         "(validated on every run by the correspondence check and by the regenerated operator table Gen/OpTable.v, "
         "not proved against Rust); the hook numbat::verif::syntax; Rust's str::parse::<f64> for literal values "
         "(checked against Python's correctly rounded float on the generated literals); Unicode XID tables "
         "(model instance covers a listed character set).",
    technique="Coq proofs by induction over grammar derivation trees (follow-set invariants per precedence level), inversion of "
              "the parser (soundness), fuel/consumption invariants + regenerated operator table lemma + model/implementation "
              "correspondence by vm_compute + independent reference recogniser",
)

THEOREMS = ["C10_roundtrip", "C10_roundtrip_stmt", "C10_roundtrip_type", "C10_roundtrip_dexpr",
            "C10_roundtrip_def", "C10_roundtrip_program",
            "C10_precedence", "C10_parens", "C10_fuel", "C10_sound_core",
            "C10_characterised", "C10_sound_seq", "C10_sound_type", "C10_sound_dexpr",
            "C10_sound_statement", "C10_full_partial", "C10_characterised_full",
            "C10_optable", "C10_lex_tables", "C10_lex_number", "C10_lex_number_sound",
            "C10_lex_ident", "C10_lex_ident_sound"]
ALLOWED_AXIOMS = []

KNOWN = [f for f in common.load_known() if f.get("property") == "C10"]


# ------------------------------------------------------------- translator
LEVEL_FUNS = ["conversion", "logical_or", "logical_and", "comparison", "term", "factor", "per_factor"]


def extract_optable(repo):
    """(function, [token kinds], next parser) for every parse_binop call site of parser.rs, plus the
    callee of the prefix / special levels, as coded."""
    src = open(os.path.join(repo, "numbat/src/parser.rs")).read()
    table = []
    for fn in LEVEL_FUNS:
        m = re.search(r"fn %s\(&mut self, tokens: &\[Token<'a>\]\) -> Result<Expression<'a>> \{\s*self\.parse_binop\("
                      r"\s*tokens,\s*&\[(.*?)\],(.*?)\|parser\| parser\.(\w+)\(tokens\),\s*\)\s*\}" % fn, src, re.S)
        if not m:
            raise common.Broken("translator: parse_binop call site of Parser::%s not recognised" % fn)
        kinds = re.findall(r"TokenKind::(\w+)", m.group(1))
        arms = re.findall(r"TokenKind::(\w+)\s*=>\s*BinaryOperator::(\w+)", m.group(2))
        if arms:
            ops = dict(arms)
        else:
            single = re.search(r"\|_\|\s*BinaryOperator::(\w+)", m.group(2))
            if not single:
                raise common.Broken("translator: operator mapping of Parser::%s not recognised" % fn)
            ops = {k: single.group(1) for k in kinds}
        table.append((fn, sorted((k, ops.get(k, "?")) for k in kinds), m.group(3)))
    # the non-binop levels: which function each one falls through to
    chain = []
    for fn, pat in [("expression", r"self\.(\w+)\(tokens\)"),
                    ("postfix_apply", r"let mut expr = self\.(\w+)\(tokens\)\?"),
                    ("condition", r"\} else \{\s*self\.(\w+)\(tokens\)\s*\}"),
                    ("logical_neg", r"\} else \{\s*self\.(\w+)\(tokens\)\s*\}"),
                    ("unary", r"\} else \{\s*self\.(\w+)\(tokens\)\s*\}"),
                    ("ifactor", r"let mut expr = self\.(\w+)\(tokens\)\?"),
                    ("power", r"let mut expr = self\.(\w+)\(tokens\)\?"),
                    ("factorial", r"let mut expr = self\.(\w+)\(tokens\)\?"),
                    ("unicode_power", r"let mut expr = self\.(\w+)\(tokens\)\?"),
                    ("call", r"let mut expr = self\.(\w+)\(tokens\)\?")]:
        m = re.search(r"fn %s\(&mut self, tokens: &\[Token<'a>\]\) -> Result<Expression<'a>> \{(.*?)\n    \}\n" % fn, src, re.S)
        if not m:
            raise common.Broken("translator: Parser::%s not found" % fn)
        c = re.search(pat, m.group(1))
        if not c:
            raise common.Broken("translator: fall-through of Parser::%s not recognised" % fn)
        chain.append((fn, c.group(1)))
    m = re.search(r"fn next_token_could_start_power_expression.*?matches!\(\s*self\.peek\(tokens\)\.kind,(.*?)\)\s*\}", src, re.S)
    if not m:
        raise common.Broken("translator: next_token_could_start_power_expression not recognised")
    starts = sorted(re.findall(r"TokenKind::(\w+)", m.group(1)))
    tsrc = open(os.path.join(repo, "numbat/src/tokenizer.rs")).read()
    m = re.search(r"fn is_subscript_char.*?\(0x([0-9A-Fa-f]+)\.\.=0x([0-9A-Fa-f]+)\)\.contains", tsrc, re.S)
    if not m:
        raise common.Broken("translator: is_subscript_char range not recognised")
    sub = (int(m.group(1), 16), int(m.group(2), 16))
    kws = re.findall(r'm\.insert\("(\w+)", TokenKind::(\w+)\);', tsrc)
    procs = re.findall(r"m\.insert\(ProcedureKind::(\w+)\.name\(\), TokenKind::(\w+)\);", tsrc)
    asrc = open(os.path.join(repo, "numbat/src/ast.rs")).read()
    for pk, tk in procs:
        mm = re.search(r'ProcedureKind::%s => "(\w+)"' % pk, asrc)
        if not mm:
            raise common.Broken("translator: name of ProcedureKind::%s not found" % pk)
        kws.append((mm.group(1), tk))
    if len(kws) < 25:
        raise common.Broken("translator: keyword table of the tokenizer not recognised")
    return table, chain, starts, sub, sorted(kws)


def write_optable(repo):
    table, chain, starts, sub, kws = extract_optable(repo)
    q = common.coq_string
    lines = ["(* GENERATED by tools/props/c10.py from numbat/src/parser.rs — do not edit. *)",
             "From Coq Require Import String List NArith.", "Import ListNotations.", "Open Scope string_scope.", "",
             "(* parse_binop call sites: function, [(token kind, operator)], next parser *)",
             "Definition binop_levels : list (string * list (string * string) * string) := ["]
    lines.append(";\n".join("  (%s, [%s], %s)" % (q(fn), "; ".join("(%s, %s)" % (q(k), q(o)) for k, o in ks), q(nx))
                            for fn, ks, nx in table))
    lines += ["].", "", "(* which level each remaining function falls through to *)",
              "Definition fallthrough : list (string * string) := ["]
    lines.append(";\n".join("  (%s, %s)" % (q(a), q(b)) for a, b in chain))
    lines += ["].", "", "Definition power_start_tokens : list string := [%s]." % "; ".join(q(s) for s in starts), "",
              "(* tokenizer.rs is_subscript_char *)",
              "Definition subscript_first : N := %d%%N." % sub[0], "Definition subscript_last : N := %d%%N." % sub[1], "",
              "(* tokenizer.rs keyword map: spelling, token kind *)",
              "Definition keywords : list (string * string) := [",
              ";\n".join("  (%s, %s)" % (q(a), q(b)) for a, b in kws), "].", ""]
    text = "\n".join(lines)
    path = os.path.join(common.COQ, "theories", "Gen", "OpTable.v")
    os.makedirs(os.path.dirname(path), exist_ok=True)
    if not os.path.exists(path) or open(path).read() != text:
        open(path, "w").write(text)
    return table, chain, starts, sub, kws


# ------------------------------------------------------------------ cases
def make_cases(chk, quick):
    rng = chk.rng
    cases = []   # dict(src, kind, expect (sexpr or None), tree)
    for c in json.load(open(os.path.join(common.VERIF, "corpus", "c10.json"))):
        cases.append(dict(src=c["src"], kind="corpus", expect=c.get("expect"), note=c.get("note", "")))
    nvalid = 2600 if quick else 20000
    for n in range(nvalid):
        depth = rng.choice([1, 2, 2, 3, 3, 4, 5, 6])
        t = L.gen_tree(rng, depth, extra=rng.choice([0.0, 0.0, 0.05, 0.3]))
        tk = L.toks(t)
        if len(tk) > 120:
            continue
        mode = rng.random()
        src = L.render(tk, rng, tight=0.0 if mode < 0.3 else rng.choice([0.3, 0.9]),
                       unicode_ops=rng.choice([0.0, 0.4, 1.0]))
        cases.append(dict(src=src, kind="valid", expect="OK " + L.sexpr(t), tokens=tk))
        if rng.random() < (0.35 if quick else 0.5):
            mt = L.gen_mutation(rng, tk)
            cases.append(dict(src=L.render(mt, rng, tight=0.0), kind="mutated", expect=None))
    # statements of the model: let name = e, procedure calls
    for n in range(300 if quick else 3000):
        depth = rng.choice([1, 2, 3, 4])
        if rng.random() < 0.5:
            t = L.gen_tree(rng, depth)
            name = rng.choice(L.IDENTS)
            tk = [("Let", None), ("Identifier", name), ("Equal", None)] + L.toks(t)
            expect = "OK (let %s _ (decos) %s)" % (L.esc(name), L.sexpr(t))
        else:
            kind, word = rng.choice([("ProcedurePrint", "print"), ("ProcedureAssert", "assert"),
                                     ("ProcedureAssertEq", "assert_eq"), ("ProcedureType", "type")])
            args = [L.gen_tree(rng, depth - 1) for _ in range(rng.choice([0, 1, 1, 2, 3]))]
            tk = [(kind, None), ("LeftParen", None)]
            for i, a in enumerate(args):
                if i:
                    tk.append(("Comma", None))
                tk += L.toks(a)
            tk.append(("RightParen", None))
            expect = "OK (%s%s)" % (word, "".join(" " + L.sexpr(a) for a in args))
        if len(tk) > 120:
            continue
        cases.append(dict(src=L.render(tk, rng, tight=rng.choice([0.0, 0.3])), kind="statement", expect=expect, tokens=tk))
        if rng.random() < 0.4:
            cases.append(dict(src=L.render(L.gen_mutation(rng, tk), rng, tight=0.0), kind="mutated", expect=None))
    # definition statements: fn / unit / dimension / struct / use / let with annotations and decorators
    for n in range(500 if quick else 5000):
        tk, expect = stmtgen.gen_statement(rng)
        if len(tk) > 150:
            continue
        cases.append(dict(src=L.render(tk, rng, tight=rng.choice([0.0, 0.3])), kind="definition", expect=expect, tokens=tk))
        if rng.random() < 0.5:
            cases.append(dict(src=L.render(L.gen_mutation(rng, tk), rng, tight=0.0), kind="mutated", expect=None))
    for n in range(700 if quick else 6000):
        cases.append(dict(src=L.gen_soup(rng), kind="soup", expect=None))
    for n in range(500 if quick else 4000):
        s = L.gen_numberish(rng)
        cases.append(dict(src=s, kind="numberish", expect=None))
    for n in range(400 if quick else 4000):
        cases.append(dict(src=L.gen_chars(rng), kind="chars", expect=None))
    # operator pairs, exhaustively: a op1 b op2 c with minimal parentheses in both groupings
    ops = list(L.BINLEVEL) + ["Power", "imul"]
    for o1 in ops:
        for o2 in ops:
            for left in (True, False):
                def mk(o, a, b):
                    if o == "Power":
                        return ("pow", L.fit(a, 13), False, L.fit(b, 12))
                    if o == "imul":
                        return ("imul", L.fit(a, 11), L.fit(b, 12))
                    return ("bin", o, L.fit(a, L.BINLEVEL[o]), L.fit(b, L.BINLEVEL[o] + 1))
                a, b, c = ("id", "a"), ("num", "2"), ("id", "c")
                t = mk(o2, mk(o1, a, b), c) if left else mk(o1, a, mk(o2, b, c))
                if o1 == "imul" or o2 == "imul":
                    # juxtaposition needs an operand that can start a power expression and no `ident (`
                    tk = L.toks(t)
                    bad = False
                    def chk_im(x):
                        nonlocal bad
                        if x[0] == "imul":
                            fb = L.toks(x[2])[0][0]
                            if fb not in L.POWER_START or (fb == "LeftParen" and L.ends_call(x[1])):
                                bad = True
                        for y in x[1:]:
                            if isinstance(y, tuple):
                                chk_im(y)
                    chk_im(t)
                    if bad:
                        continue
                cases.append(dict(src=L.render(L.toks(t), rng, tight=0.0, unicode_ops=0.0), kind="pairs",
                                  expect="OK " + L.sexpr(t), tokens=L.toks(t)))
    return cases


def split_impl(line):
    """-> (token dump, ast dump without literal values, [literal value bits])"""
    if not line.startswith("T ") or " | A " not in line:
        return line, line, []
    t, a = line[2:].split(" | A ", 1)
    vals = []
    if a.startswith("OK ") and " ;; " in a:
        a, v = a.rsplit(" ;; ", 1)
        vals = [x for x in v.split(",") if x]
    return t, a, vals


NUM_RE = re.compile(r"\(num ([^()\s]+)\)")


def literal_value_errors(ast, vals):
    lits = NUM_RE.findall(ast)
    if len(lits) != len(vals):
        return None
    bad = []
    for lex, v in zip(lits, vals):
        ref = L.literal_bits(lex)
        if ref is not None and ref != v:
            bad.append((lex, v, ref))
    return bad


def matches_known(src, what):
    for f in KNOWN:
        if f.get("status") != "open":
            continue
        m = f.get("matcher", {})
        if m.get("kind") == "exact" and src in m.get("inputs", []):
            return f
        if m.get("kind") == "regex" and re.search(m["pattern"], src) and m.get("what") == what:
            return f
    return None


def shrink_src(src, fails):
    toks_ = src.split(" ")
    if len(toks_) > 1:
        small = common.shrink_list(toks_, lambda c: fails(" ".join(c)))
        src = " ".join(small)
    chars = list(src)
    small = common.shrink_list(chars, lambda c: fails("".join(c)), max_rounds=60)
    return "".join(small)


def run(chk):
    binary, _ = common.build_harness()
    write_optable(common.REPO)
    proved = chk.prove("Props.C10", THEOREMS,
                       ["theories/Props/C10.vo", "theories/Syntax/Exec.vo"], allowed=ALLOWED_AXIOMS)
    chk.trusted += [
        "model Syntax/Parser.v is a hand port of numbat/src/parser.rs (parse, expression … primary, parse_binop, arguments), Syntax/Lexer.v of tokenizer.rs (scan_single_token, consume_stream_of_digits, scientific_notation, consume_string)",
        "Gen/OpTable.v regenerated from parser.rs by regular expressions (parse_binop call sites, fall-through chain, next_token_could_start_power_expression)",
        "hook numbat::verif::syntax::{dump_tokens, dump_ast} prints what the tokenizer / parser returned",
        "correspondence: coqc vm_compute of Syntax.Exec.show_case vs `nbverif syntax`",
        "literal values: Rust str::parse::<f64> compared with Python float() (both correctly rounded)",
    ]
    quick = chk.tier == "quick"
    cases = make_cases(chk, quick)
    lines = [L.hexline(c["src"]) for c in cases]
    impl = common.run_harness(binary, "syntax", lines)
    items = []
    for c, o in zip(cases, impl):
        t, a, vals = split_impl(o)
        c["impl_tokens"], c["impl_ast"], c["vals"] = t, a, vals
        items.append(("show_case " + L.coq_codepoints(c["src"]), "T %s | A %s" % (t, a)))
    bad = common.coq_mismatches(["Syntax.Exec"], items, "c10", shard_size=250)
    # cases the model declares outside its scope are not disagreements
    unsupported = {n for n, m in bad.items() if "UNSUPPORTED" in m}
    real_bad = {n: m for n, m in bad.items() if n not in unsupported}

    # ---- oracle on the implementation
    failures = []   # (case index, what)
    for n, c in enumerate(cases):
        if c["impl_ast"].startswith("PANIC") or c["impl_tokens"].startswith("PANIC") or impl[n].startswith("@@"):
            failures.append((n, "panic/crash: " + impl[n][:120]))
            continue
        if c.get("expect") is not None and c["impl_ast"] != c["expect"]:
            failures.append((n, "documented tree %s, implementation returned %s" % (c["expect"], c["impl_ast"])))
            continue
        if c["impl_ast"].startswith("OK "):
            lv = literal_value_errors(c["impl_ast"], c["vals"])
            if lv:
                failures.append((n, "literal value: %s" % (lv,)))
                continue
        if c.get("expect") is None:
            ref = syntaxref.decide(c["impl_tokens"])
            if ref is not None and ref != c["impl_ast"] and not (ref == "ERR" and c["impl_ast"].startswith("ERR ")):
                failures.append((n, "reference recogniser (documented grammar) says %s, implementation returned %s" % (ref, c["impl_ast"])))

    reported = 0
    known_seen = collections.Counter()
    for n, what in failures:
        src = cases[n]["src"]
        kf = matches_known(src, "tree")
        if kf:
            known_seen[kf["id"]] += 1
            continue
        if reported >= 3:
            continue

        def fails(s, expect_fn=None):
            o = common.run_harness(binary, "syntax", [L.hexline(s)], shards=1)[0]
            t, a, vals = split_impl(o)
            if a.startswith("PANIC") or o.startswith("@@"):
                return True
            ref = syntaxref.decide(t)
            if ref is None:
                return False
            if ref == "ERR":
                return not a.startswith("ERR ")
            return ref != a
        small = src
        try:
            if fails(src):
                small = shrink_src(src, fails)
        except Exception:
            small = src
        o = common.run_harness(binary, "syntax", [L.hexline(small)], shards=1)[0]
        t, a, _ = split_impl(o)
        kf = matches_known(small, "tree")
        if kf:
            known_seen[kf["id"]] += 1
            continue
        chk.violation({
            "kind": "the parser does not return the tree the documented grammar / precedence table prescribes",
            "input": small, "original_input": src, "case_kind": cases[n]["kind"],
            "implementation_tokens": t, "implementation": a,
            "documented": syntaxref.decide(t) if small != src or cases[n].get("expect") is None else cases[n]["expect"],
            "detail": what,
            "replay": "./check C10 --replay <this file>   (or: printf %%s '%s' | harness/target/debug/nbverif syntax)" % L.hexline(small),
        })
        reported += 1
    for fid, cnt in known_seen.items():
        chk.known(fid, "%d generated inputs hit known finding %s" % (cnt, fid))

    if not reported and (real_bad or not proved):
        n = min(real_bad) if real_bad else None
        chk.violation({
            "kind": "proof or correspondence no longer checks",
            "theorem_or_correspondence": ("correspondence Syntax.{Lexer,Parser} vs numbat/src/{tokenizer,parser}.rs"
                                          if real_bad else "Props/C10.v: " + str(getattr(chk, "proof_failure", "?"))),
            "mismatching_cases": len(real_bad),
            "first_case": None if n is None else {"input": cases[n]["src"], "implementation": items[n][1],
                                                  "model": real_bad[n]},
        }, found_input=False)

    # ---- statistics
    kinds = collections.Counter(c["kind"] for c in cases)
    outcome = collections.Counter()
    shapes = set()
    ophist = collections.Counter()
    for c in cases:
        a = c["impl_ast"]
        outcome["accepted" if a.startswith("OK ") else a.split(" ")[1] if a.startswith("ERR ") else "other"] += 1
        if a.startswith("OK ") and a.count("(") >= 3:
            shapes.add(common.shape_hash(re.sub(r"\((num|id|str) [^()]*\)", r"(\1)", a)))
        elif a.startswith("ERR ") and c["impl_tokens"].count(" ") >= 2:
            shapes.add(common.shape_hash(re.sub(r":\S+", "", c["impl_tokens"])))
        for m in re.findall(r"\((\w+) ", a):
            ophist[m] += 1
    chk.cov.update({
        "evaluations": len(cases),
        "distinct_nontrivial": len(shapes),
        "rule": "corpus + random well-formed surface trees (depth ≤ 6, minimal + random extra parentheses, ASCII/Unicode "
                "spellings, tight/loose spacing) + all operator pairs in both groupings + token-level mutations of valid "
                "inputs + random token soups + number-like strings + random character strings; non-trivial = accepted "
                "tree with ≥ 3 nodes or rejected input with ≥ 3 tokens; distinct = distinct tree shape (leaf payloads "
                "erased) resp. distinct token-kind sequence",
        "input_kinds": dict(kinds),
        "outcomes": dict(outcome),
        "node_histogram": dict(ophist),
        "model_mismatches": len(real_bad),
        "model_out_of_scope": len(unsupported),
        "oracle_failures": len(failures),
        "exhaustive": False,
        "samples": [{"input": cases[n]["src"], "kind": cases[n]["kind"], "implementation": impl[n]}
                    for n in (0, len(cases) // 3, len(cases) // 2, len(cases) - 1)],
    })
    chk.assumptions += ["identifiers and other characters are drawn from the character set listed in Syntax/Exec.v (supported)",
                        "a `>=` token that closes a type-parameter list is outside the model (explicit UNSUPPORTED result, not compared)"]


def replay(path):
    r = json.load(open(path))
    if "input" not in r:
        print(json.dumps(r, indent=1, ensure_ascii=False))
        return 0
    binary, _ = common.build_harness()
    o = common.run_harness(binary, "syntax", [L.hexline(r["input"])], shards=1)[0]
    t, a, _ = split_impl(o)
    ref = syntaxref.decide(t)
    print("input:          %r" % r["input"])
    print("tokens:         " + t)
    print("implementation: " + a)
    print("documented:     %s" % (ref if r.get("documented") is None else r.get("documented")))
    badp = a.startswith("PANIC") or (ref is not None and ref != a and not (ref == "ERR" and a.startswith("ERR ")))
    if r.get("documented") and r["documented"].startswith("OK "):
        badp = a != r["documented"]
    print("violates C10" if badp else "agrees with the documented grammar")
    return 1 if badp else 0
