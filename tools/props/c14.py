"""C14 — displayed numbers read back as the value they show.

proof:  coq/theories/Props/C14.v over NumFmt/Model.v (integer branch with grouping, pretty_dtoa's
        digits_to_a for numbat's configuration, numbat's post-processing, separator removal, literal reader)
tie:    correspondence — harness `fmt` calls Number::pretty_print_with through the hook
        numbat::verif::misc::format_number on f64 bit patterns x format settings; the model gets the
        classification of the f64 and its shortest round-trip digits from Python (repr) and must print the
        same text (vm_compute in coqc).  The displayed text is also read back through the real
        tokenizer/parser/evaluator (Context::interpret).
oracle: exact rational arithmetic in Python (fractions): the read-back value must be the f64 nearest to the
        displayed decimal, integers show all digits, and the displayed decimal must be exactly the shortest
        round-trip decimal of the f64 rounded half-up to min(clamp(sig,1,255), #digits) significant digits (no
        tolerance).  Cases where that differs from rounding the exact binary value (double rounding through the
        shortest representation, DESIGN.md §6 C14) are counted in the evidence, not reported.
"""
import collections
import decimal
import json
import math
import os
import re
import struct
from fractions import Fraction

import common

MANIFEST = dict(
    category="proof",
    text="proof (partial). Machine-checked (Coq) for a model of Number::pretty_print_with and of pretty_dtoa's "
         "digits_to_a under numbat's configuration: for EVERY integer z and every separator/threshold setting, removing "
         "the separator from the displayed text gives exactly the decimal digits of z, which the literal reader reads "
         "as z, and those digits are the canonical decimal numeral (C14_int, C14_int_digits, C14_int_canonical); for EVERY shortest-digit string, decimal exponent and significant-digit "
         "setting the float branch yields a literal of numbat's number syntax whose value is the shortest decimal "
         "rounded half-up to min(limit, available) significant digits, and that rounding is a nearest one "
         "(C14_float, C14_round_sig_correct); the displayed text of every literal (after an optional '-') and the digits of every "
         "integer are scanned as exactly one Number token by the lexer model of the syntax area, the model C10 ties to the "
         "real tokenizer (C14_literal_is_number_token, C14_integer_is_number_token); numbat's trimming/e+ post-processing preserves the value (C14_post); "
         "NaN and infinities print as the keywords (C14_special). NOT proved, validated by correspondence on f64 "
         "classes x settings only: the f64 -> shortest digits step (ryu), num_format's itoa, the classification of the "
         "f64, and that the real tokenizer/f64 parser agree with the model's literal reader.",
    design_ref="DESIGN.md §6 C14; design/misc.md",
    note="Trusted: Coq kernel + vm_compute; the hand port in coq/theories/NumFmt/Model.v; Python's repr() as the "
         "shortest round-trip digits of an f64 (cross-checked against the implementation's output on every case); "
         "hook numbat::verif::misc::format_number. Double rounding (shortest digits, then significant digits) is "
         "accepted as in DESIGN.md and counted in the evidence.",
    technique="Coq proof over an executable model + model/implementation correspondence by vm_compute + exact-rational oracle",
)

THEOREMS = ["C14_int", "C14_int_digits", "C14_int_canonical", "C14_float", "C14_literal_is_number_token", "C14_integer_is_number_token", "C14_round_sig_correct", "C14_post", "C14_special"]

SEPS = ["_", ",", " ", "'", "", ".", "\u2009", "\u00a0", "__", "abc", "12345678", "\u2009\u2009\u2009",
        "123456789", "0", "-", "e", "x_x", "\u066c", "\u00b7", "\u2009\u2009\u2009\u2009",
        # separators of several DIFFERENT characters (not palindromes): the order of their characters matters
        ", ", "_'", "' ", "xy", "\u2009_", " _'", "_ ,'", "\u00b7\u2009"]
SEP_ALPHABET = "_ ,'xy:\u2009\u00a0\u00b7\u066c"       # harmless: nothing from the literal alphabet


def random_separator(rng):
    """a separator of 2..5 characters; most are not palindromes"""
    return "".join(rng.choice(SEP_ALPHABET) for _ in range(rng.randrange(2, 6)))


def bits_of(x):
    return struct.unpack("<Q", struct.pack("<d", x))[0]


def float_of(bits):
    return struct.unpack("<d", struct.pack("<Q", bits & 0xFFFFFFFFFFFFFFFF))[0]


def classify(bits):
    """(kind, payload): what the model takes as input."""
    x = float_of(bits)
    if math.isnan(x):
        return ("nan",)
    if math.isinf(x):
        return ("inf", x < 0)
    if x == math.trunc(x) and abs(x) < 2.0 ** 53:
        return ("int", int(x))
    d = decimal.Decimal(repr(abs(x)))
    sign, digits, exp = d.as_tuple()
    digits = list(digits)
    e = len(digits) + exp
    while len(digits) > 1 and digits[-1] == 0:
        digits.pop()
    return ("float", math.copysign(1.0, x) < 0, digits, e)


def coq_class(c):
    if c[0] == "nan":
        return "CNaN"
    if c[0] == "inf":
        return "(CInf %s)" % ("true" if c[1] else "false")
    if c[0] == "int":
        return "(CInt (%d)%%Z)" % c[1]
    return "(CFloat %s [%s]%%N (%d)%%Z)" % ("true" if c[1] else "false", ";".join(map(str, c[2])), c[3])


def coq_float(bits):
    x = float_of(bits)
    if math.isnan(x):
        return "nan"
    if math.isinf(x):
        return "neg_infinity" if x < 0 else "infinity"
    h = x.hex()
    return "(%s)%%float" % h if h.startswith("-") else "%s%%float" % h


def coq_case(case):
    """the model gets the f64 itself (hex literal of the kernel's binary64) and, for the float branch, the
    shortest digits; classification (NaN / inf / integer below 2^53 / other) happens in NumFmt/Classify.v,
    which also rejects digits that do not denote a decimal in the rounding interval of that f64"""
    bits, thr, sig, sep = case
    c = classify(bits)
    ds, e = (c[2], c[3]) if c[0] == "float" else ([], 0)
    return "show_case_f64 (mkOpt %s %d %d) %s [%s]%%N (%d)%%Z" % (
        common.coq_string(sep), thr, sig, coq_float(bits), ";".join(map(str, ds)), e)


def line_of(case):
    bits, thr, sig, sep = case
    return "%016x;%d;%d;%s" % (bits, thr, sig, sep.encode("utf-8").hex())


# ------------------------------------------------------------------ oracle
NUM_RE = re.compile(r"^(-?)(\d+)(?:\.(\d*))?(?:[eE]([+-]?)(\d+))?$")


def sep_harmless(sep):
    """the property speaks about removing the separator: it must not collide with the literal alphabet"""
    return sep == "" or not (set(sep) & set("0123456789.e+-infNa"))


def oracle(case, out):
    """None if the property holds on this case; else (kind, detail).  kind 'double-rounding' is the
    tolerated class, anything else is a violation of C14."""
    bits, thr, sig, sep = case
    x = float_of(bits)
    if out.startswith("@@"):
        return ("crash", out)
    if out.startswith("P:"):
        return ("panic", out[2:])
    if not out.startswith("F:") or "|" not in out:
        return ("protocol", out)
    fields = out[2:].split("|")
    text, rb = fields[0], fields[1] if len(fields) > 1 else ""
    shown_as_result = fields[2][2:].split(";") if len(fields) > 2 and fields[2].startswith("Q:") else None
    if shown_as_result is not None and sep_harmless(sep):
        # the way results are displayed (InterpreterResult::to_markup -> Quantity::pretty_print_with -> plain text) must
        # show the very same number text, with the same format options, followed by the unit
        want = [text, text + " m", text + " km/h"]
        if x == 0:
            want = [text, shown_as_result[1], shown_as_result[2]]      # a zero is displayed without its unit
        if shown_as_result != want:
            return ("result-display", "Number::pretty_print_with gives %r but results are displayed as %r" % (text, shown_as_result))
    if not sep_harmless(sep):
        return None  # nothing is claimed for separators made of digits/sign/point/e (counted separately)
    stripped = text.replace(sep, "") if sep else text
    if math.isnan(x):
        ok = stripped == "NaN" and rb.startswith("V:") and math.isnan(float_of(int(rb[2:], 16)))
        return None if ok else ("nan-keyword", "displayed %r read back %s" % (text, rb))
    if math.isinf(x):
        ok = stripped == ("-inf" if x < 0 else "inf") and rb == "V:%016x" % bits_of(x)
        return None if ok else ("inf-keyword", "displayed %r read back %s" % (text, rb))
    m = NUM_RE.match(stripped)
    if not m:
        return ("not-a-literal", "displayed %r; after removing the separator %r is not a numeric literal" % (text, stripped))
    if not rb.startswith("V:"):
        return ("read-back-error", "displayed %r is rejected by the real parser: %s" % (stripped, rb))
    neg, ip, fp, es, ed = m.groups()
    fp = fp or ""
    shown = Fraction(int(ip + fp), 10 ** len(fp)) * (Fraction(10) ** (int((es or "") + ed) if ed else 0))
    if neg:
        shown = -shown
    back = float_of(int(rb[2:], 16))
    try:
        nearest = float(shown)
    except OverflowError:
        nearest = math.inf if shown > 0 else -math.inf    # e.g. f64::MAX at one significant digit shows 2.0e+308
    if (back != nearest) or (shown != 0 and math.copysign(1, back) != (-1 if neg else 1)):
        return ("read-back-value", "displayed %r reads back as %r, not as the f64 nearest to the displayed decimal" % (stripped, back))
    exact = Fraction(x)
    if x == math.trunc(x) and abs(x) < 2.0 ** 53:
        if stripped != str(int(x)) if x != 0 else stripped not in ("0", "-0"):
            return ("integer-digits", "integer %d displayed as %r (separator removed: %r)" % (int(x), text, stripped))
        return None
    # float branch.  Acceptance (tightened in phase 2): the displayed decimal must be EXACTLY the shortest
    # round-trip decimal of the f64 (Python repr) rounded half-up to min(clamp(sig,1,255), #digits) significant
    # digits — the value C14_float proves for the model.  No tolerance.
    cls = classify(bits)
    ds, e10 = cls[2], cls[3]
    limit = max(1, min(sig, 255))
    V = int("".join(map(str, ds)))
    if len(ds) > limit:
        T = 10 ** (len(ds) - limit)
        W = (2 * V + T) // (2 * T)
        want = Fraction(W) * Fraction(10) ** (e10 - limit)
    else:
        want = Fraction(V) * Fraction(10) ** (e10 - len(ds))
    if cls[1]:
        want = -want
    if shown != want:
        return ("wrong-rounding", "x=%r (shortest decimal %s) displayed as %r; the shortest decimal rounded half-up to %d significant "
                "digits is %s" % (x, repr(x), text, min(limit, len(ds)), want))
    # informational: how that relates to the exact binary value
    exact = Fraction(x)
    if len(ds) > limit:
        half = Fraction(10) ** (e10 - limit) / 2
        if abs(shown - exact) > half:
            return ("double-rounding", "x=%r displayed %r" % (x, text))
    return None


# --------------------------------------------------------------- generators
def f64_classes(rng, n_random):
    vals = []
    for k in range(0, 19):
        for d in (-2, -1, 0, 1, 2):
            vals.append(float(10 ** k + d))
            vals.append(-float(10 ** k + d))
    for d in range(-3, 4):
        vals.append(float(2 ** 53 + d))
        vals.append(-float(2 ** 53 + d))
        vals.append(float(2 ** 53) + 2.0 * d)
    vals += [0.0, -0.0, float("inf"), float("-inf"), float("nan"), 5e-324, -5e-324, 2.2250738585072014e-308,
             2.225073858507201e-308, 1.7976931348623157e308, 0.5, 0.1, 0.2, 0.30000000000000004, 1 / 3, 2 / 3]
    # e-notation switch points and their neighbours
    for base in (1e6, 1e7, 1e-6, 1e-7, 1e-5, 999999.5, 9999995.0, 99999.95, 0.00000995, 0.0000009999995):
        x = base
        for _ in range(3):
            vals.append(x)
            x = math.nextafter(x, math.inf)
        x = base
        for _ in range(3):
            x = math.nextafter(x, -math.inf)
            vals.append(x)
    # rounding carries and decimal half-way cases for every number of significant digits
    for sig in range(1, 18):
        for k in (-8, -6, -3, 0, 2, 5, 6, 7, 12):
            nines = float("9" * sig + "5" + "e%d" % (k - sig))
            vals += [nines, math.nextafter(nines, 0.0), math.nextafter(nines, math.inf), -nines]
            h = rng.randrange(10 ** (sig - 1), 10 ** sig)
            half = float("%d5e%d" % (h, k - sig))
            vals += [half, math.nextafter(half, 0.0), math.nextafter(half, math.inf)]
    # human decimals with n digits
    for _ in range(n_random):
        n = rng.randrange(1, 18)
        m = rng.randrange(10 ** (n - 1), 10 ** n)
        e = rng.choice([rng.randrange(-12, 12), rng.randrange(-320, 305)])
        try:
            v = float("%de%d" % (m, e - n))
        except OverflowError:
            continue
        vals.append(v if rng.random() < 0.7 else -v)
    # random integers, large and small
    for _ in range(n_random // 2):
        b = rng.randrange(1, 64)
        v = float(rng.getrandbits(b))
        vals.append(v if rng.random() < 0.7 else -v)
    out = [bits_of(v) for v in vals]
    # random bit patterns
    for _ in range(n_random):
        out.append(rng.getrandbits(64))
    # subnormals
    for _ in range(n_random // 10):
        out.append(rng.getrandbits(52) | (rng.getrandbits(1) << 63))
    return out


def settings(rng):
    r = rng.random()
    sep = "_" if r < 0.35 else random_separator(rng) if r < 0.45 else rng.choice(SEPS)
    thr = 6 if rng.random() < 0.3 else rng.choice([0, 1, 2, 3, 4, 5, 7, 9, 12, 15, 16, 17, 20, 400])
    sig = 6 if rng.random() < 0.3 else rng.choice(list(range(0, 20)) + [30, 100, 255, 256, 257, 300, 512, 1000])
    return thr, sig, sep


def kind_of(case):
    c = classify(case[0])
    return c[0]


KNOWN_PROP = "C14"


def match_known(known, case, why):
    """open findings of C14: exact-input or shape matchers (none on the current tree)"""
    for f in known:
        if f.get("property") != KNOWN_PROP or f.get("status") != "open":
            continue
        m = f.get("matcher", {})
        if m.get("kind") == "exact" and m.get("line") == line_of(case):
            return f
    return None


def shrink_case(binary, case, kind):
    """simplify the settings, then the value, while the oracle still reports the same kind"""
    def fails(c):
        o = common.run_harness(binary, "fmt", [line_of(c)], shards=1)[0]
        r = oracle(c, o)
        return r is not None and r[0] == kind
    bits, thr, sig, sep = case
    for cand in [(bits, 6, 6, "_"), (bits, thr, 6, "_"), (bits, 6, sig, "_"), (bits, 6, 6, sep),
                 (bits, thr, sig, "_"), (bits, 6, sig, sep), (bits, thr, 6, sep)]:
        if cand != case and fails(cand):
            case = cand
            break
    bits, thr, sig, sep = case
    x = float_of(bits)
    if math.isfinite(x):
        # fewer digits
        for nd in range(1, 17):
            y = float("%.*g" % (nd, x))
            c = (bits_of(y), thr, sig, sep)
            if y != x and fails(c):
                case = c
                break
    return case


def run(chk):
    binary, _ = common.build_harness()
    proved = chk.prove("Props.C14", THEOREMS, ["theories/Props/C14.vo", "theories/NumFmt/Exec.vo"])
    chk.trusted += [
        "model NumFmt/Model.v is a hand port of numbat/src/number.rs pretty_print_with_dtoa_config and of pretty_dtoa-0.3.0 digits_to_a "
        "restricted to numbat's FmtFloatConfig (max_sig_digits, round, add_point_zero(false), e-breaks -6/6)",
        "the model receives the f64 as a binary64 literal of the kernel and classifies it itself (NumFmt/Classify.v, executable, no theorems); "
        "the shortest round-trip digits come from Python (repr) and are checked in the model to lie in the rounding interval of that f64; "
        "ryu d2d itself is not modelled",
        "hook numbat::verif::misc::format_number(bits, sep, threshold, sig) = Number::pretty_print_with",
        "read-back through Context::interpret of the displayed text with the separator removed (str::replace)",
        "the same f64 is also displayed as a result (scalar, `x m`, `x km/h`) through InterpreterResult::to_markup with the same FormatOptions "
        "and must show the same number text (covers Quantity::pretty_print_with and the markup/plain-text path)",
        "the model's literal reader covers numbat's number syntax without underscores; agreement with the real tokenizer is checked per case",
    ]
    quick = chk.tier == "quick"
    known = common.load_known()
    cases = []
    corpus = json.load(open(os.path.join(common.VERIF, "corpus", "c14.json")))
    for c in corpus:
        cases.append((int(c["bits"], 16), c["thr"], c["sig"], c["sep"]))
    ncorpus = len(cases)
    vals = f64_classes(chk.rng, 700 if quick else 6000)
    for b in vals:
        cases.append((b, 6, 6, "_"))            # default settings
        thr, sig, sep = settings(chk.rng)
        cases.append((b, thr, sig, sep))
        if not quick:
            thr, sig, sep = settings(chk.rng)
            cases.append((b, thr, sig, sep))
    # integers x every separator x thresholds around their length (grouping decisions)
    for _ in range(300 if quick else 3000):
        nd = chk.rng.randrange(1, 17)
        z = chk.rng.randrange(10 ** (nd - 1), min(10 ** nd, 2 ** 53))
        thr = max(0, nd + chk.rng.choice([-1, 0, 0, 1, 2]))
        cases.append((bits_of(float(z if chk.rng.random() < 0.7 else -z)), thr, 6,
                      random_separator(chk.rng) if chk.rng.random() < 0.2 else chk.rng.choice(SEPS)))
    seen = set()
    cases = [c for c in cases if not (c in seen or seen.add(c))]

    impl = common.run_harness(binary, "fmt", [line_of(c) for c in cases], timeout=3000)
    items = []
    for n, c in enumerate(cases):
        o = impl[n]
        obs = "P" if o.startswith("P:") else o.split("|")[0]
        items.append((coq_case(c), obs))
    bad = common.coq_mismatches(["NumFmt.Model", "NumFmt.Classify", "NumFmt.Exec"], items, "c14", timeout=3000,
                                shard_size=max(250, min(500, -(-len(items) // common.NPROC))),   # small shards: a loaded machine must not hit the per-shard timeout
                                prelude="From Coq Require Import PrimFloat ZArith.")   # one wave of coqc processes

    # property oracle on every case
    kinds = collections.Counter()
    fails = []
    double_rounding = []
    unclaimed = 0
    for n, c in enumerate(cases):
        if not sep_harmless(c[3]):
            unclaimed += 1
        r = oracle(c, impl[n])
        if r is None:
            continue
        kinds[r[0]] += 1
        if r[0] == "double-rounding":
            double_rounding.append((c, impl[n]))
        else:
            fails.append((n, c, r))

    reported = 0
    seen_kinds = set()
    for n, c, r in fails:
        f = match_known(known, c, r)
        if f:
            chk.known(f["id"], "%s: %s" % (f["id"], r[1]))
            continue
        if r[0] in seen_kinds or reported >= 3:
            continue
        seen_kinds.add(r[0])
        small = shrink_case(binary, c, r[0])
        o = common.run_harness(binary, "fmt", [line_of(small)], shards=1)[0]
        rr = oracle(small, o) or r
        chk.violation({
            "kind": "displayed number does not read back as the value it shows (%s)" % rr[0],
            "value_bits": "%016x" % small[0], "value": repr(float_of(small[0])),
            "digit_grouping_threshold": small[1], "significant_digits": small[2], "digit_separator": small[3],
            "implementation": o, "detail": rr[1],
            "replay": "echo '%s' | harness/target/debug/nbverif fmt" % line_of(small),
        })
        reported += 1
    if not reported and (bad or not proved):
        n = min(bad) if bad else None
        chk.violation({
            "kind": "proof or correspondence no longer checks",
            "theorem_or_correspondence": ("correspondence NumFmt.Model vs numbat/src/number.rs (displayed text)"
                                          if bad else "Props/C14.v: " + getattr(chk, "proof_failure", "?")),
            "mismatching_cases": len(bad),
            "first_case": None if n is None else {
                "value_bits": "%016x" % cases[n][0], "value": repr(float_of(cases[n][0])),
                "digit_grouping_threshold": cases[n][1], "significant_digits": cases[n][2],
                "digit_separator": cases[n][3], "implementation": impl[n], "model": bad[n],
                "replay": "echo '%s' | harness/target/debug/nbverif fmt" % line_of(cases[n])},
            "oracle": "exact-rational read-back oracle found no failing input among %d cases" % len(cases),
        }, found_input=False)

    # measured coverage
    class_hist = collections.Counter(kind_of(c) for c in cases)
    shapes = set()
    nontrivial = 0
    for n, c in enumerate(cases):
        o = impl[n]
        t = o[2:].split("|")[0] if o.startswith("F:") else o
        grouped = c[3] != "" and c[3] in t and kind_of(c) == "int"
        rounded = kind_of(c) == "float" and len(classify(c[0])[2]) > max(1, min(c[2], 255))
        enot = "e" in t and kind_of(c) == "float"
        if (grouped or rounded or enot) and (t, c[1:]) not in shapes:
            nontrivial += 1
        shapes.add((t, c[1:]))
    chk.cov.update({
        "evaluations": len(cases),
        "distinct_nontrivial": nontrivial,
        "rule": "corpus + f64 classes (10^k±d, 2^53±d, e-notation switch points ±ulps, rounding carries 9..95, decimal half-way "
                "cases per significant-digit count, n-digit decimals, random integers, random bit patterns, subnormals, specials, "
                "negatives) x (default settings + seeded random separator/threshold/significant digits); non-trivial = integer "
                "actually grouped, or float actually rounded (more shortest digits than the limit), or e-notation; distinct = "
                "distinct (displayed text, settings)",
        "exhaustive": False,
        "class_histogram": dict(class_hist),
        "oracle_outcomes": dict(kinds),
        "double_rounding_cases_tolerated": len(double_rounding),
        "double_rounding_samples": [{"value": repr(float_of(c[0])), "sig": c[2], "implementation": o} for c, o in double_rounding[:3]],
        "cases_with_separator_in_literal_alphabet_not_claimed": unclaimed,
        "model_mismatches": len(bad),
        "samples": [{"line": line_of(cases[n]), "value": repr(float_of(cases[n][0])), "settings": list(cases[n][1:]),
                     "implementation": impl[n]} for n in (0, ncorpus + 1, len(cases) // 2, len(cases) - 1)],
    })
    chk.assumptions += [
        "Python repr() yields the shortest round-trip digits of an f64 (as ryu does); checked indirectly: every model/implementation text is compared",
        "separators containing digits, sign, point, 'e' or letters of inf/NaN are outside the claim (removing them is ambiguous)",
        "double rounding via the shortest representation is tolerated (DESIGN.md §6 C14)",
    ]


def replay(path):
    r = json.load(open(path))
    if "value_bits" not in r:
        print(json.dumps(r, indent=1, ensure_ascii=False))
        return 0
    binary, _ = common.build_harness()
    case = (int(r["value_bits"], 16), r["digit_grouping_threshold"], r["significant_digits"], r["digit_separator"])
    o = common.run_harness(binary, "fmt", [line_of(case)], shards=1)[0]
    res = oracle(case, o)
    print("implementation:", o)
    print("oracle:", res)
    return 1 if res and res[0] != "double-rounding" else 0
