"""Shared generators for the syntax area (C10, C15): surface trees of the
documented expression grammar, their token rendering with spelling / spacing
choices, the tree the documentation prescribes for them, and malformed input
streams.  All randomness comes from the rng handed in."""
import struct

# ---------------------------------------------------------------- spellings
SPELL = {
    "Plus": ["+"], "Minus": ["-", "−"], "Multiply": ["*", "·", "⋅", "×"], "Divide": ["/", "÷"],
    "Power": ["^", "**"], "Arrow": ["->", "→", "➞"], "To": ["to"], "Per": ["per"],
    "LessThan": ["<"], "GreaterThan": [">"], "LessOrEqual": ["<=", "≤"], "GreaterOrEqual": [">=", "≥"],
    "EqualEqual": ["==", "⩵"], "NotEqual": ["!=", "≠"], "LogicalAnd": ["&&"], "LogicalOr": ["||"],
    "PostfixApply": ["|>"], "ExclamationMark": ["!"], "LeftParen": ["("], "RightParen": [")"],
    "Comma": [","], "QuestionMark": ["?"], "If": ["if"], "Then": ["then"], "Else": ["else"],
    "True": ["true"], "False": ["false"], "NaN": ["NaN"], "Inf": ["inf"],
    "LeftBracket": ["["], "RightBracket": ["]"], "LeftCurly": ["{"], "RightCurly": ["}"], "Colon": [":"],
    "Period": ["."], "Equal": ["="], "Semicolon": [";"], "Newline": ["\n"], "Let": ["let"], "Fn": ["fn"], "Dimension": ["dimension"], "Unit": ["unit"], "Use": ["use"],
    "Struct": ["struct"], "At": ["@"], "DoubleColon": ["::"], "Where": ["where"], "And": ["and"], "Long": ["long"],
    "Short": ["short"], "Both": ["both"], "None": ["none"], "Bool": ["Bool"], "String": ["String"],
    "DateTime": ["DateTime"], "CapitalFn": ["Fn"], "List": ["List"],
    "ProcedurePrint": ["print"], "ProcedureAssert": ["assert"], "ProcedureAssertEq": ["assert_eq"], "ProcedureType": ["type"],
}
BINLEVEL = {"Arrow": 2, "To": 2, "LogicalOr": 3, "LogicalAnd": 4, "LessThan": 6, "GreaterThan": 6,
            "LessOrEqual": 6, "GreaterOrEqual": 6, "EqualEqual": 6, "NotEqual": 6, "Plus": 7, "Minus": 7,
            "Multiply": 8, "Divide": 8, "Per": 9}
BINOP = {"Arrow": "conv", "To": "conv", "LogicalOr": "or", "LogicalAnd": "and", "LessThan": "lt",
         "GreaterThan": "gt", "LessOrEqual": "le", "GreaterOrEqual": "ge", "EqualEqual": "eq",
         "NotEqual": "ne", "Plus": "add", "Minus": "sub", "Multiply": "mul", "Divide": "div", "Per": "div"}
SUP = {1: "¹", 2: "²", 3: "³", 4: "⁴", 5: "⁵", 6: "⁶", 7: "⁷", 8: "⁸", 9: "⁹"}

IDENTS = ["x", "y", "z", "foo", "bar", "m", "cm", "kg", "s", "f", "g", "_a1", "x_2", "°C", "µm", "α", "β",
          "x₁", "€", "$", "%", "e", "E", "pi", "sin", "meter", "second", "ä", "é1", "½", "‰", "T", "Δt", "′"]
NUMBERS = ["0", "1", "2", "3", "10", "42", "2.5", "0.1", "1_000", "1_0.0_1", "1e3", "1.5e-3", "2E+5", "1e0_1",
           ".5", ".5e2", "3.", "1.e2", "007", "123456789012345678901234567890", "1e400", "4e-400"]
BASED = ["0x1F", "0xdead_beef", "0o17", "0b101", "0x0", "0b1_0", "0xAbC",
         "0x7fffffffffffffffffffffffffffffff", "0xffffffffffffffffffffffffffffffff"]
STRINGS = ["", "abc", "a b", "tab\\tx", "nl\\n", "q\\\"q", "{{x}}", "back\\\\slash", "\\0", "ünï", "a\\qb", "}}{{"]
FIELDS = ["a", "b", "foo", "x1"]


def esc(s):
    out = []
    for c in s:
        o = ord(c)
        if 33 <= o <= 126 and c not in '"\\()':
            out.append(c)
        else:
            out.append("\\u{%X}" % o)
    return "".join(out)


# ------------------------------------------------------------ surface trees
def lvl(t):
    k = t[0]
    if k in ("num", "based", "nan", "inf", "id", "hole", "bool", "str", "interp", "paren", "list", "struct"):
        return 16
    if k in ("call", "field"):
        return 15
    return {"upow": 14, "fact": 13, "pow": 12, "imul": 11, "neg": 10, "pos": 10, "not": 5, "if": 1,
            "apply": 0}.get(k) if k != "bin" else BINLEVEL[t[1]]


def ends_call(t):
    k = t[0]
    if k in ("upow", "fact"):
        return False
    if k in ("pow",):
        return ends_call(t[3])
    if k in ("imul",):
        return ends_call(t[2])
    if k == "bin":
        return ends_call(t[3])
    if k in ("neg", "pos", "not"):
        return ends_call(t[1])
    if k == "if":
        return ends_call(t[3])
    return True


def toks(t):
    """token list: (kind, lexeme or None)"""
    k = t[0]
    if k == "num":
        return [("Number", t[1])]
    if k == "based":
        return [("IntegerWithBase", t[1])]
    if k == "nan":
        return [("NaN", None)]
    if k == "inf":
        return [("Inf", None)]
    if k == "id":
        return [("Identifier", t[1])]
    if k == "hole":
        return [("QuestionMark", None)]
    if k == "bool":
        return [("True" if t[1] else "False", None)]
    if k == "str":
        return [("StringFixed", '"' + t[1] + '"')]
    if k == "interp":
        # ("interp", body0, [(tree, format specifiers or None, body after it), ...])
        out = [("StringInterpolationStart", '"' + t[1] + "{")]
        for i, (e, f, b) in enumerate(t[2]):
            out += toks(e)
            if f is not None:
                out.append(("StringInterpolationSpecifiers", f))
            if i + 1 < len(t[2]):
                out.append(("StringInterpolationMiddle", "}" + b + "{"))
            else:
                out.append(("StringInterpolationEnd", "}" + b + '"'))
        return out
    if k == "paren":
        return [("LeftParen", None)] + toks(t[1]) + [("RightParen", None)]
    if k == "call":
        out = toks(t[1]) + [("LeftParen", None)]
        for i, a in enumerate(t[2]):
            if i:
                out.append(("Comma", None))
            out += toks(a)
        return out + [("RightParen", None)]
    if k == "field":
        return toks(t[1]) + [("Period", None), ("Identifier", t[2])]
    if k == "upow":
        return toks(t[1]) + [("UnicodeExponent", ("⁻" if t[2] < 0 else "") + SUP[abs(t[2])])]
    if k == "fact":
        return toks(t[1]) + [("ExclamationMark", None)] * t[2]
    if k == "pow":
        return toks(t[1]) + [("Power", None)] + ([("Minus", None)] if t[2] else []) + toks(t[3])
    if k == "imul":
        return toks(t[1]) + toks(t[2])
    if k == "neg":
        return [("Minus", None)] + toks(t[1])
    if k == "pos":
        return [("Plus", None)] + toks(t[1])
    if k == "bin":
        return toks(t[2]) + [(t[1], None)] + toks(t[3])
    if k == "not":
        return [("ExclamationMark", None)] + toks(t[1])
    if k == "if":
        return [("If", None)] + toks(t[1]) + [("Then", None)] + toks(t[2]) + [("Else", None)] + toks(t[3])
    if k == "apply":
        return toks(t[1]) + [("PostfixApply", None)] + toks(t[2])
    if k == "list":
        out = [("LeftBracket", None)]
        for i, a in enumerate(t[1]):
            if i:
                out.append(("Comma", None))
            out += toks(a)
        return out + [("RightBracket", None)]
    if k == "struct":
        out = [("Identifier", t[1]), ("LeftCurly", None)]
        for i, (f, a) in enumerate(t[2]):
            if i:
                out.append(("Comma", None))
            out += [("Identifier", f), ("Colon", None)] + toks(a)
        return out + [("RightCurly", None)]
    raise ValueError(k)


def unescape_numbat(s):
    """reference for parser.rs strip_and_escape on the body of a string literal"""
    out, i = [], 0
    while i < len(s):
        c = s[i]
        if c == "\\" and i + 1 < len(s):
            n = s[i + 1]
            m = {"n": "\n", "r": "\r", "t": "\t", '"': '"', "0": "\0", "\\": "\\"}.get(n)
            if m is not None:
                out.append(m)
                i += 2
                continue
            if n in "{}":
                i += 1   # the backslash is dropped, the brace starts a pair
                continue
            out.append("\\" + n)
            i += 2
            continue
        if c in "{}" and i + 1 < len(s) and s[i + 1] == c:
            out.append(c)
            i += 2
            continue
        out.append(c)
        i += 1
    return "".join(out)


def sexpr(t):
    """the tree the documentation prescribes (format of numbat::verif::syntax::dump_ast)"""
    k = t[0]
    if k in ("num", "based"):
        return "(num %s)" % esc(t[1].replace("_", ""))
    if k == "nan":
        return "(num NaN)"
    if k == "inf":
        return "(num inf)"
    if k == "id":
        return "(id %s)" % esc(t[1])
    if k == "hole":
        return "(hole)"
    if k == "bool":
        return "(bool %s)" % ("true" if t[1] else "false")
    if k == "str":
        body = unescape_numbat(t[1])
        return '(str "%s")' % esc(body) if body != "" else '(str "")'
    if k == "interp":
        parts = []
        b0 = unescape_numbat(t[1])
        if b0 != "":
            parts.append('"%s"' % esc(b0))
        for e, f, b in t[2]:
            parts.append("(interp %s%s)" % (sexpr(e), "" if f is None else ' "%s"' % esc(f)))
            bb = unescape_numbat(b)
            if bb != "":
                parts.append('"%s"' % esc(bb))
        return "(str%s)" % "".join(" " + x for x in parts)
    if k == "paren":
        return sexpr(t[1])
    if k == "call":
        return "(call %s%s)" % (sexpr(t[1]), "".join(" " + sexpr(a) for a in t[2]))
    if k == "field":
        return "(field %s %s)" % (sexpr(t[1]), esc(t[2]))
    if k == "upow":
        return "(pow %s (num ^%d))" % (sexpr(t[1]), t[2])
    if k == "fact":
        return "(fact %d %s)" % (t[2], sexpr(t[1]))
    if k == "pow":
        r = sexpr(t[3])
        return "(pow %s %s)" % (sexpr(t[1]), "(neg %s)" % r if t[2] else r)
    if k == "imul":
        return "(mul %s %s)" % (sexpr(t[1]), sexpr(t[2]))
    if k == "neg":
        return "(neg %s)" % sexpr(t[1])
    if k == "pos":
        return sexpr(t[1])
    if k == "bin":
        return "(%s %s %s)" % (BINOP[t[1]], sexpr(t[2]), sexpr(t[3]))
    if k == "not":
        return "(not %s)" % sexpr(t[1])
    if k == "if":
        return "(if %s %s %s)" % (sexpr(t[1]), sexpr(t[2]), sexpr(t[3]))
    if k == "apply":
        f = strip_parens(t[2])
        if f[0] == "id":
            return "(call %s %s)" % (sexpr(f), sexpr(t[1]))
        return "(call %s%s %s)" % (sexpr(f[1]), "".join(" " + sexpr(a) for a in f[2]), sexpr(t[1]))
    if k == "list":
        return "(list%s)" % "".join(" " + sexpr(a) for a in t[1])
    if k == "struct":
        return "(struct %s%s)" % (esc(t[1]), "".join(" (%s %s)" % (esc(f), sexpr(a)) for f, a in t[2]))
    raise ValueError(k)


def strip_parens(t):
    while t[0] == "paren":
        t = t[1]
    return t


def fit(t, k, rng=None, extra=0.0):
    if lvl(t) < k or (rng is not None and rng.random() < extra):
        return ("paren", t)
    return t


POWER_START = ("Number", "Identifier", "LeftParen", "QuestionMark")


def gen_tree(rng, depth, extra=0.05, lists=True):
    """a random well-formed surface tree (operands parenthesised exactly where the table demands,
    plus `extra` redundant parentheses)"""
    def g(d):
        if d <= 0 or rng.random() < 0.18:
            r = rng.random()
            if r < 0.40:
                return ("id", rng.choice(IDENTS))
            if r < 0.78:
                return ("num", rng.choice(NUMBERS))
            if r < 0.84:
                return ("based", rng.choice(BASED[:-1]))
            if r < 0.88:
                return ("bool", rng.random() < 0.5)
            if r < 0.91:
                return ("hole",)
            if r < 0.93:
                return rng.choice([("nan",), ("inf",)])
            return ("str", rng.choice(STRINGS))
        r = rng.random()
        F = lambda t, k: fit(t, k, rng, extra)
        if r < 0.03:
            # an interpolated string; a struct literal cannot be written inside the braces
            items = []
            for _ in range(rng.choice([1, 1, 2, 3])):
                e = g(d - 2)
                if any(kd in ("LeftCurly",) for kd, _ in toks(e)):
                    e = ("id", rng.choice(IDENTS))
                items.append((e, rng.choice([None, None, ":.2f", ":>10", ":", ":x", ": 5 ", ":e"]), rng.choice(STRINGS)))
            return ("interp", rng.choice(STRINGS), items)
        if r < 0.06:
            return ("paren", g(d - 1))
        if r < 0.14:
            f = rng.choice([("id", rng.choice(IDENTS)), F(g(d - 1), 15)])
            return ("call", f, [g(d - 2) for _ in range(rng.choice([0, 1, 1, 2, 3]))])
        if r < 0.18:
            return ("field", F(g(d - 1), 15), rng.choice(FIELDS))
        if r < 0.24:
            return ("upow", F(g(d - 1), 15), rng.choice([1, 2, 3, 4, 9, -1, -2, -7]))
        if r < 0.29:
            return ("fact", F(g(d - 1), 14), rng.choice([1, 1, 2, 3]))
        if r < 0.38:
            return ("pow", F(g(d - 1), 13), rng.random() < 0.3, F(g(d - 1), 12))
        if r < 0.48:
            a, b = F(g(d - 1), 11), F(g(d - 1), 12)
            fb = toks(b)[0][0]
            if fb in POWER_START and not (fb == "LeftParen" and ends_call(a)):
                return ("imul", a, b)
            return ("bin", "Multiply", F(a, 8), F(b, 9))
        if r < 0.55:
            return (rng.choice(["neg", "neg", "neg", "pos"]), F(g(d - 1), 10))
        if r < 0.82:
            op = rng.choice(list(BINLEVEL))
            k = BINLEVEL[op]
            return ("bin", op, F(g(d - 1), k), F(g(d - 1), k + 1))
        if r < 0.86:
            return ("not", F(g(d - 1), 5))
        if r < 0.92:
            return ("if", F(g(d - 1), 2), F(g(d - 1), 1), F(g(d - 1), 1))
        if r < 0.96:
            f = ("id", rng.choice(IDENTS))
            if rng.random() < 0.4:
                f = ("call", f, [g(d - 2) for _ in range(rng.choice([0, 1, 2]))])
            if rng.random() < 0.1:
                f = ("paren", f)
            return ("apply", g(d - 1), f)
        if lists and r < 0.98:
            return ("list", [g(d - 2) for _ in range(rng.choice([0, 1, 2, 3]))])
        if lists:
            return ("struct", rng.choice(["S", "Pt"]), [(rng.choice(FIELDS), g(d - 2)) for _ in range(rng.choice([0, 1, 2]))])
        return ("id", rng.choice(IDENTS))
    return g(depth)


SYMBOLIC_BIN = {"Plus", "Minus", "Multiply", "Divide", "Power", "Arrow", "LessThan", "GreaterThan",
                "LessOrEqual", "GreaterOrEqual", "EqualEqual", "NotEqual", "LogicalAnd", "LogicalOr", "PostfixApply"}


def render(tokens, rng, tight=0.3, unicode_ops=0.4):
    """source text for a token list; spaces are omitted only where the documented lexical grammar
    keeps the tokens apart (next to brackets/commas, before exponents and `!`, around symbolic
    binary operators when the neighbours are atoms or brackets)"""
    texts = []
    for kind, lex in tokens:
        if lex is not None:
            texts.append(lex)
        else:
            sp = SPELL[kind]
            texts.append(sp[0] if rng.random() > unicode_ops else rng.choice(sp))
    out = []
    for i, (kind, _) in enumerate(tokens):
        if i > 0:
            pk = tokens[i - 1][0]
            ptxt = texts[i - 1]
            omit = False
            if rng.random() < tight:
                if pk in ("LeftParen", "LeftBracket", "Comma") or kind in ("RightParen", "RightBracket", "Comma"):
                    omit = True
                elif kind == "LeftParen" and pk in ("Identifier", "RightParen"):
                    omit = True
                elif kind == "UnicodeExponent":
                    omit = True
                elif kind == "ExclamationMark" and pk in ("Identifier", "Number", "RightParen", "ExclamationMark", "UnicodeExponent"):
                    omit = pk != "Number" or not ptxt.endswith(".")
                elif kind == "Period" and pk in ("Identifier", "RightParen"):
                    omit = True
                elif kind in SYMBOLIC_BIN and pk in ("Identifier", "Number", "RightParen", "UnicodeExponent", "IntegerWithBase"):
                    omit = not (pk == "Number" and ptxt.endswith("."))
                elif pk in SYMBOLIC_BIN and kind in ("Identifier", "Number", "LeftParen", "IntegerWithBase", "QuestionMark"):
                    omit = True
            # a field access must be written `.name`; keep `2 .x` apart from the number
            if kind == "Identifier" and pk == "Period":
                omit = True
            elif pk == "StringInterpolationSpecifiers":
                omit = True      # the specifiers run up to the closing brace, blanks included
            elif kind == "Period" and pk in ("Number", "IntegerWithBase"):
                omit = False
            if not omit:
                out.append(" " if rng.random() < 0.9 else rng.choice(["  ", "\t", " \t "]))
        out.append(texts[i])
    return "".join(out)


# --------------------------------------------------------- malformed inputs
SOUP = (["+", "-", "*", "/", "^", "**", "->", "→", "to", "per", "<", ">", "<=", "==", "!=", "&&", "||", "|>", "!",
         "(", ")", ",", "?", "if", "then", "else", "true", "false", "[", "]", ".", "=", ";", "²", "⁻¹", "⁻", ":",
         "{", "}", "\n", "#c\n", "NaN", "inf", "print", "let", "..", "…", "@", "&", "|", "::", "~", "\\"]
        + IDENTS[:12] + NUMBERS[:12] + BASED[:4] + ['"s"', '"a\\"b"', '"{{"'])


def gen_soup(rng):
    n = rng.choice([1, 2, 2, 3, 3, 4, 5, 6, 8])
    parts = [rng.choice(SOUP) for _ in range(n)]
    return (" " if rng.random() < 0.8 else "").join(parts)


def gen_mutation(rng, tokens):
    tokens = list(tokens)
    if not tokens:
        return tokens
    r = rng.random()
    i = rng.randrange(len(tokens))
    alphabet = [(k, None) for k in SPELL if k not in ("Newline",)] + [("Identifier", "q"), ("Number", "7")]
    if r < 0.3:
        del tokens[i]
    elif r < 0.5:
        tokens.insert(i, tokens[i])
    elif r < 0.7 and len(tokens) > 1:
        j = rng.randrange(len(tokens))
        tokens[i], tokens[j] = tokens[j], tokens[i]
    elif r < 0.85:
        tokens[i] = rng.choice(alphabet)
    else:
        tokens.insert(i, rng.choice(alphabet))
    return tokens


def gen_numberish(rng):
    n = rng.choice([1, 2, 3, 4, 5, 6, 8])
    s = "".join(rng.choice("0123456789__..eE+-xob1f ") for _ in range(n))
    if rng.random() < 0.3:
        s = rng.choice(["0x", "0b", "0o", "1e", "1.", "."]) + s
    return s


CHARS = [chr(c) for c in range(32, 127)] + list("\t\n°²³¹µ·×÷αβ…‰′″⁴⁻₁€→−≠≤≥⋅➞⩵½é")


def gen_chars(rng):
    n = rng.choice([1, 2, 3, 4, 5, 7, 10])
    return "".join(rng.choice(CHARS) for _ in range(n))


# ------------------------------------------------------------------ helpers
def hexline(src):
    return src.encode("utf-8").hex()


def coq_codepoints(src):
    return "[" + ";".join(str(ord(c)) for c in src) + "]%N"


def f64_bits(x):
    return "%016x" % struct.unpack(">Q", struct.pack(">d", x))[0]


def literal_bits(lex):
    """reference value of a numeric literal as the documentation describes it (IEEE double nearest
    to the decimal / the integer value of a based literal); None when not a plain literal"""
    l = lex.replace("_", "")
    try:
        if l[:2] in ("0x", "0o", "0b"):
            return f64_bits(float(int(l[2:], {"x": 16, "o": 8, "b": 2}[l[1]])))
        if l == "NaN":
            return None
        if l == "inf":
            return f64_bits(float("inf"))
        if l.startswith("^"):
            return f64_bits(float(int(l[1:])))
        return f64_bits(float(l))
    except (ValueError, OverflowError):
        return None
