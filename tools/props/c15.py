"""C15 — the echoed (pretty-printed) form of an input means the same as the input.

proof:  coq/theories/Props/C15.v
tie:    correspondence of the printer model (Syntax/TypedPrinter.v) with the implementation's echo on generated
        expressions (token-wise), and the escape/strip pair on generated strings
oracle: on the implementation (harness `echo`): interpret(src) -> echo p -> interpret(p) in a clone of the same
        session: accepted, same type, same value (1e-12 relative), echo of the re-read statement equals p, and a
        probe expression that uses the definition evaluates to the same value in both sessions.
"""
import collections
import json
import os
import re

import common
from props import echogen
from props import syntaxlib as L

MANIFEST = dict(
    category="proof",
    text="proof (partial). Machine-checked (Coq): (1) C15_string_escape — for ALL strings, the echo's escape_numbat_string "
         "followed by the parser's strip_and_escape is the identity (string literals and, since the fix, decorator strings); "
         "C15_lex_string_echo / C15_lex_interp_echo — the echoed text of ANY string (and of the parts of an interpolated string) "
         "is exactly one string token of the tokenizer model with that lexeme, for any Unicode classes; "
         "(2) C15_roundtrip_partial / C15_roundtrip_exact — over a Gallina model of the expression echo (typed_ast.rs "
         "PrettyPrint for Expression and StringPart, pretty_print_binop, with_parens, with_parens_liberal, call_syntax, temperature sugar), "
         "for EVERY printable typed expression of any depth the echoed tokens form a well-formed derivation tree of the "
         "documented grammar, hence by the C10 theorem the parser model accepts them and returns the tree they denote, "
         "which (without temperature sugar / digit separators) is exactly the tree the expression was elaborated from "
         "(list and struct literals included); C15_roundtrip_sep — with digit separators: the same up to the separators of the "
         "literals; C15_fixed_point_partial — re-elaborating that tree in a session with the same "
         "unit / function names gives a typed tree with the same echo (expressions without sugar); C15_roundtrip_exact_sugar / C15_fixed_point_sugar — the temperature "
         "conversion functions are excluded only in the positions where the sugar form is really printed (as operands they are "
         "echoed as calls and are exact); C15_fixed_point_neg — negative "
         "literals included: the re-elaborated tree differs (the literal becomes a negation) but has the same echo in every mode; "
         "(3) C15_decorator_echo — the echo of EVERY decorator (any strings, any alias list with accepts annotations) is read "
         "back by the parser as that decorator; C15_definition_echo_partial — over a model of Statement::pretty_print for "
         "let / unit / fn / dimension / struct definitions (decorators one per line, name, readable types as type-annotation trees, echo of the "
         "body and of where-clauses) the echo of every echoable definition is accepted and read back as that definition "
         "with the same decorators and types (tied token-wise to the implementation's echo on generated decorated definitions); "
         "(4) C15_reassociation_refuted — the (since the repair small) excluded class is real: a chain of plain literals on the "
         "right of + or × loses its parentheses and is read back re-associated. "
         "NOT proved, checked on the implementation only (echo oracle: interpret, echo, re-interpret the echo in a clone of "
         "the session, compare acceptance, type, value to 1e-12, echo of the echo, and a probe expression): how the readable "
         "types of statements are computed (inference, generalisation), "
         "the number formatter, elaboration of the temperature sugar, type equality, and the "
         "fixed-point clause outside the proved class.",
    design_ref="DESIGN.md §6 C15; design/syntax.md",
    note="Trusted: Coq kernel + vm_compute; the hand port of the expression printer in Syntax/TypedPrinter.v (tied on every run by "
         "comparing the tokens of the implementation's echo with the model's print of the intended typed tree) and of "
         "escape/strip in Syntax/StrEsc.v (strip_and_escape is also exercised by the C10 correspondence); the C10 parser model; "
         "the generator's knowledge of how numbat elaborates its fully parenthesised sources. Ten echo defects were repaired by "
         "fix: commits (phase 3: the echo of let / fn dropped the decorators; final phase: a sum or product on the right lost its "
         "parentheses, changing the display unit resp. the fixed point), two are open findings (multi-name dimension types, "
         "implicit dimension of a base unit).",
    technique="Coq proof (echo = concrete syntax tree; well-formedness by induction; reuse of the C10 round-trip theorem) + "
              "printer-model correspondence + metamorphic echo oracle on the real interpreter",
)

THEOREMS = ["C15_string_escape", "C15_roundtrip_partial", "C15_roundtrip_exact", "C15_roundtrip_sep", "C15_roundtrip_exact_sugar", "C15_fixed_point_partial", "C15_fixed_point_neg",
            "C15_fixed_point_sugar",
            "C15_lex_string_echo", "C15_lex_interp_echo", "C15_decorator_echo", "C15_definition_echo_partial",
            "C15_reassociation_refuted"]
ALLOWED_AXIOMS = []
EXTRA_VO = ["theories/Syntax/ExecTyped.vo"]
MODEL_IMPORTS = ["Syntax.Ast", "Syntax.StmtAst", "Syntax.TypedPrinter", "Syntax.TypeGrammar", "Syntax.DefEcho", "Syntax.ExecTyped"]
TRUSTED = [
    "model Syntax/TypedPrinter.v is a hand port of typed_ast.rs impl PrettyPrint for Expression / pretty_print_binop / with_parens / with_parens_liberal / call_syntax / is_temperature_sugar; Syntax/StrEsc.v of pretty_print.rs escape_numbat_string and parser.rs strip_and_escape",
    "correspondence: tokens of the implementation's echo (numbat::verif::syntax::dump_tokens) vs Syntax.ExecTyped.show_pp of the typed tree the generator intends (vm_compute in coqc)",
    "the parser model of C10 (Syntax/Parser.v), tied to parser.rs by the C10 check",
    "model Syntax/DefEcho.v (echo_deco, pp_def) is a hand port of typed_ast.rs decorator_markup and Statement::pretty_print for DefineVariable / DefineDerivedUnit / DefineFunction / DefineDimension / DefineStruct with the readable types given; tied token-wise on generated decorated definitions (Syntax.ExecTyped.show_def)",
    "oracle: harness `echo` interprets through the public API numbat::Context::interpret and Statement::pretty_print",
]


def model_items(chk, binary, quick):
    """typed trees -> (model token dump of the echo, implementation token dump of the echo)"""
    from props import ttree
    g = ttree.TGen(chk.rng)
    trees = []
    for c in json.load(open(os.path.join(common.VERIF, "corpus", "c15_trees.json"))):
        trees.append(eval(c["tree"], {"__builtins__": {}}, {"True": True, "False": False}))
    for _ in range(1500 if quick else 10000):
        trees.append(g.any(chk.rng.choice([1, 2, 2, 3, 3, 4, 5])))
    cases = [dict(setup=echogen.SETUP, stmt=ttree.src(t), probe="") for t in trees]
    res = run_echo(binary, cases)
    keep = [n for n, r in enumerate(res) if r["status"] == "OK"]
    dumps = common.run_harness(binary, "syntax", [L.hexline(res[n]["echo"]) for n in keep])
    items, idx = [], []
    for n, dline in zip(keep, dumps):
        toks = dline[2:].split(" | A ", 1)[0] if dline.startswith("T ") else dline
        items.append(("show_pp " + ttree.coq(trees[n]), toks))
        idx.append({"source": cases[n]["stmt"], "echo": res[n]["echo"]})
    chk.cov["model_cases_generated"] = len(trees)
    for c in cases:
        c.update(kind="typed-tree", feat=[])
    # definitions with decorators: the echo of let / unit / fn (Syntax/DefEcho.v) token-wise, and the oracle
    # with a probe that uses an alias
    dcases, dterms = def_cases(chk.rng, 90 if quick else 600)
    dres = run_echo(binary, dcases)
    dkeep = [n for n, r in enumerate(dres) if r["status"] == "OK"]
    ddumps = common.run_harness(binary, "syntax", [L.hexline(dres[n]["echo"]) for n in dkeep])
    for n, dline in zip(dkeep, ddumps):
        toks = dline[2:].split(" | A ", 1)[0] if dline.startswith("T ") else dline
        items.append(("show_def " + dterms[n], toks))
        idx.append({"source": dcases[n]["stmt"], "echo": dres[n]["echo"]})
    chk.cov["definition_echo_cases"] = "%d generated, %d accepted and compared token-wise with the model" % (len(dcases), len(dkeep))
    return items, idx, cases + dcases, res + dres


DECO_STRS = ["abc", "a b", "x\ny", 'q"q', "back\\slash", "ü°", "", "tab\there", "https://numbat.dev/doc?a=1&b=2"]
ACCEPTS = [None, "short", "long", "both", "none"]


def def_cases(rng, count):
    """decorated let / unit / fn definitions: (echo cases, Coq terms of type Syntax.DefEcho.edef)"""
    from props import ttree
    cs = ttree.cstr
    scalar = "(YIdent %s None)" % cs("Scalar")
    length = "(YIdent %s None)" % cs("Length")
    cases, terms = [], []
    for k in range(count):
        kind = rng.choice(["let", "let", "unit", "unit", "fn", "dimension", "struct", "genfn"])
        if kind in ("dimension", "struct", "genfn"):
            yi = lambda n: "(YIdent %s None)" % cs(n)
            if kind == "dimension":
                name = "Dq%d" % k
                alt = rng.choice([None,
                                  ("Length * Time / Mass^2", "(YDiv (YMul %s %s) (YPow %s (XNum %s)))" % (yi("Length"), yi("Time"), yi("Mass"), cs("2"))),
                                  ("Length / Time^(1/2)", "(YDiv %s (YPow %s (XParDiv (XNum %s) (XNum %s))))" % (yi("Length"), yi("Time"), cs("1"), cs("2"))),
                                  ("Mass^(-1)", "(YPow %s (XPar (XMinus (XNum %s))))" % (yi("Mass"), cs("1"))),
                                  ("(Length * Time)^3", "(YPow (YParen (YMul %s %s)) (XNum %s))" % (yi("Length"), yi("Time"), cs("3")))])
                stmt = "dimension %s" % name + (" = " + alt[0] if alt else "")
                term = "(EDDimension %s [%s])" % (cs(name), alt[1] if alt else "")
                probe = "1"
            elif kind == "struct":
                name = "Sq%d" % k
                pool = [("a", "Scalar", yi("Scalar")), ("b", "Length", yi("Length")), ("c", "Bool", "YBool"),
                        ("d", "String", "YString"), ("e", "List<Scalar>", "(YList %s)" % yi("Scalar"))]
                fs = [f for f in pool if rng.random() < 0.6]
                stmt = "struct %s { %s }" % (name, ", ".join("%s: %s" % (f, t) for f, t, _ in fs)) if fs else "struct %s {}" % name
                term = "(EDStruct %s [] [%s])" % (cs(name), "; ".join("(%s, %s)" % (cs(f), c) for f, _, c in fs))
                probe = "1"
            else:
                name = "gq%d" % k
                body = ("bin", "Mul", ("id", "x"), ("id", "y"))
                stmt = "fn %s<D: Dim>(x: D, y: D^2) -> D^3 = %s" % (name, ttree.src(body))
                term = "(EDFn [] %s [(%s, true)] [(%s, %s); (%s, (YPow %s (XNum %s)))] (YPow %s (XNum %s)) (Some %s) [])" % (
                    cs(name), cs("D"), cs("x"), yi("D"), cs("y"), yi("D"), cs("2"), yi("D"), cs("3"), ttree.coq(body))
                probe = "%s(2 m, 3 m^2)" % name
            cases.append(dict(setup=echogen.SETUP, stmt=stmt, probe=probe, kind="echoed-definition", feat=[]))
            terms.append(term)
            continue
        decos_src, decos_coq, aliases = [], [], []

        def text_deco(word, ctor):
            t = rng.choice(DECO_STRS)
            decos_src.append('@%s("%s")' % (word, ttree.esc_src(t)))
            decos_coq.append("(%s %s)" % (ctor, cs(t)))
        if rng.random() < 0.7:
            text_deco("name", "DName")
        if rng.random() < 0.5:
            text_deco("url", "DUrl")
        if rng.random() < 0.5:
            text_deco("description", "DDescription")
        if kind == "fn" and rng.random() < 0.6:
            c = rng.choice(["f%dq(1)" % k, "2 + 2"])
            if rng.random() < 0.5:
                d = rng.choice(DECO_STRS)
                decos_src.append('@example("%s", "%s")' % (ttree.esc_src(c), ttree.esc_src(d)))
                decos_coq.append("(DExample %s (Some %s))" % (cs(c), cs(d)))
            else:
                decos_src.append('@example("%s")' % ttree.esc_src(c))
                decos_coq.append("(DExample %s None)" % cs(c))
        if kind == "unit" and rng.random() < 0.5:
            w = rng.choice(["metric_prefixes", "binary_prefixes"])
            decos_src.append("@" + w)
            decos_coq.append("DMetricPrefixes" if w == "metric_prefixes" else "DBinaryPrefixes")
        if kind != "fn" and rng.random() < 0.8:
            names = ["al%d%s" % (k, x) for x in "abc"[:rng.randint(1, 3)]]
            parts_src, parts_coq = [], []
            for nm in names:
                a = rng.choice(ACCEPTS) if kind == "unit" else None
                parts_src.append(nm + (": " + a if a else ""))
                parts_coq.append("(%s, %s)" % (cs(nm), "None" if a is None else "Some Ac" + a.capitalize()))
            aliases = names
            decos_src.append("@aliases(%s)" % ", ".join(parts_src))
            decos_coq.append("(DAliases [%s])" % "; ".join(parts_coq))
        order = list(range(len(decos_src)))
        rng.shuffle(order)
        decos_src = [decos_src[i] for i in order]
        decos_coq = [decos_coq[i] for i in order]
        dlist = "[%s]" % "; ".join(decos_coq)
        head = "".join(d + "\n" for d in decos_src)
        if kind == "let":
            name = "vq%d" % k
            body = rng.choice([("num", "1"), ("bin", "Add", ("num", "2"), ("num", "3"))])
            stmt = head + "let %s = %s" % (name, ttree.src(body))
            term = "(EDLet %s %s %s %s)" % (dlist, cs(name), scalar, ttree.coq(body))
            probe = (aliases[0] if aliases else name) + " + 1"
        elif kind == "unit":
            name = "unq%d" % k
            body = ("bin", "Mul", ("num", rng.choice(["2", "10"])), ("unit", "m"))
            stmt = head + "unit %s: Length = %s" % (name, ttree.src(body))
            term = "(EDUnit %s %s %s (Some %s))" % (dlist, cs(name), length, ttree.coq(body))
            probe = "3 " + (aliases[0] if aliases else name)
        else:
            name = "f%dq" % k
            body = ("bin", "Add", ("id", "x"), ("num", "1"))
            stmt = head + "fn %s(x: Scalar) -> Scalar = %s" % (name, ttree.src(body))
            term = "(EDFn %s %s [] [(%s, %s)] %s (Some %s) [])" % (dlist, cs(name), cs("x"), scalar, scalar, ttree.coq(body))
            probe = "%s(2)" % name
        cases.append(dict(setup=echogen.SETUP, stmt=stmt, probe=probe, kind="decorated-definition", feat=[]))
        terms.append(term)
    return cases, terms

KNOWN = [f for f in common.load_known() if f.get("property") == "C15"]


def hx(s):
    return s.encode("utf-8").hex() if s else "-"


def unhx(s):
    return "" if s == "-" else bytes.fromhex(s).decode("utf-8", "replace")


def run_echo(binary, cases):
    lines = ["%s %s %s" % (hx(c["setup"]), hx(c["stmt"]), hx(c.get("probe", ""))) for c in cases]
    out = common.run_harness(binary, "echo", lines, shards=min(common.NPROC, max(1, len(lines) // 150)))
    res = []
    for o in out:
        f = o.split(" ")
        if len(f) < 8:
            res.append(dict(status=o, echo="", v1="", st2="", echo2="", v2="", p1="", p2=""))
            continue
        res.append(dict(status=f[0], echo=unhx(f[1]), v1=unhx(f[2]), st2=unhx(f[3]), echo2=unhx(f[4]), v2=unhx(f[5]),
                        p1=unhx(f[6]), p2=unhx(f[7])))
    return res


NUMRE = re.compile(r"-?\d+(?:\.\d+)?(?:e[+-]?\d+)?")


def same_value(a, b):
    """texts equal, numbers within 1e-12 relative"""
    if a == b:
        return True
    na, nb = NUMRE.findall(a), NUMRE.findall(b)
    if NUMRE.sub("#", a) != NUMRE.sub("#", b) or len(na) != len(nb):
        return False
    for x, y in zip(na, nb):
        fx, fy = float(x), float(y)
        if fx != fy and abs(fx - fy) > 1e-12 * max(abs(fx), abs(fy)):
            return False
    return True


def verdict(r):
    """None if the echo means the same, else a description of the failure"""
    if r["status"] == "PANIC" or r["status"].startswith("@@"):  # PANIC1 = the statement itself panics: not about its echo
        return "panic/crash while interpreting or echoing"
    if r["status"] != "OK":
        return None                       # the statement itself was not accepted: nothing to echo
    if r["st2"] != "OK":
        return "echo is not accepted: %s" % r["st2"]
    if r["echo2"] != r["echo"]:
        return "echo of the re-read statement differs: %r" % r["echo2"]
    if not same_value(r["v1"], r["v2"]):
        return "value/type differs: %r vs %r" % (r["v1"], r["v2"])
    if not same_value(r["p1"], r["p2"]):
        return "probe differs: %r vs %r" % (r["p1"], r["p2"])
    return None


def matches_known(case, r, what):
    for f in KNOWN:
        if f.get("status") != "open":
            continue
        m = f.get("matcher", {})
        if m.get("kind") == "exact" and case["stmt"] in m.get("inputs", []):
            return f
        if m.get("kind") == "echo-shape" and re.search(m["echo_regex"], r["echo"]) and \
                re.search(m["failure_regex"], what):
            return f
    return None


def make_cases(chk, quick):
    rng = chk.rng
    cases = []
    for c in json.load(open(os.path.join(common.VERIF, "corpus", "c15.json"))):
        cases.append(dict(setup=c.get("setup", echogen.SETUP), stmt=c["stmt"], probe=c.get("probe", ""), kind="corpus",
                          feat=[]))
    n = 3000 if quick else 25000
    for i in range(n):
        g = echogen.Gen(rng)
        stmt, probe, kind = g.statement(i)
        if len(stmt) > 400:
            continue
        cases.append(dict(setup=echogen.SETUP, stmt=stmt, probe=probe, kind=kind, feat=sorted(g.feat)))
    return cases


def shrink_case(binary, case):
    """shrink the statement text token-wise while the echo still fails in the same way"""
    def fails(tokens):
        c = dict(case, stmt=" ".join(tokens))
        r = run_echo(binary, [c])[0]
        return verdict(r) is not None
    toks = case["stmt"].split(" ")
    if len(toks) > 1:
        try:
            toks = common.shrink_list(toks, fails, max_rounds=80)
        except Exception:
            pass
    return dict(case, stmt=" ".join(toks))


def known_for(case, r, what):
    for f in KNOWN:
        if f.get("status") != "open":
            continue
        m = f.get("matcher", {})
        if not re.search(m.get("failure_regex", "^$"), what):
            continue
        if m.get("kind") == "echo-shape" and re.search(m["echo_regex"], r["echo"]):
            return f
        if m.get("kind") == "base-unit-implicit-dimension":
            # last line of the echo is `unit NAME: TYPE` with TYPE the camel-cased NAME
            mm = re.search(r"(?:^|\n)unit (\w+): (\w+)$", r["echo"])
            if mm and mm.group(2).lower() == mm.group(1).replace("_", "").lower():
                return f
        if m.get("kind") == "sum-on-the-right":
            # a parenthesised sum on the right of `+` lost its parentheses; the two results have the same
            # dimension and differ in the display unit only; and the interpreter itself says they are equal
            t1 = re.match(r"^\S+ (.*?)\s+\[(\w+)\]$", r["v1"])
            t2 = re.match(r"^\S+ (.*?)\s+\[(\w+)\]$", r["v2"])
            if "+ (" in case["stmt"] and t1 and t2 and t1.group(2) == t2.group(2) and t1.group(1) != t2.group(1) \
                    and _BINARY is not None:
                q = dict(setup=case["setup"], stmt="(%s) == (%s)" % (case["stmt"], r["echo"]), probe="")
                rr = run_echo(_BINARY, [q])[0]
                if rr["status"] == "OK" and rr["v1"].startswith("true"):
                    return f
        if m.get("kind") == "times-only":
            # the two echoes differ only in explicit vs. juxtaposed multiplication, and the values agree
            strip = lambda s: re.sub(r"\s+", " ", s.replace("×", " "))
            if strip(r["echo"]) == strip(r["echo2"]) and same_value(r["v1"], r["v2"]) and same_value(r["p1"], r["p2"]):
                return f
    return None


_BINARY = None


def run(chk):
    global _BINARY
    binary, _ = common.build_harness()
    _BINARY = binary
    proved = chk.prove("Props.C15", THEOREMS, ["theories/Props/C15.vo"] + EXTRA_VO, allowed=ALLOWED_AXIOMS)
    chk.trusted += TRUSTED
    quick = chk.tier == "quick"
    cases = make_cases(chk, quick)
    res = run_echo(binary, cases)

    # ---- printer model vs implementation (correspondence), see model_items()
    bad = {}
    items, idx, tcases, tres = model_items(chk, binary, quick)
    # the typed-tree sources are statements too: they take part in the oracle
    cases += tcases
    res += tres
    if items:
        bad = common.coq_mismatches(MODEL_IMPORTS, items, "c15", shard_size=300)

    # ---- oracle
    failures = []
    for n, (c, r) in enumerate(zip(cases, res)):
        v = verdict(r)
        if v:
            failures.append((n, v))
    known_seen = collections.Counter()
    reported = 0
    for n, what in failures:
        kf = known_for(cases[n], res[n], what)
        if kf:
            known_seen[kf["id"]] += 1
            continue
        if reported >= 3:
            continue
        small = shrink_case(binary, cases[n])
        r = run_echo(binary, [small])[0]
        w = verdict(r) or what
        kf = known_for(small, r, w)
        if kf and verdict(r):
            known_seen[kf["id"]] += 1
            continue
        if not verdict(r):
            small, r, w = cases[n], res[n], what
        chk.violation({
            "kind": "the echoed form of an accepted statement does not mean the same as the statement",
            "setup": small["setup"], "statement": small["stmt"], "probe": small.get("probe", ""),
            "echo": r["echo"], "value": r["v1"], "echo_status": r["st2"], "echo_of_echo": r["echo2"],
            "value_of_echo": r["v2"], "probe_values": [r["p1"], r["p2"]], "detail": w,
            "original_statement": cases[n]["stmt"],
            "replay": "./check C15 --replay <this file>",
        })
        reported += 1
    for fid, cnt in sorted(known_seen.items()):
        chk.known(fid, "%d generated statements hit known finding %s" % (cnt, fid))

    if not reported and (bad or not proved):
        n = min(bad) if bad else None
        chk.violation({
            "kind": "proof or correspondence no longer checks",
            "theorem_or_correspondence": ("correspondence Syntax.TypedPrinter vs numbat/src/typed_ast.rs (echo tokens)"
                                          if bad else "Props/C15.v: " + str(getattr(chk, "proof_failure", "?"))),
            "mismatching_cases": len(bad),
            "first_case": None if n is None else {"case": idx[n], "implementation": items[n][1], "model": bad[n]},
        }, found_input=False)

    kinds = collections.Counter(c["kind"] for c in cases)
    status = collections.Counter(r["status"].split(":")[0] + (":" + r["status"].split(":")[1] if ":" in r["status"] else "")
                                 for r in res)
    feats = collections.Counter(f for c in cases for f in c.get("feat", []))
    shapes = set()
    for c, r in zip(cases, res):
        if r["status"] == "OK" and len(r["echo"]) >= 12:
            shapes.add(common.shape_hash(re.sub(r"[0-9]+(\.[0-9]+)?", "#", re.sub(r"\b(unt|fun|v|Dim|St)\d+", r"\1", r["echo"]))))
    chk.cov.update({
        "evaluations": len(cases),
        "distinct_nontrivial": len(shapes),
        "rule": "corpus + seeded type-directed statements over the prelude (expressions of type Scalar/Length/Time/Velocity/"
                "Temperature/Bool/String with all operator classes, conditionals, calls, callables, structs, lists, "
                "interpolated strings, temperature sugar; let with/without annotation and decorators; fn with generic/"
                "inferred signatures, where-clauses and decorators; unit definitions with every decorator; dimension and "
                "struct definitions); each is interpreted, echoed, and the echo re-interpreted in a clone of the session. "
                "non-trivial = accepted statement whose echo has ≥ 12 characters; distinct = distinct echo with numbers and "
                "generated names erased. Plus the printer-model correspondence cases.",
        "statement_kinds": dict(kinds), "status": dict(status), "features": dict(feats),
        "oracle_failures": len(failures), "oracle_failures_known": sum(known_seen.values()),
        "model_cases": len(items), "model_mismatches": len(bad),
        "exhaustive": False,
        "samples": [{"statement": cases[n]["stmt"], "echo": res[n]["echo"], "value": res[n]["v1"], "echo_status": res[n]["st2"]}
                    for n in (0, len(cases) // 3, len(cases) // 2, len(cases) - 1)],
    })
    chk.assumptions += ["numeric literals in generated statements have ≤ 4 significant digits (exactly representable in the echo's 6-digit precision, the property's proviso)",
                        "same value = equal text of the 17-significant-digit rendering with numbers compared to 1e-12 relative; same type = equal readable type"]


def replay(path):
    r = json.load(open(path))
    if "statement" not in r:
        print(json.dumps(r, indent=1, ensure_ascii=False))
        return 0
    binary, _ = common.build_harness()
    c = dict(setup=r.get("setup", ""), stmt=r["statement"], probe=r.get("probe", ""))
    o = run_echo(binary, [c])[0]
    print("statement:     %r" % c["stmt"])
    print("echo:          %r   value %r" % (o["echo"], o["v1"]))
    print("echo re-read:  %s   echo %r   value %r" % (o["st2"], o["echo2"], o["v2"]))
    v = verdict(o)
    print("violates C15: " + v if v else "the echo means the same")
    return 1 if v else 0
