"""Parser for the arithmetic fragment of Numbat source used by the C23 translator.

Follows the grammar comment at the top of numbat/src/parser.rs for the levels it covers:
  expression := conversion ( "|>" call )*          (x |> f(a) is f(a, x))
  conversion := term ( ("->"|"→"|"➞"|"to") term )*
  term       := factor ( ("+"|"-") factor )*
  factor     := unary ( ("*"|"×"|"·"|"/"|"÷") unary )*
  unary      := ("-"|"+") unary | ifactor
  ifactor    := power ( power )*                    (juxtaposition = multiplication)
  power      := call ( "^" "-"? power )?
  call       := primary ( "(" args ")" )*
  primary    := number | string | identifier | "(" expression ")"
  condition  := "if" conversion "then" condition "else" condition ;  comparison := term (< > <= >=) term
Anything else (lists, structs, `per`, `!`, logical operators) raises Unsupported: the
translator must fail loudly rather than guess.
AST: ("if", c, a, b) ("cmp", op, a, b) ("num", Fraction) ("str", s) ("id", name) ("call", name, [args]) ("bin", op, a, b) ("neg", a) ("conv", a, b)
"""
import re
from fractions import Fraction


class Unsupported(Exception):
    pass


TOKEN_RE = re.compile(r"""
    (?P<ws>[ \t]+) |
    (?P<num>[0-9][0-9_]*(?:\.[0-9_]*)?(?:[eE][+-]?[0-9][0-9_]*)?) |
    (?P<str>"[^"]*") |
    (?P<op>\|>|->|→|➞|<=|>=|≤|≥|<|>|\^|\+|-|\*|×|·|⋅|/|÷|\(|\)|,) |
    (?P<id>[^\W0-9][\w]*|[°%′″_][\w]*)
""", re.X | re.U)


def tokenize(src):
    toks, i = [], 0
    while i < len(src):
        m = TOKEN_RE.match(src, i)
        if not m:
            raise Unsupported("cannot tokenize %r at %r" % (src, src[i:i + 10]))
        i = m.end()
        k = m.lastgroup
        if k == "ws":
            continue
        t = m.group(k)
        if k == "id" and t == "to":
            k, t = "op", "->"
        if k == "id" and t in ("if", "then", "else"):
            k = "kw"
        toks.append((k, t))
    toks.append(("end", ""))
    return toks


class Parser:
    def __init__(self, src):
        self.t = tokenize(src)
        self.i = 0

    def peek(self):
        return self.t[self.i]

    def next(self):
        x = self.t[self.i]
        self.i += 1
        return x

    def accept(self, *ops):
        k, t = self.peek()
        if k == "op" and t in ops:
            self.i += 1
            return t
        return None

    def expect(self, op):
        if not self.accept(op):
            raise Unsupported("expected %r, found %r" % (op, self.peek()))

    def expression(self):
        e = self.condition()
        while self.accept("|>"):
            c = self.call()
            if c[0] == "id":
                e = ("call", c[1], [e])
            elif c[0] == "call":
                e = ("call", c[1], c[2] + [e])
            else:
                raise Unsupported("|> needs a function")
        return e

    def condition(self):
        # condition ::= "if" conversion "then" condition "else" condition | conversion
        if self.peek() == ("kw", "if"):
            self.next()
            c = self.conversion()
            if self.next() != ("kw", "then"):
                raise Unsupported("expected then")
            a = self.condition()
            if self.next() != ("kw", "else"):
                raise Unsupported("expected else")
            b = self.condition()
            return ("if", c, a, b)
        return self.conversion()

    def conversion(self):
        e = self.comparison()
        while self.accept("->", "→", "➞"):
            e = ("conv", e, self.comparison())
        return e

    def comparison(self):
        e = self.term()
        o = self.accept("<", ">", "<=", ">=", "≤", "≥")
        if o:
            o = {"≤": "<=", "≥": ">="}.get(o, o)
            return ("cmp", o, e, self.term())
        return e

    def term(self):
        e = self.factor()
        while True:
            o = self.accept("+", "-")
            if not o:
                return e
            e = ("bin", o, e, self.factor())

    def factor(self):
        e = self.unary()
        while True:
            o = self.accept("*", "×", "·", "⋅", "/", "÷")
            if not o:
                return e
            e = ("bin", "/" if o in "/÷" else "*", e, self.unary())

    def unary(self):
        if self.accept("-"):
            return ("neg", self.unary())
        if self.accept("+"):
            return self.unary()
        return self.ifactor()

    def starts_primary(self):
        k, t = self.peek()
        return k in ("num", "id", "str") or (k == "op" and t == "(")

    def ifactor(self):
        e = self.power()
        while self.starts_primary():
            e = ("bin", "*", e, self.power())
        return e

    def power(self):
        b = self.call()
        if self.accept("^"):
            if self.accept("-"):
                return ("bin", "^", b, ("neg", self.power()))
            return ("bin", "^", b, self.power())
        return b

    def call(self):
        e = self.primary()
        while self.peek() == ("op", "("):
            if e[0] != "id":
                raise Unsupported("call of a non-identifier")
            self.next()
            args = []
            if not self.accept(")"):
                args.append(self.expression())
                while self.accept(","):
                    args.append(self.expression())
                self.expect(")")
            e = ("call", e[1], args)
        return e

    def primary(self):
        k, t = self.next()
        if k == "num":
            t = t.replace("_", "")
            return ("num", Fraction(t))
        if k == "str":
            return ("str", t[1:-1])
        if k == "id":
            if t in ("if", "then", "else", "per", "true", "false", "where", "and"):
                raise Unsupported("keyword %r outside the arithmetic fragment" % t)
            return ("id", t)
        if k == "op" and t == "(":
            e = self.expression()
            self.expect(")")
            return e
        raise Unsupported("unexpected token %r" % (t,))


def parse_expr(src):
    p = Parser(src)
    e = p.expression()
    if p.peek()[0] != "end":
        raise Unsupported("trailing input %r in %r" % (p.peek(), src))
    return e


FN_RE = re.compile(r"^fn\s+(?P<name>[^\s(<]+)\s*(?:<[^>]*>)?\s*\((?P<params>[^)]*)\)\s*(?:->\s*(?P<ret>[^=]+?))?\s*=\s*(?P<body>.+)$")
LET_RE = re.compile(r"^let\s+(?P<name>[^\s:=]+)\s*(?::\s*[^=]+?)?\s*=\s*(?P<body>.+)$")
UNIT_RE = re.compile(r"^unit\s+(?P<name>[^\s:=]+)\s*(?::\s*(?P<dim>[^=]+?))?\s*(?:=\s*(?P<body>.+))?$")


def definitions(path):
    """top-level `fn … = body`, `let … = body`, `unit … (= body)?` of a module, in order; single-line
    definitions only (what the whitelisted modules use); decorators and comments skipped."""
    out = []
    for raw in open(path, encoding="utf-8"):
        line = raw.split("#", 1)[0].rstrip() if not raw.lstrip().startswith("@") else ""
        if not line.strip() or line[0] in " \t":
            continue
        m = FN_RE.match(line)
        if m:
            params = [p.split(":")[0].strip() for p in m.group("params").split(",") if p.strip()]
            out.append(("fn", m.group("name"), params, m.group("body").strip()))
            continue
        m = LET_RE.match(line)
        if m:
            out.append(("let", m.group("name"), [], m.group("body").strip()))
            continue
        m = UNIT_RE.match(line)
        if m:
            out.append(("unit", m.group("name"), [], (m.group("body") or "").strip()))
    return out
