"""C13 — standard-library unit names and prefixes resolve correctly and uniquely.

proof:  coq/theories/Props/C13.v. General theorems about the prefix parser model (any prefix
        table satisfying the decidable `table_wf`, any state reachable by successful
        add_unit / add_other_identifier calls, EVERY string): at most one reading, no string is
        both a reading and another identifier, `parse` returns exactly the reading, the
        output form of a prefixed unit reads back. Instance lemmas on the generated tables
        (vm_compute): the real prefix table is well-formed, the output spellings are among
        the accepted spellings, each factor is 10^n / 2^n, the prelude's registration
        sequence succeeds in the model and every prelude unit is printable.
tie:    translator — Gen/PrefixTables.v and Gen/PrefixPrelude.v are regenerated on every run
        from the running implementation (hooks numbat::verif::prefix::*), so the instance
        lemmas are re-checked against what the code says now; correspondence —
        PrefixParser::parse (hook `resolve`) vs the model's parse on the complete set of
        (alias, prefix spelling) combinations, non-accepted combinations and random strings.
oracle: on the implementation: every accepted combination resolves to (prefix, alias), no two
        combinations share a spelling, rejected combinations do not resolve to that unit,
        `1 <prefixed unit>` is displayed in a form that resolves to the same prefix and unit.
"""
import collections
import json
import os

import common

MANIFEST = dict(
    category="proof",
    text="Machine-checked proof (Coq) about a line-by-line model of PrefixParser (parse, ensure_name_is_available, "
         "add_unit, add_other_identifier): for every well-formed prefix table, every state reachable by successful "
         "registrations and EVERY string, the string has at most one (unit alias, prefix) reading, is never both a unit "
         "reading and another identifier, `parse` returns exactly that reading (so non-accepted combinations are not "
         "read as the unit), and the displayed form of a prefixed unit reads back as the same prefixed unit "
         "(C13_unique, C13_not_both, C13_parse_exact, C13_parse_ident, C13_readback_*). The real prefix table, output "
         "spellings, factors and the prelude's complete registration sequence are regenerated from the running "
         "implementation on every run and the instance lemmas (well-formedness, factor = 10^n/2^n, registration "
         "succeeds, every unit printable) are re-proved by vm_compute; PrefixParser::parse is compared with the model "
         "on the complete set of combinations.",
    design_ref="DESIGN.md §6 C13",
    note="Trusted: Coq kernel + vm_compute; the hand port Prefix/Model.v (validated exhaustively against "
         "PrefixParser::parse on the prelude); the hooks in numbat/src/verif/prefix.rs and prefix_parser.rs that dump the "
         "tables; the translator tools/props/c13.py. The registration sequence is replayed as units-then-identifiers "
         "(the dump has no interleaving); function-local shadowing identifiers are outside the theorem.",
    technique="Coq proof (invariant over registration sequences, all strings) + generated tables re-checked by vm_compute + exhaustive parse correspondence",
)

GENERAL = ["C13_unique", "C13_not_both", "C13_parse_exact", "C13_parse_ident",
           "C13_readback_prefixed", "C13_readback_plain"]
INSTANCE = ["C13_table_wf", "C13_table_standard", "C13_render_wf", "C13_factor", "C13_prelude_reachable", "C13_prelude_printable",
            "C13_prelude_unique", "C13_prelude_parse_exact"]
THEOREMS = GENERAL + INSTANCE

GEN_DIR = os.path.join(common.COQ, "theories", "Gen")


def unh(x):
    return bytes.fromhex(x).decode("utf-8")


def cs(s):
    return "(B %s)" % common.coq_string(s)


def cb(x):
    return "true" if x else "false"


def write_if_changed(path, content):
    os.makedirs(os.path.dirname(path), exist_ok=True)
    if not os.path.exists(path) or open(path).read() != content:
        open(path, "w").write(content)
        return True
    return False


def parse_table(line):
    rows, none = [], None
    for r in line.split(";"):
        f = r.split(":")
        rows.append(dict(long=unh(f[0]), shorts=[unh(x) for x in f[1].split(",") if x], metric=f[2] == "M",
                         exp=int(f[3]), rshort=unh(f[4]), rlong=unh(f[5]), bits=int(f[6])))
    return rows


def parse_dump(line):
    u, o, r = line.split("|")
    units = []
    for x in u.split(";"):
        f = x.split(":")
        units.append(dict(name=unh(f[0]), ashort=f[1] == "1", along=f[2] == "1", metric=f[3] == "1",
                          binary=f[4] == "1", full=unh(f[5])))
    others = [unh(x) for x in o.split(",") if x]
    reg = []
    for x in r.split(";"):
        f = x.split(":")
        reg.append(dict(unit=unh(f[0]), canon=unh(f[1]), cshort=f[2] == "1", clong=f[3] == "1",
                        metric=f[4] == "1", binary=f[5] == "1",
                        aliases=[(unh(a.split("=")[0]), a.split("=")[1] == "1", a.split("=")[2] == "1")
                                 for a in f[6].split(",") if a]))
    return units, others, reg


def coq_prefix(metric, exp):
    return "(mkP %s (%d))" % ("Metric" if metric else "Binary", exp)


def gen_tables(rows, none_render):
    out = ["(* GENERATED on every run by tools/props/c13.py from numbat::verif::prefix::prefix_table /",
           "   prefix_rendering / prefix_factor_bits of the running implementation. Do not edit. *)",
           "From NV Require Import Prefix.Model.", "Local Open Scope string_scope.", "",
           "Definition gen_table : list pentry := ["]
    out.append(";\n".join("  mkE %s [%s] %s" % (cs(r["long"]), "; ".join(cs(s) for s in r["shorts"]),
                                               coq_prefix(r["metric"], r["exp"])) for r in rows))
    out.append("].\n")
    out.append("Definition gen_render_short_tbl : list (prefix * bytes) := [")
    out.append(";\n".join(["  (pnone, %s)" % cs(none_render[0])] +
                          ["  (%s, %s)" % (coq_prefix(r["metric"], r["exp"]), cs(r["rshort"])) for r in rows]))
    out.append("].\n")
    out.append("Definition gen_render_long_tbl : list (prefix * bytes) := [")
    out.append(";\n".join(["  (pnone, %s)" % cs(none_render[1])] +
                          ["  (%s, %s)" % (coq_prefix(r["metric"], r["exp"]), cs(r["rlong"])) for r in rows]))
    out.append("].\n")
    out.append("Definition gen_factor_bits : list (prefix * Z) := [")
    out.append(";\n".join("  (%s, %d%%Z)" % (coq_prefix(r["metric"], r["exp"]), r["bits"]) for r in rows))
    out.append("].\n")
    return "\n".join(out)


def gen_prelude(units, others, reg):
    out = ["(* GENERATED on every run by tools/props/c13.py from the prefix parser and unit registry of a",
           "   session after `use prelude` (hooks numbat::verif::prefix::{units, other_identifiers},",
           "   Context::unit_representations). Do not edit. *)",
           "From NV Require Import Prefix.Model.", "Local Open Scope string_scope.", "",
           "Definition gen_unit_ops : list op := ["]
    out.append(";\n".join("  AddUnit %s %s %s %s %s %s" % (cs(u["name"]), cb(u["ashort"]), cb(u["along"]),
                                                           cb(u["metric"]), cb(u["binary"]), cs(u["full"]))
                          for u in units))
    out.append("].\n")
    out.append("Definition gen_others : list bytes := [")
    out.append(";\n".join("  " + cs(o) for o in others))
    out.append("].\n")
    out.append("Definition gen_ops : list op := gen_unit_ops ++ map AddOther gen_others.\n")
    out.append("Definition gen_state : state := mkSt [")
    out.append(";\n".join("  (%s, mkU %s %s %s %s %s)" % (cs(u["name"]), cb(u["ashort"]), cb(u["along"]),
                                                          cb(u["metric"]), cb(u["binary"]), cs(u["full"]))
                          for u in units))
    out.append("] (rev gen_others).\n")
    out.append("(* unit, canonical name, canonical accepts short, metric, binary *)")
    out.append("Definition gen_registry : list (bytes * bytes * bool * bool * bool) := [")
    out.append(";\n".join("  (%s, %s, %s, %s, %s)" % (cs(r["unit"]), cs(r["canon"]), cb(r["cshort"]),
                                                      cb(r["metric"]), cb(r["binary"])) for r in reg))
    out.append("].\n")
    return "\n".join(out)


def translate(binary):
    lines = common.run_harness(binary, "prefix", ["T", "U", "N"], shards=1)
    rows = parse_table(lines[0])
    units, others, reg = parse_dump(lines[1])
    f = lines[2].split(":")
    none_render = (unh(f[0]), unh(f[1]))
    ch1 = write_if_changed(os.path.join(GEN_DIR, "PrefixTables.v"), gen_tables(rows, none_render))
    ch2 = write_if_changed(os.path.join(GEN_DIR, "PrefixPrelude.v"), gen_prelude(units, others, reg))
    return rows, units, others, reg, (ch1 or ch2)


def combos(rows, units):
    """complete set: (string, expected (M/B, exp, alias, full) or None, tag)"""
    accepted, rejected = [], []
    for u in units:
        accepted.append((u["name"], ("M", 0, u["name"], u["full"]), "plain"))
        for r in rows:
            kind_ok = u["metric"] if r["metric"] else u["binary"]
            exp = ("M" if r["metric"] else "B", r["exp"], u["name"], u["full"])
            (accepted if (kind_ok and u["along"]) else rejected).append((r["long"] + u["name"], exp, "long"))
            for s in r["shorts"]:
                (accepted if (kind_ok and u["ashort"]) else rejected).append((s + u["name"], exp, "short"))
    return accepted, rejected


# the SI / IEC 80000-13 prefixes (same hand-written specification as Prefix/Standard.v)
STANDARD = {"quecto": -30, "ronto": -27, "yocto": -24, "zepto": -21, "atto": -18, "femto": -15, "pico": -12,
            "nano": -9, "micro": -6, "milli": -3, "centi": -2, "deci": -1, "deca": 1, "hecto": 2, "kilo": 3,
            "mega": 6, "giga": 9, "tera": 12, "peta": 15, "exa": 18, "zetta": 21, "yotta": 24, "ronna": 27,
            "quetta": 30, "kibi": 10, "mebi": 20, "gibi": 30, "tebi": 40, "pebi": 50, "exbi": 60, "zebi": 70,
            "yobi": 80, "robi": 90, "quebi": 100}
STANDARD_SYM = {"q": "quecto", "r": "ronto", "y": "yocto", "z": "zepto", "a": "atto", "f": "femto", "p": "pico",
                "n": "nano", "µ": "micro", "μ": "micro", "u": "micro", "m": "milli", "c": "centi", "d": "deci",
                "da": "deca", "h": "hecto", "k": "kilo", "M": "mega", "G": "giga", "T": "tera", "P": "peta",
                "E": "exa", "Z": "zetta", "Y": "yotta", "R": "ronna", "Q": "quetta", "Ki": "kibi", "Mi": "mebi",
                "Gi": "gibi", "Ti": "tebi", "Pi": "pebi", "Ei": "exbi", "Zi": "zebi", "Yi": "yobi", "Ri": "robi",
                "Qi": "quebi"}


def standard_failures(binary, rows, units):
    """prefix spellings whose value differs from the SI / IEC meaning, shown on a real unit"""
    out = []
    for r in rows:
        base = 10 if r["metric"] else 2
        for sp, form in [(r["long"], "long")] + [(s, "short") for s in r["shorts"]]:
            std_name = sp if form == "long" else STANDARD_SYM.get(sp)
            want = STANDARD.get(std_name)
            is_bin = std_name in ("kibi", "mebi", "gibi", "tebi", "pebi", "exbi", "zebi", "yobi", "robi", "quebi")
            if want is not None and want == r["exp"] and is_bin == (not r["metric"]):
                continue
            u = next((u for u in units if (u["metric"] if r["metric"] else u["binary"]) and
                      (u["along"] if form == "long" else u["ashort"]) and u["name"].isidentifier()), None)
            ident = sp + (u["name"] if u else "")
            src = "(1 %s) / (1 %s)" % (ident, u["name"]) if u else ident
            o = common.run_harness(binary, "prefix", ["D " + src.encode().hex()], shards=1)[0]
            shown = bytes.fromhex(o[3:]).decode() if o.startswith("ok ") else o
            out.append({"kind": "prefix spelling does not denote its SI / IEC 80000-13 factor",
                        "spelling": sp, "identifier": ident,
                        "implementation_prefix": "%s^%d" % (base, r["exp"]),
                        "standard": "unknown spelling" if want is None else "%s^%d" % (2 if is_bin else 10, want),
                        "input": src, "implementation_value": shown})
    return out


def declaration_failures(binary, rows, units, reg):
    """the prefix kinds a unit accepts are DECLARED on the unit (@metric_prefixes / @binary_prefixes; the
    unit registry records them independently of the prefix parser): an identifier made of a prefix kind the
    declaration does not allow must not be read as that unit"""
    decl = {r["unit"]: (r["metric"], r["binary"]) for r in reg}
    cands = []
    for u in units:
        d = decl.get(u["full"])
        if d is None:
            continue
        for kind, allowed_decl, allowed_parser in (("metric", d[0], u["metric"]), ("binary", d[1], u["binary"])):
            if allowed_parser and not allowed_decl:
                for r in rows:
                    if r["metric"] != (kind == "metric"):
                        continue
                    if u["along"]:
                        cands.append((r["long"] + u["name"], u, r, kind))
                    if u["ashort"]:
                        cands.append((r["shorts"][0] + u["name"], u, r, kind))
    if not cands:
        return []
    cands = cands[:40]
    res = common.run_harness(binary, "prefix", ["R " + c[0].encode().hex() for c in cands], shards=1)
    out = []
    for (ident, u, r, kind), o in zip(cands, res):
        if o != "-" and bytes.fromhex(o.split(":")[3]).decode() == u["full"]:
            out.append({"kind": "combination the unit's declaration does not accept is read as that unit",
                        "identifier": ident, "unit": u["full"],
                        "declared": "no %s prefixes (unit registry metadata)" % kind, "resolved": o})
            if len(out) >= 3:
                break
    return out


def fmt_expected(e):
    return "-" if e is None else "%s:%d:%s:%s" % (e[0], e[1], e[2].encode().hex(), e[3].encode().hex())


def run(chk):
    binary, _ = common.build_harness()
    rows, units, others, reg, changed = translate(binary)
    proved = chk.prove("Props.C13", THEOREMS, ["theories/Props/C13.vo", "theories/Prefix/Exec.vo"])
    chk.trusted += [
        "model Prefix/Model.v is a hand port of numbat/src/prefix_parser.rs (parse, ensure_name_is_available, add_unit, add_other_identifier) and of Display for UnitFactor",
        "Gen/PrefixTables.v, Gen/PrefixPrelude.v: translator tools/props/c13.py from hook dumps of the running implementation",
        "registration order replayed as all units (IndexMap order) then all other identifiers",
    ]
    quick = chk.tier == "quick"
    rng = chk.rng
    accepted, rejected = combos(rows, units)
    corpus = json.load(open(common.VERIF + "/corpus/c13.json"))
    rnd = []
    alph = "abcdefghijklmnopqrstuvwxyzMGTkµμ_%°"
    names = [u["name"] for u in units]
    for _ in range(600 if quick else 6000):
        r = rng.random()
        if r < 0.4:
            rnd.append(rng.choice(rows)["long"][:rng.randrange(1, 5)] + rng.choice(names))
        elif r < 0.7:
            rnd.append(rng.choice(names) + rng.choice(names))
        else:
            rnd.append("".join(rng.choice(alph) for _ in range(rng.randrange(1, 9))))
    rej_sample = rejected if not quick else rng.sample(rejected, min(len(rejected), 4000))
    acc_sample = accepted if not quick else accepted      # complete in both tiers
    strings = [c["s"] for c in corpus] + [a[0] for a in acc_sample] + [a[0] for a in rej_sample] + rnd
    impl = common.run_harness(binary, "prefix", ["R " + s.encode().hex() for s in strings])

    # --- correspondence: the model's parse on the generated prelude state
    items = [("show_result (parse gen_table gen_state %s)" % cs(s), impl[n]) for n, s in enumerate(strings)]
    bad = common.coq_mismatches(["Prefix.Model", "Prefix.Exec", "Gen.PrefixTables", "Gen.PrefixPrelude"],
                                items, "c13", shard_size=700) if proved or os.path.exists(
        os.path.join(common.COQ, "theories/Gen/PrefixPrelude.vo")) else {}

    # --- oracle on the implementation
    failures = []
    off = len(corpus)
    seen = {}
    for n, (s, exp, tag) in enumerate(acc_sample):
        got = impl[off + n]
        if got != fmt_expected(exp):
            failures.append({"kind": "accepted combination does not resolve to its unit and prefix",
                             "identifier": s, "form": tag, "expected": fmt_expected(exp), "resolved": got})
        if s in seen and seen[s] != exp:
            failures.append({"kind": "identifier has two different readings", "identifier": s,
                             "reading_1": fmt_expected(seen[s]), "reading_2": fmt_expected(exp)})
        seen[s] = exp
    off += len(acc_sample)
    for n, (s, exp, tag) in enumerate(rej_sample):
        got = impl[off + n]
        if got == fmt_expected(exp) and s not in seen:
            failures.append({"kind": "combination the unit does not accept is read as that unit",
                             "identifier": s, "form": tag, "resolved": got})
    failures += standard_failures(binary, rows, units)
    failures += declaration_failures(binary, rows, units, reg)
    # read-back of displayed forms (complete when the proof no longer checks)
    complete_readback = (not quick) or (not proved)
    disp_cases = []
    for r_ in reg:
        if not (r_["metric"] or r_["binary"]):
            continue
        # only aliases the tokenizer reads as ONE identifier can be written with a prefix in
        # source text (e.g. `c″` is lexed as `c` `″`); the prefix parser itself is covered above
        al = [a for a in r_["aliases"] if a[0].isidentifier()] or \
             ([(r_["unit"], False, True)] if r_["unit"].isidentifier() else [])
        if not al:
            continue
        a = rng.choice(al)
        cand = [x for x in rows if (r_["metric"] if x["metric"] else r_["binary"])]
        for x in (cand if complete_readback else rng.sample(cand, min(3, len(cand)))):
            sp = x["long"] if a[2] else (x["shorts"][0] if a[1] else None)
            if sp is None:
                continue
            disp_cases.append((sp + a[0], ("M" if x["metric"] else "B", x["exp"]), r_["unit"]))
    dout = common.run_harness(binary, "prefix", ["D " + ("1 " + s).encode().hex() for s, _, _ in disp_cases])
    shown = []
    for (s, pe, unit), o in zip(disp_cases, dout):
        if not o.startswith("ok "):
            shown.append(None)
            continue
        txt = bytes.fromhex(o[3:]).decode()
        shown.append(txt.split(" ", 1)[1].strip() if " " in txt else None)
    rb = common.run_harness(binary, "prefix", ["R " + (t or "?").encode().hex() for t in shown])
    readback_ok = 0
    for (s, pe, unit), t, o in zip(disp_cases, shown, rb):
        if t is None:
            continue
        f = o.split(":")
        if o == "-" or (f[0], int(f[1])) != pe or bytes.fromhex(f[3]).decode() != unit:
            failures.append({"kind": "displayed prefixed unit does not read back as the same prefixed unit",
                             "input": "1 " + s, "displayed_unit": t, "resolved": o,
                             "expected": "%s:%d full=%s" % (pe[0], pe[1], unit)})
        else:
            readback_ok += 1

    for f in failures[:3]:
        f.setdefault("replay", "printf 'R %s\\n' | harness/target/debug/nbverif prefix" % f.get("identifier", f.get("displayed_unit", "")).encode().hex())
        chk.violation(f)
    if not failures and (bad or not proved):
        n = min(bad) if bad else None
        chk.violation({
            "kind": "proof, generated-table lemma or correspondence no longer checks",
            "theorem_or_correspondence": ("correspondence Prefix.Model.parse vs PrefixParser::parse" if bad
                                          else "Props/C13.v: " + getattr(chk, "proof_failure", "?")),
            "mismatching_cases": len(bad),
            "first_case": None if n is None else {"identifier": strings[n], "implementation": impl[n], "model": bad[n]},
        }, found_input=False)

    kinds = collections.Counter(tag for _, _, tag in acc_sample)
    chk.cov.update({
        "evaluations": len(strings) + len(disp_cases),
        "distinct_nontrivial": len(set(s for s, e, t in acc_sample if t != "plain")),
        "rule": "complete set of accepted (alias, prefix spelling) combinations of the prelude (exhaustive) + rejected combinations "
                "(wrong form / wrong kind; sampled in quick, complete in thorough) + random strings; non-trivial = distinct prefixed identifiers",
        "exhaustive": True,
        "accepted_combinations": len(accepted), "rejected_combinations_checked": len(rej_sample),
        "rejected_combinations_total": len(rejected), "random_strings": len(rnd),
        "units_in_parser": len(units), "other_identifiers": len(others), "registry_units": len(reg),
        "accepted_by_form": dict(kinds), "displayed_forms_read_back": readback_ok,
        "model_mismatches": len(bad), "tables_changed_this_run": changed,
        "samples": [{"identifier": strings[len(corpus) + 5], "implementation": impl[len(corpus) + 5]},
                    {"identifier": rnd[0], "implementation": impl[-len(rnd)]},
                    {"displayed": disp_cases[0][0], "shown_as": shown[0]}],
    })
    chk.assumptions += ["session = fresh Context after `use prelude`"]


def replay(path):
    r = json.load(open(path))
    print(json.dumps(r, indent=1, ensure_ascii=False))
    if "identifier" in r:
        binary, _ = common.build_harness()
        o = common.run_harness(binary, "prefix", ["R " + r["identifier"].encode().hex()], shards=1)[0]
        print("resolves now to:", o)
        return 0 if o == r.get("expected", o) else 1
    return 0
