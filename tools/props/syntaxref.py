"""Independent reference recogniser for the documented expression grammar: a precedence-climbing parser
driven by the table of book/src/basics/operations.md (levels as in Syntax/Grammar.v `lvl`).  It works on the
token dump of numbat::verif::syntax::dump_tokens and returns

    "OK <tree>"   the tree the documentation prescribes,
    "ERR"         the token sequence is not a sentence of the documented grammar,
    None          not decided here (lexical errors, several statements, statement syntax, interpolation).

It is written differently from both the Rust parser and the Coq model (one loop with binding levels instead
of one function per level) so that it can arbitrate between them."""
import re

from props import syntaxlib as L

SUPVAL = {0xB9: 1, 0xB2: 2, 0xB3: 3, 0x2074: 4, 0x2075: 5, 0x2076: 6, 0x2077: 7, 0x2078: 8, 0x2079: 9}
STATEMENT_START = {"Fn", "Dimension", "At", "Unit", "Use", "Struct"}
PROCEDURES = {"ProcedurePrint": "print", "ProcedureAssert": "assert", "ProcedureAssertEq": "assert_eq",
              "ProcedureType": "type"}


def unesc(s):
    return re.sub(r"\\u\{([0-9A-F]+)\}", lambda m: chr(int(m.group(1), 16)), s)


class Reject(Exception):
    pass


class Undecided(Exception):
    pass


class P:
    def __init__(self, toks):
        self.t = toks
        self.i = 0

    def peek(self):
        return self.t[self.i][0]

    def lex(self):
        return self.t[self.i][1]

    def next(self):
        k = self.t[self.i]
        if k[0] != "Eof":
            self.i += 1
        return k

    def expect(self, kind):
        if self.peek() != kind:
            raise Reject()
        return self.next()

    def primary(self):
        k, lx = self.next()
        if k == "Number":
            return "(num %s)" % lx.replace("_", "")
        if k.startswith("IntegerWithBase"):
            raw = unesc(lx).replace("_", "")
            if int(raw[2:], {"x": 16, "o": 8, "b": 2}[raw[1]]) >= 2 ** 127:
                raise Reject()
            return "(num %s)" % lx.replace("_", "")
        if k == "NaN":
            return "(num NaN)"
        if k == "Inf":
            return "(num inf)"
        if k == "QuestionMark":
            return "(hole)"
        if k == "True":
            return "(bool true)"
        if k == "False":
            return "(bool false)"
        if k == "StringFixed":
            body = L.unescape_numbat(unesc(lx)[1:-1])
            return '(str "%s")' % L.esc(body)
        if k.startswith("StringInterpolation"):
            raise Undecided()
        if k == "Identifier":
            if self.peek() == "LeftCurly":
                self.next()
                fields = []
                while self.peek() != "RightCurly":
                    f = self.expect("Identifier")[1]
                    self.expect("Colon")
                    fields.append("(%s %s)" % (f, self.expr(0)))
                    if self.peek() == "Comma":
                        self.next()
                    elif self.peek() != "RightCurly":
                        raise Reject()
                self.next()
                return "(struct %s%s)" % (lx, "".join(" " + f for f in fields))
            return "(id %s)" % lx
        if k == "LeftParen":
            e = self.expr(0)
            self.expect("RightParen")
            return e
        if k == "LeftBracket":
            els = []
            while self.peek() != "RightBracket":
                els.append(self.expr(0))
                if self.peek() == "Comma":
                    self.next()
                elif self.peek() != "RightBracket":
                    raise Reject()
            self.next()
            return "(list%s)" % "".join(" " + e for e in els)
        raise Reject()

    def expr(self, minl):
        k = self.peek()
        if k in ("Newline", "Semicolon"):
            raise Undecided()
        # prefix forms
        if k == "If" and minl <= 1:
            self.next()
            c = self.expr(2)
            self.expect("Then")
            t = self.expr(1)
            self.expect("Else")
            e = self.expr(1)
            left, cur = "(if %s %s %s)" % (c, t, e), 1
        elif k == "ExclamationMark" and minl <= 5:
            self.next()
            left, cur = "(not %s)" % self.expr(5), 5
        elif k == "Minus" and minl <= 10:
            self.next()
            left, cur = "(neg %s)" % self.expr(10), 10
        elif k == "Plus" and minl <= 10:
            self.next()
            left, cur = self.expr(10), 10
        else:
            left, cur = self.primary(), 16
        while True:
            k = self.peek()
            if k in ("Newline", "Semicolon"):
                raise Undecided()
            if k == "LeftParen" and cur >= 15:
                self.next()
                args = []
                while self.peek() != "RightParen":
                    args.append(self.expr(0))
                    if self.peek() == "Comma":
                        self.next()
                    elif self.peek() != "RightParen":
                        raise Reject()
                self.next()
                left, cur = "(call %s%s)" % (left, "".join(" " + a for a in args)), 15
            elif k == "Period" and cur >= 15:
                self.next()
                left, cur = "(field %s %s)" % (left, self.expect("Identifier")[1]), 15
            elif k == "UnicodeExponent" and cur >= 15 and minl <= 14:
                cps = [ord(c) for c in unesc(self.next()[1])]
                v = SUPVAL[cps[-1]] * (-1 if len(cps) == 2 else 1)
                left, cur = "(pow %s (num ^%d))" % (left, v), 14
            elif k == "ExclamationMark" and cur >= 14 and minl <= 13:
                n = 0
                while self.peek() == "ExclamationMark":
                    self.next()
                    n += 1
                left, cur = "(fact %d %s)" % (n, left), 13
            elif k == "Power" and cur >= 13 and minl <= 12:
                self.next()
                neg = self.peek() == "Minus"
                if neg:
                    self.next()
                r = self.expr(12)
                left, cur = "(pow %s %s)" % (left, "(neg %s)" % r if neg else r), 12
            elif k in ("Number", "Identifier", "LeftParen", "QuestionMark") and cur >= 11 and minl <= 11:
                left, cur = "(mul %s %s)" % (left, self.expr(12)), 11
            elif k in L.BINLEVEL and cur >= L.BINLEVEL[k] and minl <= L.BINLEVEL[k]:
                lv = L.BINLEVEL[k]
                self.next()
                left, cur = "(%s %s %s)" % (L.BINOP[k], left, self.expr(lv + 1)), lv
            elif k == "PostfixApply" and minl <= 0:
                self.next()
                f = self.expr(15)
                if f.startswith("(id "):
                    left = "(call %s %s)" % (f, left)
                elif f.startswith("(call "):
                    left = f[:-1] + " " + left + ")"
                else:
                    raise Reject()
                cur = 0
            else:
                return left


def decide(token_dump):
    if token_dump.startswith("ERR") or token_dump.startswith("PANIC") or not token_dump:
        return None
    toks = []
    for w in token_dump.split(" "):
        k, _, lx = w.partition(":")
        toks.append((k, lx))
    if not toks or toks[-1][0] != "Eof":
        return None
    kinds = [k for k, _ in toks]
    if len(toks) == 1:
        return "OK "
    if kinds[0] in STATEMENT_START or "Newline" in kinds or "Semicolon" in kinds:
        return None
    p = P(toks)
    try:
        if kinds[0] == "Let":
            # statement syntax of the model: let name = expression (type annotations are not decided here)
            p.next()
            if p.peek() != "Identifier":
                return "ERR"
            name = p.next()[1]
            if p.peek() == "Colon":
                return None
            if p.peek() != "Equal":
                return "ERR"
            p.next()
            e = "(let %s _ (decos) %s)" % (name, p.expr(0))
        elif kinds[0] in PROCEDURES:
            p.next()
            if p.peek() != "LeftParen":
                return "ERR"
            p.next()
            args = []
            while p.peek() != "RightParen":
                args.append(p.expr(0))
                if p.peek() == "Comma":
                    p.next()
                elif p.peek() != "RightParen":
                    raise Reject()
            p.next()
            e = "(%s%s)" % (PROCEDURES[kinds[0]], "".join(" " + a for a in args))
        else:
            e = p.expr(0)
        if p.peek() != "Eof":
            return "ERR"
        return "OK " + e
    except Reject:
        return "ERR"
    except Undecided:
        return None
    except RecursionError:
        return None
