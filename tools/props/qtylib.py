"""Shared machinery of the quantity checks C03 C04 C05 C11 C12 C21.

* unit table of the running implementation (harness `qty`, line `T`) -> Table
* translator: coq/theories/Gen/PreludeUnits.v (rewritten only when it changes)
* exact reference semantics in Python (Fractions): Table.scale / Table.dim
  -- this is the ORACLE ("dimensional analysis of the unit definitions"), it is
  independent of the Coq model and of the implementation's algorithms
* a float-exact replica of Quantity::convert_to (used only to make the
  known-finding matcher of C11 precise)
* builders for harness RPN lines and Coq case terms, observation parsing
"""
import math
import os
import struct
from fractions import Fraction

import common

GEN = os.path.join(common.COQ, "theories", "Gen")

# prefix spellings (numbat/src/prefix_parser.rs); only used to *write* source text,
# the implementation's own resolution is part of every comparison
METRIC_SHORT = {-30: "q", -27: "r", -24: "y", -21: "z", -18: "a", -15: "f", -12: "p", -9: "n", -6: "µ",
                -3: "m", -2: "c", -1: "d", 1: "da", 2: "h", 3: "k", 6: "M", 9: "G", 12: "T", 15: "P",
                18: "E", 21: "Z", 24: "Y", 27: "R", 30: "Q"}
METRIC_LONG = {-30: "quecto", -27: "ronto", -24: "yocto", -21: "zepto", -18: "atto", -15: "femto",
               -12: "pico", -9: "nano", -6: "micro", -3: "milli", -2: "centi", -1: "deci", 1: "deca",
               2: "hecto", 3: "kilo", 6: "mega", 9: "giga", 12: "tera", 15: "peta", 18: "exa",
               21: "zetta", 24: "yotta", 27: "ronna", 30: "quetta"}
BINARY_SHORT = {10: "Ki", 20: "Mi", 30: "Gi", 40: "Ti", 50: "Pi", 60: "Ei", 70: "Zi", 80: "Yi", 90: "Ri", 100: "Qi"}
BINARY_LONG = {10: "kibi", 20: "mebi", 30: "gibi", 40: "tebi", 50: "pebi", 60: "exbi", 70: "zebi",
               80: "yobi", 90: "robi", 100: "quebi"}


# ------------------------------------------------------------------ floats
def f2bits(x):
    return "%016x" % struct.unpack("<Q", struct.pack("<d", x))[0]


def bits2f(h):
    return struct.unpack("<d", struct.pack("<Q", int(h, 16)))[0]


def is_finite_bits(h):
    x = bits2f(h)
    return not (math.isnan(x) or math.isinf(x))


def coq_Q(fr):
    fr = Fraction(fr)
    return "(Qm (%d) %d)" % (fr.numerator, fr.denominator)


def show_qc(fr):
    fr = Fraction(fr)
    return "%d#%d" % (fr.numerator, fr.denominator)


def coq_fb(x):
    """Coq term (FloatExact.fb / constants) for the f64 x, exact"""
    if math.isnan(x):
        return "PrimFloat.nan"
    if math.isinf(x):
        return "PrimFloat.neg_infinity" if x < 0 else "PrimFloat.infinity"
    neg = math.copysign(1.0, x) < 0
    m, e = math.frexp(abs(x))
    mi = int(m * (1 << 53))
    return "(fb %d (%d) %s)" % (mi, e - 53, "true" if neg else "false")


def powi(x, n):
    """compiler-rt __powidf2 (what f64::powi lowers to)"""
    recip = n < 0
    n = abs(n)
    r = 1.0
    while True:
        if n & 1:
            r *= x
        n >>= 1
        if n == 0:
            break
        x *= x
    return 1.0 / r if recip else r


# ------------------------------------------------------------------ units
class Factor(tuple):
    """(name, pkind 'M'|'B', pexp, num, den)"""
    __slots__ = ()

    @property
    def name(self):
        return self[0]

    @property
    def exp(self):
        return Fraction(self[3], self[4])

    def prefix_value(self):
        return Fraction(10 if self[1] == "M" else 2) ** self[2]


def parse_unit(s):
    if s in ("-", ""):
        return []
    out = []
    for f in s.split(","):
        p = f.split("/")
        out.append(Factor((p[0], p[1], int(p[2]), int(p[3]), int(p[4]))))
    return out


def show_unit(u):
    if not u:
        return "-"
    return ",".join("%s/%s/%d/%d/%d" % tuple(f) for f in u)


def F(name, num=1, den=1, pkind="M", pexp=0):
    fr = Fraction(num, den)
    return Factor((name, pkind, pexp, fr.numerator, fr.denominator))


def upower(u, e):
    e = Fraction(e)
    out = []
    for f in u:
        x = f.exp * e
        out.append(Factor((f[0], f[1], f[2], x.numerator, x.denominator)))
    return out


class Row:
    pass


class Table:
    def __init__(self, dump):
        rows = {}
        for item in dump.split(";"):
            p = item.split("|")
            if len(p) != 9:
                raise common.Broken("unit table row not understood: %r" % item[:120])
            r = Row()
            r.name, r.canon = p[0], p[1]
            r.short, r.metric, r.binary, r.abbrev = (x == "1" for x in p[2:6])
            r.aliases = []
            for a in p[6].split(","):
                if a:
                    nm, sh, lg = a.rsplit(":", 2)
                    r.aliases.append((nm, sh == "1", lg == "1"))
            if p[7] == "B":
                r.base, r.bits, r.defn = True, None, []
            else:
                _, bits, fl = p[7].split(":", 2)
                r.base, r.bits, r.defn = False, bits, parse_unit(fl)
            r.embedded_ok = p[8] == "1"
            rows[r.name] = r
        # exactness: all exponents of the definition are integers, transitively
        exact = {}

        def is_exact(n, stack=()):
            if n in exact:
                return exact[n]
            if n in stack:
                raise common.Broken("cyclic unit definition through %s" % n)
            r = rows[n]
            ok = all(f[4] == 1 and is_exact(f.name, stack + (n,)) for f in r.defn)
            exact[n] = ok
            return ok

        for n in rows:
            is_exact(n)
        # topological order, exact rows first (so the exact scope is a prefix of the table)
        order, seen = [], set()

        def visit(n):
            if n in seen:
                return
            seen.add(n)
            for f in rows[n].defn:
                visit(f.name)
            order.append(n)

        for n in sorted(rows):
            if exact[n]:
                visit(n)
        self.n_exact = len(order)
        for n in sorted(rows):
            visit(n)
        self.rows = [rows[n] for n in order]
        self.index = {r.name: i for i, r in enumerate(self.rows)}
        self.by_name = rows
        for r in self.rows:
            r.exact = exact[r.name]
        # reference semantics
        self._scale, self._dim, self._fscale = {}, {}, {}
        for r in self.rows:
            if r.base:
                self._scale[r.name] = Fraction(1)
                self._dim[r.name] = {r.name: Fraction(1)}
                self._fscale[r.name] = 1.0
                continue
            d = {}
            for f in r.defn:
                for b, e in self._dim[f.name].items():
                    d[b] = d.get(b, 0) + e * f.exp
            self._dim[r.name] = {b: e for b, e in d.items() if e != 0}
            fs = bits2f(r.bits)
            for f in r.defn:
                fs *= math.pow(float(f.prefix_value()) * self._fscale[f.name], float(f.exp))
            self._fscale[r.name] = fs
            if r.exact:
                s = Fraction(bits2f(r.bits))
                for f in r.defn:
                    s *= (f.prefix_value() * self._scale[f.name]) ** int(f.exp)
                self._scale[r.name] = s
        # alias -> row
        self.alias = {}
        for r in self.rows:
            for (a, sh, lg) in r.aliases:
                self.alias[a] = (r, sh, lg)

    # ---- exact reference ("dimensional analysis of the definitions")
    def exact_unit(self, u):
        return all(f[4] == 1 and self.by_name[f.name].exact for f in u)

    def scale(self, u):
        s = Fraction(1)
        for f in u:
            s *= (f.prefix_value() * self._scale[f.name]) ** int(f.exp)
        return s

    def fscale(self, u):
        s = 1.0
        for f in u:
            s *= math.pow(float(f.prefix_value()) * self._fscale[f.name], float(f.exp))
        return s

    def dim(self, u):
        d = {}
        for f in u:
            for b, e in self._dim[f.name].items():
                d[b] = d.get(b, 0) + e * f.exp
        return {b: e for b, e in d.items() if e != 0}

    def dimkey(self, u):
        return tuple(sorted(self.dim(u).items()))

    # ---- Coq syntax
    def coq_factor(self, f):
        return "F %d (%s (%d)) (%d) %d" % (self.index[f.name], "Metric" if f[1] == "M" else "Binary",
                                           f[2], f[3], f[4])

    def coq_unit(self, u):
        return "[" + "; ".join(self.coq_factor(f) for f in u) + "]"

    def coq_q(self, bits, u):
        return "(QL %s %s)" % (coq_Q(bits2f(bits)), self.coq_unit(u))

    def coq_qF(self, bits, u):
        x = bits2f(bits)
        return "(qnew %s %s)" % (coq_fb(x), self.coq_unitF(u))

    def coq_unitF(self, u):
        return self.coq_unit(u)

    def float_supported(self, name, _memo={}):
        """the f64 replica inside Coq (Qty/FloatExact.v) covers this unit: every power met while resolving it
        is pow(x,1), pow(x,0) or pow(1,y)"""
        key = (id(self), name)
        if key in _memo:
            return _memo[key]
        r = self.by_name[name]
        ok = True
        for f in r.defn:
            if not self.float_supported(f.name):
                ok = False
                break
            base = (powi(10.0, f[2]) if f[1] == "M" else powi(2.0, f[2])) * f_base_factor(self, f.name)
            if not (f.exp == 1 or f.exp == 0 or base == 1.0):
                ok = False
                break
        _memo[key] = ok
        return ok

    def float_unit_supported(self, u):
        for f in u:
            if not self.float_supported(f.name):
                return False
            base = (powi(10.0, f[2]) if f[1] == "M" else powi(2.0, f[2])) * f_base_factor(self, f.name)
            if not (f.exp == 1 or f.exp == 0 or base == 1.0):
                return False
        return True

    def gen_vF(self):
        out = ["(* GENERATED by tools/props/qtylib.py: the unit table with its f64 conversion factors as kernel floats. Do not edit. *)",
               "From Coq Require Import List ZArith QArith Qcanon String.",
               "From NV Require Import Qty.Model Qty.FloatExact.",
               "Import ListNotations.",
               "Open Scope string_scope.",
               "",
               "Definition prelude_tblF : table float := ["]
        lines = []
        for r in self.rows:
            if r.base:
                k = "Base"
            else:
                fs = "; ".join("mkF %d (%s (%d)) (Q2Qc (Qmake (%d) %d))" % (
                    self.index[f.name], "Metric" if f[1] == "M" else "Binary", f[2], f[3], f[4]) for f in r.defn)
                k = "(Derived %s [%s])" % (coq_fb(bits2f(r.bits)), fs)
            lines.append("  mkRow %s %s" % (common.coq_string(r.name), k))
        out.append(";\n".join(lines))
        out.append("]%list.")
        return "\n".join(out) + "\n"

    def gen_vD(self):
        lines = ["(* GENERATED by tools/props/qtylib.py: canonical display name and short-prefix flag of every unit, in table order. Do not edit. *)",
                 "From Coq Require Import List String.", "Import ListNotations.", "Open Scope string_scope.", "",
                 "Definition prelude_display : list (string * bool) := ["]
        lines.append(";\n".join("  (%s, %s)" % (common.coq_string(r.canon), "true" if r.short else "false") for r in self.rows))
        lines.append("]%list.")
        return "\n".join(lines) + "\n"

    def gen_v(self):
        out = ["(* GENERATED by tools/props/qtylib.py from the unit table of the running implementation",
               "   (harness `qty`, line T: numbat::verif::qty hooks after `use prelude`). Do not edit. *)",
               "From Coq Require Import List ZArith QArith Qcanon String.",
               "From NV Require Import Qty.Model.",
               "Import ListNotations.",
               "Open Scope string_scope.",
               "",
               "Definition prelude_tbl : table Qc := ["]
        lines = []
        for r in self.rows:
            if r.base:
                k = "Base"
            else:
                fs = "; ".join("mkF %d (%s (%d)) (Q2Qc (%d # %d))" % (
                    self.index[f.name], "Metric" if f[1] == "M" else "Binary", f[2], f[3], f[4])
                    for f in r.defn)
                k = "(Derived (Q2Qc %s) [%s])" % (coq_Q(bits2f(r.bits)).replace("(Qm ", "(Qmake "), fs)
            lines.append("  mkRow %s %s" % (common.coq_string(r.name), k))
        out.append(";\n".join(lines))
        out.append("]%list.")
        out.append("")
        out.append("(* rows below this index have integer exponents only (transitively) *)")
        out.append("Definition prelude_n_exact : nat := %d." % self.n_exact)
        out.append("Definition prelude_embedded_ok : bool := %s." % (
            "true" if all(r.embedded_ok for r in self.rows) else "false"))
        return "\n".join(out) + "\n"


def write_if_changed(path, content):
    os.makedirs(os.path.dirname(path), exist_ok=True)
    old = open(path).read() if os.path.exists(path) else None
    if old != content:
        with open(path, "w") as f:
            f.write(content)
        return True
    return False


_session = {}


def session():
    """build the harness, dump the table, regenerate Gen/PreludeUnits.v"""
    if _session:
        return _session["binary"], _session["table"]
    binary, _ = common.build_harness()
    out = common.run_harness(binary, "qty", ["T"], shards=1)[0]
    if out.startswith("@@") or "|" not in out:
        raise common.Broken("unit table dump failed: %r" % out[:200])
    tbl = Table(out)
    write_if_changed(os.path.join(GEN, "PreludeUnits.v"), tbl.gen_v())
    write_if_changed(os.path.join(GEN, "PreludeUnitsF.v"), tbl.gen_vF())
    write_if_changed(os.path.join(GEN, "PreludeDisplay.v"), tbl.gen_vD())
    _session.update(binary=binary, table=tbl)
    return binary, tbl


# ------------------------------------------------------------------ observations
class Obs:
    """parsed harness observation"""

    def __init__(self, line):
        self.raw = line
        self.kind = None
        core = line.split("\t")[0]
        self.extra = line.split("\t")[1:]
        if core.startswith("V:"):
            core = core[2:]
        if core.startswith("Q:"):
            body, _, disp = core.partition("|")
            p = body.split(":")
            self.kind = "Q"
            self.bits, self.unit = p[1], parse_unit(p[2])
            self.simp = p[3]
            self.target = None
            if p[4] != "-":
                tb, tu = p[4].split("=", 1)
                self.target = (tb, parse_unit(tu))
            self.display = disp
        elif core.startswith("B:"):
            self.kind, self.b = "B", core[2:] == "1"
        elif core.startswith("C:"):
            self.kind, self.c = "C", core[2:]
        elif core.startswith("E:"):
            self.kind, self.err = "E", core[2:].split(" ")[0]
        elif core == "P" or core.startswith("@@"):
            self.kind = "P"
        elif core == "-":
            self.kind = "-"
        else:
            self.kind, self.other = "O", core

    @property
    def value(self):
        return bits2f(self.bits)

    def finite(self):
        return self.kind == "Q" and is_finite_bits(self.bits)

    def expected_model_string(self):
        """what the Coq printer must produce if model and implementation agree"""
        if self.kind == "Q":
            t = "-"
            if self.target:
                t = show_qc(Fraction(bits2f(self.target[0]))) + "=" + show_unit(self.target[1])
            return "ok:%s:%s:%s" % (show_unit(self.unit), self.simp, t)
        if self.kind == "B":
            return "B:%d" % self.b
        if self.kind == "C":
            return "C:" + self.c
        if self.kind == "E":
            return "E:" + self.err
        if self.kind == "P":
            return "P"
        return self.raw


def rpn_q(bits, u):
    return "q:%s:%s" % (bits, show_unit(u))


# ------------------------------------------------------------------ display of units (unit.rs / product.rs)
SUP = str.maketrans("-0123456789", "⁻⁰¹²³⁴⁵⁶⁷⁸⁹")


def display_factor(tbl, f, invert=False):
    r = tbl.by_name[f.name]
    if f[1] == "M":
        pre = "" if f[2] == 0 else (METRIC_SHORT if r.short else METRIC_LONG).get(f[2], "<prefix 10^%d>" % f[2])
    else:
        pre = "" if f[2] == 0 else (BINARY_SHORT if r.short else BINARY_LONG).get(f[2], "<prefix 2^%d>" % f[2])
    e = -f.exp if invert else f.exp
    if e.denominator != 1:
        es = "^(%d/%d)" % (e.numerator, e.denominator)
    elif e == 1:
        es = ""
    else:
        es = str(e.numerator).translate(SUP)
    return pre + r.canon + es


def display_unit(tbl, u):
    pos = [f for f in u if f.exp > 0]
    neg = [f for f in u if not f.exp > 0]
    if not pos and not neg:
        return ""
    if not pos:
        return "·".join(display_factor(tbl, f) for f in neg)
    s = "·".join(display_factor(tbl, f) for f in pos)
    if not neg:
        return s
    if len(neg) == 1:
        return s + "/" + display_factor(tbl, neg[0], True)
    return s + "/(" + "·".join(display_factor(tbl, f, True) for f in neg) + ")"


# ------------------------------------------------------------------ float-exact replica of convert_to
def f_to_base_factor(tbl, u):
    """Unit::to_base_unit_representation().1 in f64, same operation order"""
    factor = 1.0
    for f in u:
        base = powi(10.0, f[2]) if f[1] == "M" else powi(2.0, f[2])
        factor = factor * math.pow(base * f_base_factor(tbl, f.name), float(f.exp))
    return factor


_fbf = {}


def f_base_factor(tbl, name):
    """UnitIdentifier::base_unit_and_factor().1 in f64, same operation order"""
    key = (id(tbl), name)
    if key in _fbf:
        return _fbf[key]
    r = tbl.by_name[name]
    if r.base:
        v = 1.0
    else:
        prod = 1.0
        for f in r.defn:
            base = powi(10.0, f[2]) if f[1] == "M" else powi(2.0, f[2])
            prod = prod * math.pow(base * f_base_factor(tbl, f.name), float(f.exp))
        v = bits2f(r.bits) * prod
    _fbf[key] = v
    return v


# ------------------------------------------------------------------ expression trees
# tree := ("lit", bits, unit) | ("add"|"sub"|"mul"|"div", a, b) | ("neg", a) | ("pow", a, n) | ("conv", a, unit)
def tree_rpn(t):
    k = t[0]
    if k == "lit":
        return rpn_q(t[1], t[2])
    if k in ("add", "sub", "mul", "div"):
        return "%s %s %s" % (tree_rpn(t[1]), tree_rpn(t[2]), k)
    if k == "neg":
        return tree_rpn(t[1]) + " neg"
    if k == "pow":
        return "%s pow:%d" % (tree_rpn(t[1]), t[2])
    if k == "conv":
        return "%s %s conv" % (tree_rpn(t[1]), rpn_q(f2bits(1.0), t[2]))
    raise ValueError(k)


def tree_coq(tbl, t):
    k = t[0]
    if k == "lit":
        return "(L %s %s)" % (coq_Q(bits2f(t[1])), tbl.coq_unit(t[2]))
    if k in ("add", "sub", "mul", "div"):
        return "(E%s %s %s)" % (k.capitalize(), tree_coq(tbl, t[1]), tree_coq(tbl, t[2]))
    if k == "neg":
        return "(ENeg %s)" % tree_coq(tbl, t[1])
    if k == "pow":
        return "(EPow %s (%d))" % (tree_coq(tbl, t[1]), t[2])
    if k == "conv":
        return "(EConv %s %s)" % (tree_coq(tbl, t[1]), tbl.coq_unit(t[2]))
    raise ValueError(k)


def spell_factor(tbl, f, rng=None):
    """source spelling of one factor: an alias of the unit with a prefix spelling it accepts"""
    r = tbl.by_name[f.name]
    cands = []
    for (a, sh, lg) in r.aliases:
        if f[2] == 0:
            cands.append(a)
            continue
        if f[1] == "M" and r.metric:
            if sh and f[2] in METRIC_SHORT:
                cands.append(METRIC_SHORT[f[2]] + a)
            if lg and f[2] in METRIC_LONG:
                cands.append(METRIC_LONG[f[2]] + a)
        if f[1] == "B" and r.binary:
            if sh and f[2] in BINARY_SHORT:
                cands.append(BINARY_SHORT[f[2]] + a)
            if lg and f[2] in BINARY_LONG:
                cands.append(BINARY_LONG[f[2]] + a)
    cands = [c for c in cands if c.isidentifier()]   # symbol aliases (%, °, ″ ...) are C13's business
    if not cands:
        return None
    name = rng.choice(cands) if rng else cands[0]
    if f.exp == 1:
        return name
    if f[4] == 1:
        return "%s^(%d)" % (name, f[3])
    return "%s^(%d/%d)" % (name, f[3], f[4])


def spell_unit(tbl, u, rng=None):
    parts = [spell_factor(tbl, f, rng) for f in u]
    if any(p is None for p in parts):
        return None
    return " * ".join(parts)


def tree_src(tbl, t, rng=None):
    k = t[0]
    if k == "lit":
        v = bits2f(t[1])
        lit = repr(v)
        if lit.endswith(".0"):
            lit = lit[:-2]
        if lit.startswith("-"):
            lit = "(%s)" % lit
        if not t[2]:
            return "(%s)" % lit if not lit.startswith("(") else lit
        us = spell_unit(tbl, t[2], rng)
        if us is None:
            return None
        return "(%s * %s)" % (lit, us)
    if k in ("add", "sub", "mul", "div"):
        a, b = tree_src(tbl, t[1], rng), tree_src(tbl, t[2], rng)
        if a is None or b is None:
            return None
        return "(%s %s %s)" % (a, {"add": "+", "sub": "-", "mul": "*", "div": "/"}[k], b)
    if k == "neg":
        a = tree_src(tbl, t[1], rng)
        return None if a is None else "(-%s)" % a
    if k == "pow":
        a = tree_src(tbl, t[1], rng)
        return None if a is None else "(%s^(%d))" % (a, t[2])
    if k == "conv":
        a = tree_src(tbl, t[1], rng)
        us = spell_unit(tbl, t[2], rng) if t[2] else "1"
        if a is None or us is None:
            return None
        return "(%s -> (%s))" % (a, us)
    raise ValueError(k)


class EvalErr(Exception):
    pass


def tree_exact(tbl, t):
    """reference semantics: (value in base units, dimension dict, magnitude bound) by exact
    dimensional arithmetic from the definitions; EvalErr('incompat'|'divzero')"""
    k = t[0]
    if k == "lit":
        v = Fraction(bits2f(t[1])) * tbl.scale(t[2])
        return v, tbl.dim(t[2]), abs(v)
    if k in ("add", "sub"):
        (a, da, ma), (b, db, mb) = tree_exact(tbl, t[1]), tree_exact(tbl, t[2])
        if da != db and a != 0 and b != 0:
            raise EvalErr("incompat")
        d = db if a == 0 else da
        return (a + b if k == "add" else a - b), d, ma + mb
    if k == "mul":
        (a, da, ma), (b, db, mb) = tree_exact(tbl, t[1]), tree_exact(tbl, t[2])
        d = dict(da)
        for x, e in db.items():
            d[x] = d.get(x, 0) + e
        return a * b, {x: e for x, e in d.items() if e != 0}, ma * mb
    if k == "div":
        (a, da, ma), (b, db, mb) = tree_exact(tbl, t[1]), tree_exact(tbl, t[2])
        if b == 0:
            raise EvalErr("divzero")
        d = dict(da)
        for x, e in db.items():
            d[x] = d.get(x, 0) - e
        # magnitude bound of a quotient: |a|-bound over |b| exact (b has no cancellation bound below)
        return a / b, {x: e for x, e in d.items() if e != 0}, ma / abs(b) * (mb / abs(b))
    if k == "neg":
        a, da, ma = tree_exact(tbl, t[1])
        return -a, da, ma
    if k == "pow":
        a, da, ma = tree_exact(tbl, t[1])
        n = t[2]
        if a == 0 and n < 0:
            raise EvalErr("divzero")
        if n >= 0:
            return a ** n, {x: e * n for x, e in da.items() if e * n != 0}, ma ** n
        return a ** n, {x: e * n for x, e in da.items() if e * n != 0}, (ma / abs(a)) ** (-n) * abs(a) ** n
    if k == "conv":
        a, da, ma = tree_exact(tbl, t[1])
        if a != 0 and da != tbl.dim(t[2]):
            raise EvalErr("incompat")
        return a, tbl.dim(t[2]), ma
    raise ValueError(k)


def log_budget(tbl, t):
    """upper bound of |log10| of any intermediate magnitude the implementation can meet:
    sum over the leaves of |log10 value| + |log10 unit scale|, multiplied through powers"""
    k = t[0]
    if k == "lit":
        v = abs(bits2f(t[1]))
        b = abs(math.log10(v)) if v not in (0.0,) and not math.isinf(v) else 0.0
        sc = tbl.scale(t[2])
        b += abs(math.log10(sc.numerator) - math.log10(sc.denominator))
        # prefixes and defining factors met one by one inside to_base_unit_representation
        for f in t[2]:
            b += abs(float(f.exp)) * abs(math.log10(float(f.prefix_value()))) * 0.0
        return b
    if k in ("add", "sub", "mul", "div"):
        return log_budget(tbl, t[1]) + log_budget(tbl, t[2])
    if k == "neg":
        return log_budget(tbl, t[1])
    if k == "pow":
        return max(1, abs(t[2])) * log_budget(tbl, t[1])
    sc = tbl.scale(t[2])
    return log_budget(tbl, t[1]) + abs(math.log10(sc.numerator) - math.log10(sc.denominator))


def range_risk(tbl, t, budget=220.0):
    """f64 under/overflow of an intermediate result is possible: the case is not judged"""
    try:
        return log_budget(tbl, t) > budget
    except KeyError:
        return True


def tree_units(t):
    k = t[0]
    if k == "lit":
        return [t[2]]
    if k in ("add", "sub", "mul", "div"):
        return tree_units(t[1]) + tree_units(t[2])
    if k in ("neg", "pow"):
        return tree_units(t[1])
    return [t[2]] + tree_units(t[1])


def tree_size(t):
    k = t[0]
    if k == "lit":
        return 1
    if k in ("add", "sub", "mul", "div"):
        return 1 + tree_size(t[1]) + tree_size(t[2])
    return 1 + tree_size(t[1])


def tree_shape(t):
    k = t[0]
    if k == "lit":
        return "L%d" % len(t[2])
    if k in ("add", "sub", "mul", "div"):
        return "%s(%s,%s)" % (k, tree_shape(t[1]), tree_shape(t[2]))
    if k == "pow":
        return "pow%d(%s)" % (t[2], tree_shape(t[1]))
    return "%s(%s)" % (k, tree_shape(t[1]))


# ------------------------------------------------------------------ generators
def accepted_prefixes(r):
    out = [("M", 0)]
    short = any(sh for (_, sh, _) in r.aliases)
    lng = any(lg for (_, _, lg) in r.aliases)
    if r.metric:
        for e in METRIC_SHORT:
            if short or lng:
                out.append(("M", e))
    if r.binary:
        for e in BINARY_SHORT:
            out.append(("B", e))
    return out


def rand_magnitude(rng, zero_p=0.08):
    r = rng.random()
    if r < zero_p:
        return 0.0
    if r < 0.25:
        v = float(rng.randint(1, 12))
    elif r < 0.80:
        v = rng.uniform(0.1, 1000.0)
    elif r < 0.92:
        v = rng.uniform(1.0, 10.0) * 10.0 ** rng.randint(-9, 9)
    else:
        v = rng.uniform(1.0, 10.0) * 10.0 ** rng.randint(-30, 30)
    if rng.random() < 0.2:
        v = -v
    return v


def rand_factor(rng, tbl, names, prefix_p=0.5):
    n = rng.choice(names)
    r = tbl.by_name[n]
    pk, pe = "M", 0
    if rng.random() < prefix_p:
        pk, pe = rng.choice(accepted_prefixes(r))
    return n, pk, pe


def rand_unit(rng, tbl, names, maxf=3, prefix_p=0.5):
    k = rng.choice([1, 1, 1, 2, 2, 3][:maxf + 3]) if maxf >= 3 else rng.randint(1, maxf)
    u = []
    for _ in range(k):
        n, pk, pe = rand_factor(rng, tbl, names, prefix_p)
        e = rng.choice([1, 1, 1, 1, -1, -1, 2, 2, -2, 3])
        u.append(Factor((n, pk, pe, e, 1)))
    return u


class Gen:
    """seeded generator of dimensionally well-formed (and deliberately malformed) trees"""

    def __init__(self, rng, tbl, exact_only=True):
        self.rng, self.tbl = rng, tbl
        self.names = [r.name for r in tbl.rows if r.exact or not exact_only]
        self.groups = {}
        for n in self.names:
            self.groups.setdefault(tbl.dimkey([F(n)]), []).append(n)
        self.single = {}   # base name -> units whose dimension is exactly that base^1
        for k, g in self.groups.items():
            if len(k) == 1 and k[0][1] == 1:
                self.single[k[0][0]] = g
        self.used_units, self.used_prefixes = set(), set()
        self._cycle = []

    def next_unit_name(self):
        """cycles through all units so that every unit is used at least once per run"""
        if not self._cycle:
            self._cycle = list(self.names)
            self.rng.shuffle(self._cycle)
        return self._cycle.pop()

    def factor(self, name=None, exp=1, prefix_p=0.4):
        name = name or self.next_unit_name()
        r = self.tbl.by_name[name]
        pk, pe = "M", 0
        if self.rng.random() < prefix_p:
            pk, pe = self.rng.choice(accepted_prefixes(r))
        self.used_units.add(name)
        self.used_prefixes.add((pk, pe))
        fr = Fraction(exp)
        return Factor((name, pk, pe, fr.numerator, fr.denominator))

    def unit(self, maxf=3):
        k = self.rng.choice([1, 1, 1, 2, 2, 3]) if maxf >= 3 else self.rng.randint(1, maxf)
        return [self.factor(exp=self.rng.choice([1, 1, 1, 1, -1, -1, 2, 2, -2, 3])) for _ in range(k)]

    def unit_of_dim(self, d):
        """a unit with dimension dict d, spelled with random same-dimension units"""
        key = tuple(sorted(d.items()))
        if key in self.groups and self.rng.random() < 0.6:
            return [self.factor(self.rng.choice(self.groups[key]))]
        u = []
        for b, e in sorted(d.items()):
            if e.denominator != 1:
                return None
            u.append(self.factor(self.rng.choice(self.single.get(b, [b])), exp=e))
        self.rng.shuffle(u)
        return u

    def registry_product(self, max_log=45.0):
        """a unit with >= 2 factors, a prefix on (almost) every factor drawn from the whole q..Q range, whose
        dimension is that of some table unit (a candidate of the registry-based simplification); the total
        factor to base units spans many orders of magnitude"""
        rng = self.rng
        for _ in range(50):
            target = rng.choice(self.names)
            d = self.tbl.dim([F(target)])
            if not d:
                continue
            a = self.factor(prefix_p=0.9, exp=rng.choice([1, 1, 1, -1, 2]))
            rest = dict(d)
            for b, e in self.tbl.dim([a]).items():
                rest[b] = rest.get(b, 0) - e
            rest = {b: e for b, e in rest.items() if e != 0}
            if not rest or any(e.denominator != 1 for e in rest.values()):
                continue
            u = [a]
            if rng.random() < 0.5:
                key = tuple(sorted(rest.items()))
                if key in self.groups:
                    u.append(self.factor(rng.choice(self.groups[key]), prefix_p=0.9))
                    rest = {}
            for b, e in sorted(rest.items()):
                u.append(self.factor(rng.choice(self.single.get(b, [b])), exp=e, prefix_p=0.9))
            sc = self.tbl.scale(u)
            if abs(math.log10(sc.numerator) - math.log10(sc.denominator)) > max_log:
                continue
            rng.shuffle(u)
            return u
        return None

    def lit(self, u=None, zero_p=0.08):
        return ("lit", f2bits(rand_magnitude(self.rng, zero_p)), self.unit() if u is None else u)

    def tree(self, depth):
        """returns (tree, dim dict)"""
        rng = self.rng
        if depth <= 0 or rng.random() < 0.15:
            t = self.lit()
            return t, self.tbl.dim(t[2])
        op = rng.choice(["add", "add", "sub", "sub", "mul", "mul", "div", "pow", "neg", "conv", "conv"])
        if op in ("mul", "div"):
            (a, da), (b, db) = self.tree(depth - 1), self.tree(depth - 1)
            if op == "div" and b[0] == "lit" and bits2f(b[1]) == 0.0:
                b = ("lit", f2bits(2.0), b[2])
            d = dict(da)
            for x, e in db.items():
                d[x] = d.get(x, 0) + (e if op == "mul" else -e)
            return (op, a, b), {x: e for x, e in d.items() if e != 0}
        if op == "neg":
            a, da = self.tree(depth - 1)
            return ("neg", a), da
        if op == "pow":
            a, da = self.tree(depth - 1)
            n = rng.choice([2, 2, 3, -1, -2, 0, 1])
            return ("pow", a, n), {x: e * n for x, e in da.items() if e * n != 0}
        if op == "conv":
            a, da = self.tree(depth - 1)
            u = self.unit_of_dim(da)
            if u is None:
                return a, da
            return ("conv", a, u), da
        a, da = self.tree(depth - 1)
        if rng.random() < 0.6:
            u = self.unit_of_dim(da)
            if u is None:
                return a, da
            b = self.lit(u)
        else:
            b0, db0 = self.tree(depth - 2)
            d = dict(da)
            for x, e in db0.items():
                d[x] = d.get(x, 0) - e
            u = self.unit_of_dim({x: e for x, e in d.items() if e != 0})
            if u is None:
                return a, da
            b = ("mul", b0, self.lit(u, zero_p=0.0))
        return (op, a, b), da

    def malformed(self, depth):
        """trees with one deliberate defect: dimension mismatch, division by zero, 0^-n"""
        rng = self.rng
        a, da = self.tree(depth - 1)
        kind = rng.choice(["mismatch_add", "mismatch_conv", "divzero", "zeropow"])
        if kind == "mismatch_add":
            b, db = self.tree(depth - 1)
            return (rng.choice(["add", "sub"]), a, b)
        if kind == "mismatch_conv":
            return ("conv", a, self.unit())
        if kind == "divzero":
            return ("div", a, ("lit", f2bits(0.0), self.unit()))
        return ("pow", ("lit", f2bits(0.0), self.unit()), rng.choice([-1, -2]))


def subtrees(t):
    out = []
    k = t[0]
    if k in ("add", "sub", "mul", "div"):
        out += [t[1], t[2]] + subtrees(t[1]) + subtrees(t[2])
    elif k in ("neg", "pow", "conv"):
        out += [t[1]] + subtrees(t[1])
    return out


def shrink_tree(t, fails):
    """greedy: replace the tree by a smaller failing subtree while one exists"""
    cur = t
    improved = True
    while improved:
        improved = False
        for s in sorted(subtrees(cur), key=tree_size):
            if tree_size(s) < tree_size(cur) and fails(s):
                cur, improved = s, True
                break
    return cur


def check_tree_against_exact(tbl, t, ob, rel):
    """the property C03 on one implementation observation; returns None if it holds,
    else a description.  ob: Obs of the implementation's (raw) result."""
    try:
        x, d, mag = tree_exact(tbl, t)
        expect_err = None
    except EvalErr as e:
        expect_err = str(e)
    if expect_err:
        if ob.kind == "E" and ob.err == expect_err:
            return None
        if ob.kind == "E":
            return "implementation error %s, exact dimensional arithmetic gives error %s" % (ob.err, expect_err)
        if expect_err == "incompat":
            return "implementation produced %s for a dimensionally inconsistent expression" % ob.raw[:80]
        return "implementation produced %s, exact arithmetic has a %s" % (ob.raw[:80], expect_err)
    if ob.kind == "P":
        return "implementation panicked"
    if ob.kind == "E":
        return "implementation error %s, exact dimensional arithmetic gives %s (base units)" % (ob.err, float(x))
    if ob.kind != "Q":
        return "unexpected observation %s" % ob.raw[:80]
    if not ob.finite():
        return None          # outside the f64 range: not judged
    if not tbl.exact_unit(ob.unit):
        return None
    got = Fraction(ob.value) * tbl.scale(ob.unit)
    if abs(got - x) > Fraction(rel) * mag:
        return "value in base units %r, exact dimensional arithmetic gives %r (relative tolerance %g on magnitude %g)" % (
            float(got), float(x), rel, float(mag))
    if x != 0 and tbl.dim(ob.unit) != d:
        return "result unit %s has dimension %s, expected %s" % (show_unit(ob.unit), tbl.dim(ob.unit), d)
    return None


def abs_tol(tbl, t, unit, rel):
    """absolute tolerance in the given (result) unit"""
    try:
        x, d, mag = tree_exact(tbl, t)
    except EvalErr:
        return Fraction(0)
    return Fraction(rel) * mag / tbl.scale(unit)


def obs_of_src(line):
    """S@name lines: the observation of the raw global, or the error"""
    parts = line.split("\t")
    for p in parts[1:]:
        if p.startswith("g:") and p != "g:-":
            return Obs(p[2:])
    return Obs(parts[0])


IMPORTS = ["Qty.Prelude", "Qty.PreludeF", "Qty.DisplayExec"]


def known_match(pid, pred):
    """open findings of property pid whose matcher accepts (pred(finding) -> bool)"""
    for f in common.load_known():
        if f.get("property") == pid and f.get("status") == "open" and pred(f):
            return f
    return None


def coq_mismatches(items, tag, shard_size=150, timeout=900):
    """common.coq_mismatches with one retry of the whole batch at lower parallelism when a coqc
    process dies without a message (memory pressure on a shared machine)"""
    try:
        return common.coq_mismatches(IMPORTS, items, tag, shard_size=shard_size, timeout=timeout)
    except common.Broken as e:
        if "Error" in str(e):
            raise
        saved = common.NPROC
        common.NPROC = max(2, saved // 4)
        try:
            return common.coq_mismatches(IMPORTS, items, tag + "r", shard_size=shard_size, timeout=timeout)
        finally:
            common.NPROC = saved


# ------------------------------------------------------------------ unit pairs
def dim_groups(tbl, exact_only=False):
    groups = {}
    for r in tbl.rows:
        if exact_only and not r.exact:
            continue
        groups.setdefault(tbl.dimkey([F(r.name)]), []).append(r.name)
    return groups


def ordered_pairs(tbl, exact_only=False):
    """every ordered pair (a, b) of same-dimension units of the table, a != b, plus (a, a)"""
    out = []
    for g in dim_groups(tbl, exact_only).values():
        for a in g:
            for b in g:
                out.append((a, b))
    return out


def one_factor(tbl, rng, name, prefix_p=0.0):
    r = tbl.by_name[name]
    pk, pe = "M", 0
    if prefix_p and rng.random() < prefix_p:
        pk, pe = rng.choice(accepted_prefixes(r))
    return [Factor((name, pk, pe, 1, 1))]


def any_scale(tbl, u):
    """Fraction for exact units, float otherwise"""
    return tbl.scale(u) if tbl.exact_unit(u) else tbl.fscale(u)


def rel_close(x, y, rel):
    if x == y:
        return True
    try:
        x, y = Fraction(x), Fraction(y)          # exact; no overflow for huge magnitudes
    except (ValueError, OverflowError, TypeError):
        x, y = float(x), float(y)
        return abs(x - y) <= rel * max(abs(x), abs(y))
    return abs(x - y) <= Fraction(rel) * max(abs(x), abs(y))


# float-exact replica of Quantity::convert_to for ONE-factor units with different
# (prefix, unit): no common factors, no canonicalisation effects
def replica_convert(tbl, v, ua, ub):
    if ua == ub or v == 0.0:
        return v
    assert len(ua) == 1 and len(ub) == 1
    factor = f_to_base_factor(tbl, ub)
    qb = (v / 1.0) * f_to_base_factor(tbl, ua)
    return qb / factor


# ------------------------------------------------------------------ displayed text
import re as _re
_NUM = _re.compile(r"^-?(?:inf|NaN|[0-9][0-9_]*(?:\.[0-9]+)?(?:e[+-]?[0-9]+)?)")


def unit_part(text):
    m = _NUM.match(text)
    return (text[m.end():] if m else text).lstrip(" ")


def display_shape_of(text):
    """what Qty/Display.v display_shape models of the displayed text: the unit part, preceded by the
    `×` marker for the `coefficient × target` form"""
    if " × " in text:
        return "× " + unit_part(text.split(" × ", 1)[1])
    return unit_part(text)
