"""Shared machinery of the quantity checks C03 C04 C05 C11 C12 C21.

* unit table of the running implementation (harness `qty`, line `T`) -> Table
* translator: coq/theories/Gen/PreludeUnits.v (rewritten only when it changes)
* exact reference semantics in Python (Fractions): Table.scale / Table.dim
  -- this is the ORACLE ("dimensional analysis of the unit definitions"), it is
  independent of the Coq model and of the implementation's algorithms
* a float-exact replica of Quantity::convert_to (used only to make the
  known-finding matcher of C11 precise)
* builders for harness RPN lines and Coq case terms, observation parsing
"""
import math
import os
import struct
from fractions import Fraction

import common

GEN = os.path.join(common.COQ, "theories", "Gen")

# prefix spellings (numbat/src/prefix_parser.rs); only used to *write* source text,
# the implementation's own resolution is part of every comparison
METRIC_SHORT = {-30: "q", -27: "r", -24: "y", -21: "z", -18: "a", -15: "f", -12: "p", -9: "n", -6: "µ",
                -3: "m", -2: "c", -1: "d", 1: "da", 2: "h", 3: "k", 6: "M", 9: "G", 12: "T", 15: "P",
                18: "E", 21: "Z", 24: "Y", 27: "R", 30: "Q"}
METRIC_LONG = {-30: "quecto", -27: "ronto", -24: "yocto", -21: "zepto", -18: "atto", -15: "femto",
               -12: "pico", -9: "nano", -6: "micro", -3: "milli", -2: "centi", -1: "deci", 1: "deca",
               2: "hecto", 3: "kilo", 6: "mega", 9: "giga", 12: "tera", 15: "peta", 18: "exa",
               21: "zetta", 24: "yotta", 27: "ronna", 30: "quetta"}
BINARY_SHORT = {10: "Ki", 20: "Mi", 30: "Gi", 40: "Ti", 50: "Pi", 60: "Ei", 70: "Zi", 80: "Yi", 90: "Ri", 100: "Qi"}
BINARY_LONG = {10: "kibi", 20: "mebi", 30: "gibi", 40: "tebi", 50: "pebi", 60: "exbi", 70: "zebi",
               80: "yobi", 90: "robi", 100: "quebi"}


# ------------------------------------------------------------------ floats
def f2bits(x):
    return "%016x" % struct.unpack("<Q", struct.pack("<d", x))[0]


def bits2f(h):
    return struct.unpack("<d", struct.pack("<Q", int(h, 16)))[0]


def is_finite_bits(h):
    x = bits2f(h)
    return not (math.isnan(x) or math.isinf(x))


def coq_Q(fr):
    fr = Fraction(fr)
    return "(Qm (%d) %d)" % (fr.numerator, fr.denominator)


def show_qc(fr):
    fr = Fraction(fr)
    return "%d#%d" % (fr.numerator, fr.denominator)


def powi(x, n):
    """compiler-rt __powidf2 (what f64::powi lowers to)"""
    recip = n < 0
    n = abs(n)
    r = 1.0
    while True:
        if n & 1:
            r *= x
        n >>= 1
        if n == 0:
            break
        x *= x
    return 1.0 / r if recip else r


# ------------------------------------------------------------------ units
class Factor(tuple):
    """(name, pkind 'M'|'B', pexp, num, den)"""
    __slots__ = ()

    @property
    def name(self):
        return self[0]

    @property
    def exp(self):
        return Fraction(self[3], self[4])

    def prefix_value(self):
        return Fraction(10 if self[1] == "M" else 2) ** self[2]


def parse_unit(s):
    if s in ("-", ""):
        return []
    out = []
    for f in s.split(","):
        p = f.split("/")
        out.append(Factor((p[0], p[1], int(p[2]), int(p[3]), int(p[4]))))
    return out


def show_unit(u):
    if not u:
        return "-"
    return ",".join("%s/%s/%d/%d/%d" % tuple(f) for f in u)


def F(name, num=1, den=1, pkind="M", pexp=0):
    fr = Fraction(num, den)
    return Factor((name, pkind, pexp, fr.numerator, fr.denominator))


def upower(u, e):
    e = Fraction(e)
    out = []
    for f in u:
        x = f.exp * e
        out.append(Factor((f[0], f[1], f[2], x.numerator, x.denominator)))
    return out


class Row:
    pass


class Table:
    def __init__(self, dump):
        rows = {}
        for item in dump.split(";"):
            p = item.split("|")
            if len(p) != 9:
                raise common.Broken("unit table row not understood: %r" % item[:120])
            r = Row()
            r.name, r.canon = p[0], p[1]
            r.short, r.metric, r.binary, r.abbrev = (x == "1" for x in p[2:6])
            r.aliases = []
            for a in p[6].split(","):
                if a:
                    nm, sh, lg = a.rsplit(":", 2)
                    r.aliases.append((nm, sh == "1", lg == "1"))
            if p[7] == "B":
                r.base, r.bits, r.defn = True, None, []
            else:
                _, bits, fl = p[7].split(":", 2)
                r.base, r.bits, r.defn = False, bits, parse_unit(fl)
            r.embedded_ok = p[8] == "1"
            rows[r.name] = r
        # exactness: all exponents of the definition are integers, transitively
        exact = {}

        def is_exact(n, stack=()):
            if n in exact:
                return exact[n]
            if n in stack:
                raise common.Broken("cyclic unit definition through %s" % n)
            r = rows[n]
            ok = all(f[4] == 1 and is_exact(f.name, stack + (n,)) for f in r.defn)
            exact[n] = ok
            return ok

        for n in rows:
            is_exact(n)
        # topological order, exact rows first (so the exact scope is a prefix of the table)
        order, seen = [], set()

        def visit(n):
            if n in seen:
                return
            seen.add(n)
            for f in rows[n].defn:
                visit(f.name)
            order.append(n)

        for n in sorted(rows):
            if exact[n]:
                visit(n)
        self.n_exact = len(order)
        for n in sorted(rows):
            visit(n)
        self.rows = [rows[n] for n in order]
        self.index = {r.name: i for i, r in enumerate(self.rows)}
        self.by_name = rows
        for r in self.rows:
            r.exact = exact[r.name]
        # reference semantics
        self._scale, self._dim, self._fscale = {}, {}, {}
        for r in self.rows:
            if r.base:
                self._scale[r.name] = Fraction(1)
                self._dim[r.name] = {r.name: Fraction(1)}
                self._fscale[r.name] = 1.0
                continue
            d = {}
            for f in r.defn:
                for b, e in self._dim[f.name].items():
                    d[b] = d.get(b, 0) + e * f.exp
            self._dim[r.name] = {b: e for b, e in d.items() if e != 0}
            fs = bits2f(r.bits)
            for f in r.defn:
                fs *= math.pow(float(f.prefix_value()) * self._fscale[f.name], float(f.exp))
            self._fscale[r.name] = fs
            if r.exact:
                s = Fraction(bits2f(r.bits))
                for f in r.defn:
                    s *= (f.prefix_value() * self._scale[f.name]) ** int(f.exp)
                self._scale[r.name] = s
        # alias -> row
        self.alias = {}
        for r in self.rows:
            for (a, sh, lg) in r.aliases:
                self.alias[a] = (r, sh, lg)

    # ---- exact reference ("dimensional analysis of the definitions")
    def exact_unit(self, u):
        return all(f[4] == 1 and self.by_name[f.name].exact for f in u)

    def scale(self, u):
        s = Fraction(1)
        for f in u:
            s *= (f.prefix_value() * self._scale[f.name]) ** int(f.exp)
        return s

    def fscale(self, u):
        s = 1.0
        for f in u:
            s *= math.pow(float(f.prefix_value()) * self._fscale[f.name], float(f.exp))
        return s

    def dim(self, u):
        d = {}
        for f in u:
            for b, e in self._dim[f.name].items():
                d[b] = d.get(b, 0) + e * f.exp
        return {b: e for b, e in d.items() if e != 0}

    def dimkey(self, u):
        return tuple(sorted(self.dim(u).items()))

    # ---- Coq syntax
    def coq_factor(self, f):
        return "F %d (%s (%d)) (%d) %d" % (self.index[f.name], "Metric" if f[1] == "M" else "Binary",
                                           f[2], f[3], f[4])

    def coq_unit(self, u):
        return "[" + "; ".join(self.coq_factor(f) for f in u) + "]"

    def coq_q(self, bits, u):
        return "(QL %s %s)" % (coq_Q(bits2f(bits)), self.coq_unit(u))

    def gen_v(self):
        out = ["(* GENERATED by tools/props/qtylib.py from the unit table of the running implementation",
               "   (harness `qty`, line T: numbat::verif::qty hooks after `use prelude`). Do not edit. *)",
               "From Coq Require Import List ZArith QArith Qcanon String.",
               "From NV Require Import Qty.Model.",
               "Import ListNotations.",
               "Open Scope string_scope.",
               "",
               "Definition prelude_tbl : table Qc := ["]
        lines = []
        for r in self.rows:
            if r.base:
                k = "Base"
            else:
                fs = "; ".join("mkF %d (%s (%d)) (Q2Qc (%d # %d))" % (
                    self.index[f.name], "Metric" if f[1] == "M" else "Binary", f[2], f[3], f[4])
                    for f in r.defn)
                k = "(Derived (Q2Qc %s) [%s])" % (coq_Q(bits2f(r.bits)).replace("(Qm ", "(Qmake "), fs)
            lines.append("  mkRow %s %s" % (common.coq_string(r.name), k))
        out.append(";\n".join(lines))
        out.append("]%list.")
        out.append("")
        out.append("(* rows below this index have integer exponents only (transitively) *)")
        out.append("Definition prelude_n_exact : nat := %d." % self.n_exact)
        out.append("Definition prelude_embedded_ok : bool := %s." % (
            "true" if all(r.embedded_ok for r in self.rows) else "false"))
        return "\n".join(out) + "\n"


def write_if_changed(path, content):
    os.makedirs(os.path.dirname(path), exist_ok=True)
    old = open(path).read() if os.path.exists(path) else None
    if old != content:
        with open(path, "w") as f:
            f.write(content)
        return True
    return False


_session = {}


def session():
    """build the harness, dump the table, regenerate Gen/PreludeUnits.v"""
    if _session:
        return _session["binary"], _session["table"]
    binary, _ = common.build_harness()
    out = common.run_harness(binary, "qty", ["T"], shards=1)[0]
    if out.startswith("@@") or "|" not in out:
        raise common.Broken("unit table dump failed: %r" % out[:200])
    tbl = Table(out)
    write_if_changed(os.path.join(GEN, "PreludeUnits.v"), tbl.gen_v())
    _session.update(binary=binary, table=tbl)
    return binary, tbl


# ------------------------------------------------------------------ observations
class Obs:
    """parsed harness observation"""

    def __init__(self, line):
        self.raw = line
        self.kind = None
        core = line.split("\t")[0]
        self.extra = line.split("\t")[1:]
        if core.startswith("V:"):
            core = core[2:]
        if core.startswith("Q:"):
            body, _, disp = core.partition("|")
            p = body.split(":")
            self.kind = "Q"
            self.bits, self.unit = p[1], parse_unit(p[2])
            self.simp = p[3]
            self.target = None
            if p[4] != "-":
                tb, tu = p[4].split("=", 1)
                self.target = (tb, parse_unit(tu))
            self.display = disp
        elif core.startswith("B:"):
            self.kind, self.b = "B", core[2:] == "1"
        elif core.startswith("C:"):
            self.kind, self.c = "C", core[2:]
        elif core.startswith("E:"):
            self.kind, self.err = "E", core[2:]
        elif core == "P" or core.startswith("@@"):
            self.kind = "P"
        elif core == "-":
            self.kind = "-"
        else:
            self.kind, self.other = "O", core

    @property
    def value(self):
        return bits2f(self.bits)

    def finite(self):
        return self.kind == "Q" and is_finite_bits(self.bits)

    def expected_model_string(self):
        """what the Coq printer must produce if model and implementation agree"""
        if self.kind == "Q":
            t = "-"
            if self.target:
                t = show_qc(Fraction(bits2f(self.target[0]))) + "=" + show_unit(self.target[1])
            return "ok:%s:%s:%s" % (show_unit(self.unit), self.simp, t)
        if self.kind == "B":
            return "B:%d" % self.b
        if self.kind == "C":
            return "C:" + self.c
        if self.kind == "E":
            return "E:" + self.err
        if self.kind == "P":
            return "P"
        return self.raw


def rpn_q(bits, u):
    return "q:%s:%s" % (bits, show_unit(u))


# ------------------------------------------------------------------ display of units (unit.rs / product.rs)
SUP = str.maketrans("-0123456789", "⁻⁰¹²³⁴⁵⁶⁷⁸⁹")


def display_factor(tbl, f, invert=False):
    r = tbl.by_name[f.name]
    if f[1] == "M":
        pre = "" if f[2] == 0 else (METRIC_SHORT if r.short else METRIC_LONG).get(f[2], "<prefix 10^%d>" % f[2])
    else:
        pre = "" if f[2] == 0 else (BINARY_SHORT if r.short else BINARY_LONG).get(f[2], "<prefix 2^%d>" % f[2])
    e = -f.exp if invert else f.exp
    if e.denominator != 1:
        es = "^(%d/%d)" % (e.numerator, e.denominator)
    elif e == 1:
        es = ""
    else:
        es = str(e.numerator).translate(SUP)
    return pre + r.canon + es


def display_unit(tbl, u):
    pos = [f for f in u if f.exp > 0]
    neg = [f for f in u if not f.exp > 0]
    if not pos and not neg:
        return ""
    if not pos:
        return "·".join(display_factor(tbl, f) for f in neg)
    s = "·".join(display_factor(tbl, f) for f in pos)
    if not neg:
        return s
    if len(neg) == 1:
        return s + "/" + display_factor(tbl, neg[0], True)
    return s + "/(" + "·".join(display_factor(tbl, f, True) for f in neg) + ")"


# ------------------------------------------------------------------ float-exact replica of convert_to
def f_to_base_factor(tbl, u):
    """Unit::to_base_unit_representation().1 in f64, same operation order"""
    factor = 1.0
    for f in u:
        base = powi(10.0, f[2]) if f[1] == "M" else powi(2.0, f[2])
        factor = factor * math.pow(base * f_base_factor(tbl, f.name), float(f.exp))
    return factor


_fbf = {}


def f_base_factor(tbl, name):
    """UnitIdentifier::base_unit_and_factor().1 in f64, same operation order"""
    key = (id(tbl), name)
    if key in _fbf:
        return _fbf[key]
    r = tbl.by_name[name]
    if r.base:
        v = 1.0
    else:
        prod = 1.0
        for f in r.defn:
            base = powi(10.0, f[2]) if f[1] == "M" else powi(2.0, f[2])
            prod = prod * math.pow(base * f_base_factor(tbl, f.name), float(f.exp))
        v = bits2f(r.bits) * prod
    _fbf[key] = v
    return v
